import ScyllaVerif.Model.ReadPrim
/-
C08 — model of the two column-type parsers that read type descriptions sent by the server.

* `deserType`  ← `deser_type_generic` (`scylla-cql/src/frame/response/result.rs:523-645`, after the `fix:` commits
  c6419cc (depth limit `MAX_TYPE_NESTING_DEPTH = 128`) and 177d90d (tuple / UDT field vectors are not pre-allocated)).
  The Rust `depth` argument is `TOP_FUEL - fuel` with `TOP_FUEL = MAX_TYPE_NESTING_DEPTH + 1`: `depth > MAX` ⇔ `fuel = 0`.  Structural recursion on `fuel`
  (nesting) and on the element count (`loopN`): this is the termination proof.
* `customParse` ← `CustomTypeParser::parse` (`custom_type_parser.rs`, after 412bc6c (iterator fused after its first
  error), c6419cc (depth limit in `do_parse`), 3ffdc84 (parameters collected once) and 2a278cb (no zero dimension)).
  The parser state is the list of the remaining Unicode scalars; the class of the non-ASCII ones
  (`char::is_alphanumeric` / `is_whitespace`) is a parameter of the model (`St.uni`).  The one partial operation of
  the parser, `from_utf8(chunk).unwrap()` in `from_hex`, is modelled with its panic (`CtErr.panic`).
-/
namespace ScyllaVerif.C08

inductive Native where
  | ascii | bigint | blob | boolean | counter | decimal | double | float | int | timestamp | uuid | text
  | varint | timeuuid | inet | date | time | smallint | tinyint | duration
  deriving Repr, DecidableEq

/-- `ColumnType` (`scylla-cql-core/src/frame/response/result.rs:72-112`). -/
inductive Ty where
  | native (n : Native)
  | list (frozen : Bool) (t : Ty)
  | set (frozen : Bool) (t : Ty)
  | map (frozen : Bool) (k v : Ty)
  | tuple (ts : List Ty)
  | udt (frozen : Bool) (ks name : Bytes) (fields : List (Bytes × Ty))
  | vector (t : Ty) (dim : Nat)
  deriving Repr

/-- Type ids of the native types (`result.rs:541-560`); `0x000A` is not assigned. -/
def nativeOfId (id : Nat) : Option Native :=
  match id with
  | 0x01 => some .ascii | 0x02 => some .bigint | 0x03 => some .blob | 0x04 => some .boolean
  | 0x05 => some .counter | 0x06 => some .decimal | 0x07 => some .double | 0x08 => some .float
  | 0x09 => some .int | 0x0B => some .timestamp | 0x0C => some .uuid | 0x0D => some .text
  | 0x0E => some .varint | 0x0F => some .timeuuid | 0x10 => some .inet | 0x11 => some .date
  | 0x12 => some .time | 0x13 => some .smallint | 0x14 => some .tinyint | 0x15 => some .duration
  | _ => none

/-! ### custom type strings

The Rust parser works on a `&str` with `char` predicates.  The model works on the list of the string's Unicode
scalars (`CU`: the scalar's UTF-8 bytes plus its class).  For ASCII the class is computed here; for the other
scalars `char::is_alphanumeric` / `char::is_whitespace` are tables of the Rust standard library that the model does
not carry: they are a PARAMETER (`uni`, a table from UTF-8 bytes to class, kept in the reader state; the harness
supplies it per case, the theorems hold for every table).  All slicing of the Rust code (`&self.s[idx..]`) happens at
positions returned by `str::find` / `strip_prefix`, i.e. at scalar boundaries, which is what list operations on
scalars express; byte-level chunking happens only in `from_hex` (modelled on the bytes, with its `unwrap`). -/

def MAX_TYPE_NESTING_DEPTH : Nat := 128

/-- Errors of the custom type parser: a `CustomTypeParseError` kind, or a panic of the Rust code. -/
inductive CtErr where
  | kind (k : String)
  | panic (site : String)
  /-- An artefact of the model only: a termination fuel ran out / an arm that the code cannot reach.
  `Proofs/CustomFuel.lean` proves it is never produced. -/
  | fuel (what : String)
  deriving Repr

abbrev CtRes (α : Type) := Except CtErr α

/-- One Unicode scalar of the type string. -/
structure CU where
  bytes : Bytes
  cls : UCls
  deriving Repr

abbrev Str := List CU

def isWhite (b : UInt8) : Bool := b = 0x20 ∨ (0x09 ≤ b ∧ b ≤ 0x0D)
def isDigit (b : UInt8) : Bool := 0x30 ≤ b ∧ b ≤ 0x39
def isAlpha (b : UInt8) : Bool := (0x41 ≤ b ∧ b ≤ 0x5A) ∨ (0x61 ≤ b ∧ b ≤ 0x7A)
def isHexDigit (b : UInt8) : Bool := isDigit b ∨ (0x41 ≤ b ∧ b ≤ 0x46) ∨ (0x61 ≤ b ∧ b ≤ 0x66)
/-- `is_identifier_char` on ASCII: alphanumeric or one of `+ - _ . &`. -/
def isIdent (b : UInt8) : Bool :=
  isAlpha b ∨ isDigit b ∨ b = 0x2B ∨ b = 0x2D ∨ b = 0x5F ∨ b = 0x2E ∨ b = 0x26

/-- `char::is_whitespace`. -/
def CU.isWhite (u : CU) : Bool :=
  match u.bytes with
  | [b] => C08.isWhite b
  | _ => u.cls == .white
/-- `CustomTypeParser::is_identifier_char`. -/
def CU.isIdent (u : CU) : Bool :=
  match u.bytes with
  | [b] => C08.isIdent b
  | _ => u.cls == .alnum
/-- `char::is_ascii_digit`. -/
def CU.isDigit (u : CU) : Bool :=
  match u.bytes with
  | [b] => C08.isDigit b
  | _ => false

/-- `str::as_bytes`. -/
def bytesOf (s : Str) : Bytes := s.flatMap (·.bytes)

/-- Length of the UTF-8 sequence introduced by a lead byte. -/
def utf8Len (b : UInt8) : Nat := if b < 0x80 then 1 else if b < 0xE0 then 2 else if b < 0xF0 then 3 else 4

/-- The scalars of a (validated) UTF-8 string. -/
def scalars : Nat → Bytes → List Bytes
  | 0, _ => []
  | _, [] => []
  | fuel + 1, b :: rest => (b :: rest.take (utf8Len b - 1)) :: scalars fuel (rest.drop (utf8Len b - 1))

def toStr (uni : List (Bytes × UCls)) (s : Bytes) : Str :=
  (scalars s.length s).map (fun bs => ⟨bs, match uni.find? (fun p => p.1 == bs) with
    | some p => p.2
    | none => .other⟩)

def skipWhite (s : Str) : Str := s.dropWhile CU.isWhite
def readIdent (s : Str) : Str × Str := (s.takeWhile CU.isIdent, s.dropWhile CU.isIdent)

def asciiBytes (s : String) : Bytes := s.toList.map (fun c => UInt8.ofNat c.toNat)

/-- `ParserState::accept(c)` for a one-character ASCII literal. -/
def accept (c : UInt8) (s : Str) : Option Str :=
  match s with
  | u :: rest => if u.bytes = [c] then some rest else none
  | [] => none

def LPAREN : UInt8 := 0x28
def RPAREN : UInt8 := 0x29
def COMMA : UInt8 := 0x2C
def COLON : UInt8 := 0x3A

/-- `skip_blank_and_comma`: blanks, at most ONE comma, blanks. -/
def skipBlankComma (s : Str) : Str :=
  let s := skipWhite s
  match accept COMMA s with
  | some s' => skipWhite s'
  | none => s

def marshalPrefix : Bytes := asciiBytes "org.apache.cassandra.db.marshal."

/-- `name.strip_prefix("org.apache.cassandra.db.marshal.").unwrap_or(name)` on the bytes of the name. -/
def stripMarshal (name : Bytes) : Bytes :=
  if marshalPrefix.isPrefixOf name then name.drop marshalPrefix.length else name

/-- `get_simple_abstract_type`. -/
def simpleType (name : Bytes) : CtRes Ty :=
  let n := stripMarshal name
  let tbl : List (String × Native) := [
    ("AsciiType", .ascii), ("BooleanType", .boolean), ("BytesType", .blob), ("CounterColumnType", .counter),
    ("DateType", .date), ("DecimalType", .decimal), ("DoubleType", .double), ("DurationType", .duration),
    ("FloatType", .float), ("InetAddressType", .inet), ("Int32Type", .int), ("IntegerType", .varint),
    ("LongType", .bigint), ("SimpleDateType", .date), ("ShortType", .smallint), ("UTF8Type", .text),
    ("ByteType", .tinyint), ("UUIDType", .uuid), ("TimeUUIDType", .timeuuid), ("SmallIntType", .smallint),
    ("TinyIntType", .tinyint), ("TimeType", .time), ("TimestampType", .timestamp)]
  match tbl.find? (fun p => asciiBytes p.1 == n) with
  | some p => .ok (.native p.2)
  | none => .error (.kind "unksimple")

def hexVal (b : UInt8) : Nat :=
  if isDigit b then b.toNat - 0x30 else if b ≥ 0x61 then b.toNat - 0x61 + 10 else b.toNat - 0x41 + 10

def hexPairs : Bytes → Bytes
  | a :: b :: rest => UInt8.ofNat (hexVal a * 16 + hexVal b) :: hexPairs rest
  | _ => []

/-- `std::str::from_utf8(&[a, b]).is_ok()`: two ASCII bytes, or one two-byte scalar. -/
def utf8ok2 (a b : UInt8) : Bool := (a < 0x80 ∧ b < 0x80) ∨ (0xC2 ≤ a ∧ a ≤ 0xDF ∧ 0x80 ≤ b ∧ b ≤ 0xBF)

/-- The chunk loop of `from_hex`: `u8::from_str_radix(std::str::from_utf8(chunk).unwrap(), 16)` for every 2-byte
chunk — the `unwrap` PANICS on a chunk that is not UTF-8; a chunk that is not two hex digits is `BadHexString`
(`from_str_radix` also accepts a leading `+`, which the scan in `fromHex` excludes beforehand). -/
def hexChunks : Bytes → CtRes Bytes
  | a :: b :: rest =>
    if !utf8ok2 a b then .error (.panic "from_hex: from_utf8(chunk).unwrap()")
    else if !(isHexDigit a && isHexDigit b) then .error (.kind "badhex")
    else match hexChunks rest with
      | .ok r => .ok (UInt8.ofNat (hexVal a * 16 + hexVal b) :: r)
      | .error e => .error e
  | _ => .ok []

/-- `CustomTypeParser::from_hex` followed by `String::from_utf8`: first the scan `c.is_ascii_hexdigit()` over the
chars (for a `&str`: every byte is an ASCII hex digit), then the even length, then the chunks. -/
def fromHexUtf8 (s : Bytes) : CtRes Bytes :=
  if !s.all isHexDigit then .error (.kind "badhex")
  else if s.length % 2 ≠ 0 then .error (.kind "badhex")
  else match hexChunks s with
    | .error e => .error e
    | .ok bs => if utf8ok bs then .ok bs else .error (.kind "utf8")

/-- `usize::from_str_radix(name, 16).is_ok()`: optional leading `+`, at least one digit, all hex, value < 2^64. -/
def usizeHexOk (name : Bytes) : Bool :=
  let digits := match name with
    | 0x2B :: rest => rest
    | _ => name
  !digits.isEmpty && digits.all isHexDigit &&
    (digits.foldl (fun a b => a * 16 + hexVal b) 0) < 2 ^ 64

/-- `ParserState::parse_u16`: the maximal run of ASCII digits must parse as `u16`. -/
def parseU16 (s : Str) : Option (Nat × Str) :=
  let ds := bytesOf (s.takeWhile CU.isDigit)
  let v := ds.foldl (fun a b => a * 10 + (b.toNat - 0x30)) 0
  if ds.isEmpty || v > 65535 then none else some (v, s.dropWhile CU.isDigit)

abbrev CtParse := Bool → Str → CtRes (Ty × Str)

/-- The iterator of `get_type_parameters` run to its end: every item it yields (it stops at `)` or right after its
first error) and the parser position afterwards.  `n` bounds the number of items (each successful item consumes at
least one scalar, so `s.length + 1` is enough; exhaustion is reported as an `Err` item and never happens). -/
def paramsLoop (parse : CtParse) (frozen : Bool) : Nat → Str → List (CtRes Ty) × Str
  | 0, s => ([.error (.fuel "loop")], s)
  | n + 1, s =>
    let s := skipBlankComma s
    if s.isEmpty then ([.error (.kind "eof")], s)
    else match accept RPAREN s with
      | some s' => ([], s')
      | none =>
        match parse frozen s with
        | .error e => ([.error e], s)
        | .ok (t, s') =>
          let (r, s'') := paramsLoop parse frozen n s'
          (.ok t :: r, s'')

/-- `get_type_parameters`. -/
def typeParameters (parse : CtParse) (frozen : Bool) (s : Str) : CtRes (List (CtRes Ty) × Str) :=
  if s.isEmpty then .ok ([], s)
  else match accept LPAREN s with
    | none => .error (.kind "unexpchar")
    | some s' => .ok (paramsLoop parse frozen (s'.length + 1) s')

/-- `get_n_type_parameters::<N>`: all items of the iterator are collected (a failed item ends it); exactly `N` items
are required, otherwise `InvalidParameterCount { actual = number of items, expected = N }`. -/
def nTypeParameters (parse : CtParse) (frozen : Bool) (n : Nat) (s : Str) : CtRes (List (CtRes Ty) × Str) :=
  match typeParameters parse frozen s with
  | .error e => .error e
  | .ok (items, s') =>
    if items.length = n then .ok (items, s')
    else .error (.kind s!"paramcount:{items.length}:{n}")

def collectOk : List (CtRes Ty) → CtRes (List Ty)
  | [] => .ok []
  | .error e :: _ => .error e
  | .ok t :: rest => match collectOk rest with
    | .ok r => .ok (t :: r)
    | .error e => .error e

/-- The field loop of `get_udt_parameters`. -/
def udtFields (parse : CtParse) (frozen : Bool) : Nat → Str → CtRes (List (Bytes × Ty) × Str)
  | 0, _ => .error (.fuel "loop")
  | n + 1, s =>
    let s := skipBlankComma s
    if s.isEmpty then .error (.kind "eof")
    else match accept RPAREN s with
      | some s' => .ok ([], s')
      | none =>
        let (id, s1) := readIdent s
        match fromHexUtf8 (bytesOf id) with
        | .error e => .error e
        | .ok fname =>
          match accept COLON s1 with
          | none => .error (.kind "unexpchar")
          | some s2 =>
            match parse frozen s2 with
            | .error e => .error e
            | .ok (t, s3) =>
              match udtFields parse frozen n s3 with
              | .error e => .error e
              | .ok (r, s4) => .ok ((fname, t) :: r, s4)

/-- One-parameter forms (`ListType`, `SetType`, `FrozenType`). -/
def oneParam (parse : CtParse) (frozen : Bool) (s : Str) : CtRes (Ty × Str) :=
  match nTypeParameters parse frozen 1 s with
  | .ok ([.ok t], s') => .ok (t, s')
  | .ok ([.error e], _) => .error e
  | .ok _ => .error (.fuel "impossible")
  | .error e => .error e

/-- `get_complex_abstract_type` (`s` starts with `(`). -/
def complexType (parse : CtParse) (frozen : Bool) (name : Bytes) (s : Str) : CtRes (Ty × Str) :=
  let n := stripMarshal name
  if n == asciiBytes "ListType" then
    match oneParam parse frozen s with
    | .ok (t, s') => .ok (.list frozen t, s')
    | .error e => .error e
  else if n == asciiBytes "SetType" then
    match oneParam parse frozen s with
    | .ok (t, s') => .ok (.set frozen t, s')
    | .error e => .error e
  else if n == asciiBytes "MapType" then
    match nTypeParameters parse frozen 2 s with
    | .ok ([.ok k, .ok v], s') => .ok (.map frozen k v, s')
    | .ok ([.error e, _], _) => .error e
    | .ok ([.ok _, .error e], _) => .error e
    | .ok _ => .error (.fuel "impossible")
    | .error e => .error e
  else if n == asciiBytes "TupleType" then
    match typeParameters parse frozen s with
    | .error e => .error e
    | .ok (items, s') =>
      match collectOk items with
      | .error e => .error e
      | .ok [] => .error (.kind "paramcount:0:1")
      | .ok ts => .ok (.tuple ts, s')
  else if n == asciiBytes "VectorType" then
    match accept LPAREN s with
    | none => .error (.kind "unexpchar")
    | some s1 =>
      let s2 := skipBlankComma s1
      if (accept RPAREN s2).isSome then .error (.kind "paramcount:0:2")
      else match parse frozen s2 with
        | .error e => .error e
        | .ok (t, s3) =>
          match parseU16 (skipBlankComma s3) with
          | none => .error (.kind "int")
          | some (dim, s4) =>
            -- fix 2a278cb: only positive dimensions (a zero-sized element could be "read" from no input)
            if dim = 0 then .error (.kind "zerodim") else
            match accept RPAREN s4 with
            | none => .error (.kind "unexpchar")
            | some s5 => .ok (.vector t dim, s5)
  else if n == asciiBytes "UserType" then
    match accept LPAREN s with
    | none => .error (.kind "unexpchar")
    | some s1 =>
      let (ks, s2) := readIdent (skipBlankComma s1)
      let (hexName, s3) := readIdent (skipBlankComma s2)
      match fromHexUtf8 (bytesOf hexName) with
      | .error e => .error e
      | .ok tname =>
        match udtFields parse frozen (s3.length + 1) s3 with
        | .error e => .error e
        | .ok (fields, s4) => .ok (.udt frozen (bytesOf ks) tname fields, s4)
  else if n == asciiBytes "FrozenType" then oneParam parse true s
  else .error (.kind "unkcomplex")

/-- `do_parse` with `fuel = MAX_TYPE_NESTING_DEPTH - self.depth`. -/
def doParse : Nat → CtParse
  | 0 => fun _ _ => .error (.kind "depth")
  | fuel + 1 => fun frozen s =>
    let s := skipWhite s
    let (name, s1) := readIdent s
    if name.isEmpty then
      if !s1.isEmpty then .error (.kind "unkcomplex") else .ok (.native .blob, s1)
    else
      -- optional `<hex>:` prefix, ignored
      let r : CtRes (Str × Str) :=
        match accept COLON s1 with
        | some s2 => if usizeHexOk (bytesOf name) then .ok (readIdent s2) else .error (.kind "badhex")
        | none => .ok (name, s1)
      match r with
      | .error e => .error e
      | .ok (name, s2) =>
        let s3 := skipWhite s2
        if (accept LPAREN s3).isSome then complexType (doParse fuel) frozen (bytesOf name) s3
        else match simpleType (bytesOf name) with
          | .ok t => .ok (t, s3)
          | .error e => .error e

/-- `CustomTypeParser::parse` on a validated UTF-8 string, with the class table `uni` for its non-ASCII scalars. -/
def customParse (uni : List (Bytes × UCls)) (s : Bytes) : CtRes Ty :=
  match doParse MAX_TYPE_NESTING_DEPTH false (toStr uni s) with
  | .ok (t, _) => .ok t
  | .error e => .error e

/-- Nesting depth of `do_parse` calls that built a type (ghost; 1 for a simple type). -/
def customDepthBound : Nat := MAX_TYPE_NESTING_DEPTH

/-! ### binary type descriptions -/

/-- Levels `deser_type_generic` accepts: `depth` runs from 0 and the call fails when `depth > MAX_TYPE_NESTING_DEPTH`. -/
def TOP_FUEL : Nat := MAX_TYPE_NESTING_DEPTH + 1

/-- `deser_type_generic` with `fuel = TOP_FUEL - depth`. -/
def deserType : Nat → M Ty
  | 0 => fail "type.depth"
  | fuel + 1 => do
    noteDepth (TOP_FUEL - fuel)
    let id ← tag "type.id" readShort
    match id with
    | 0x0000 => do
      let str ← tag "type.customname" readString
      let uni ← getUni
      match customParse uni str with
      | .ok t => do noteDepth (TOP_FUEL - fuel + customDepthBound); pure t
      | .error (.kind e) => fail ("type.ct." ++ e)
      | .error (.panic site) => panicAt site
      | .error (.fuel w) => fail ("type.ct.MODEL-FUEL." ++ w)
    | 0x0020 => do let t ← deserType fuel; pure (.list false t)
    | 0x0021 => do let k ← deserType fuel; let v ← deserType fuel; pure (.map false k v)
    | 0x0022 => do let t ← deserType fuel; pure (.set false t)
    | 0x0030 => do
      let ks ← tag "type.udtks" readString
      let name ← tag "type.udtname" readString
      let n ← tag "type.udtcount" readShort
      -- `Vec::new()`: no capacity request from the declared count (fix 177d90d)
      let fields ← loopN n (do
        let fname ← tag "type.udtfield" readString
        let t ← deserType fuel
        pure (fname, t))
      pure (.udt false ks name fields)
    | 0x0031 => do
      let n ← tag "type.tuplelen" readShort
      let ts ← loopN n (deserType fuel)
      pure (.tuple ts)
    | id =>
      match nativeOfId id with
      | some n => pure (.native n)
      | none => fail "type.unknownid"

/-- `deser_type_owned` / `deser_type_borrowed`: depth 0. -/
def deserTypeTop : M Ty := deserType TOP_FUEL

end ScyllaVerif.C08

/-
Model of the transparent pager, `scylla/src/client/pager.rs` (C07).

The pager is three things running concurrently:

* a **producer** (`PagingExecutor::query_remaining_pages` 199-253 for the session pagers,
  `SingleConnectionPagingExecutor::fetch_remaining_pages` 640-684 for `Connection::execute_iter`):
  a loop that fetches one page with the current paging state, sends it over the channel, stores the
  paging state of `HasMorePages`, returns on `NoMorePages`; a failed fetch is sent once as an error and
  the loop returns; if `send` fails (receiver gone) the loop returns silently.  The FIRST page is
  fetched by the same code on the caller's task before the `QueryPager` exists
  (`query_first_page` 257-296, `new_for_connection_execute_iter` 1124-1162) and becomes the pager's
  current page directly, not through the channel; a failure there is the constructor's error.
* a **channel** `mpsc::channel(1)` (872, 1015, 1135): one buffered item, a second `send` waits,
  dropping the receiver discards the buffer and makes `send` fail, a dropped sender lets the receiver
  drain the buffer and then see `None`.
* a **consumer** (`QueryPager::next` 718-733, `poll_fill_page` 750-766, `poll_next_page` 773-791): while
  the current page has rows it hands out the next one; otherwise it receives from the channel: a page
  replaces the current page (an EMPTY page makes the poll return `Pending` after waking itself, i.e.
  the next poll looks again), an error is returned, `None` ends the stream.

One fetch of a page is `run_request_no_side_effects` (execution.rs 403-511): one or more ATTEMPTS,
each carrying `self.paging_state.clone()` (pager.rs 331-335, 579-594).  The retry policy (C06 owns its
model) is represented by its effect on the page loop only: an attempt either yields the page, or fails
and is retried (another attempt follows, same paging state), or fails for good (`DontRetry`, plan
exhausted, client-side timeout), or the policy says `IgnoreWriteError` (pager.rs 220-226, 278-290).

The server is a script `pages`: the k-th successful fetch is answered by the k-th entry
`(rows, paging state | none)`; beyond the script it answers an empty final page.  Everything the
scheduler decides (when the producer task runs, when the consumer polls, when the pager is dropped) is
the explicit schedule `List Op`; the theorems quantify over all schedules.
-/
namespace ScyllaVerif.Pager

abbrev Row := Nat
abbrev PState := List UInt8
abbrev Page := List Row × Option PState

/-- What one attempt to fetch a page comes to, as seen by the page loop. -/
inductive Attempt where
  /-- the server's page is returned -/
  | ok
  /-- failed, the retry policy retried (same or next target): another attempt with the SAME state follows -/
  | retry
  /-- failed for good: `DontRetry` / plan exhausted / request timeout / unexpected response kind -/
  | fail (e : String)
  /-- the retry policy answered `IgnoreWriteError` -/
  | ignore
  deriving DecidableEq, Repr, Inhabited

/-- What travels over the channel (`ResultNextPage`). -/
inductive Item where
  | page (rows : List Row)
  | err (e : String)
  deriving DecidableEq, Repr

/-- Program counter of the producer. -/
inductive PC where
  /-- fetching the first page on the caller's task (paging state: none) -/
  | first
  /-- top of the loop: the next attempt carries `st` -/
  | fetch (st : Option PState)
  /-- inside `sender.send(it).await`; afterwards continue with `nx` (`none` = return) -/
  | send (it : Item) (nx : Option PState)
  /-- returned; the `Sender` is dropped -/
  | done
  deriving DecidableEq, Repr

/-- The consumer's end. -/
inductive Rx where
  /-- the constructor has not returned yet -/
  | unbuilt
  | alive
  /-- the `QueryPager` / row stream was dropped -/
  | dropped
  deriving DecidableEq, Repr

structure St where
  pc : PC
  /-- pages the server has not served yet -/
  todo : List Page
  /-- outcomes of the attempts still to come (an exhausted list means `ok`) -/
  faults : List Attempt
  /-- number of pages served so far = index of the page being fetched -/
  served : Nat
  /-- every request sent: (index of the page asked for, paging state presented) -/
  log : List (Nat × Option PState)
  chan : Option Item
  rx : Rx
  /-- rows of the current page not handed out yet (`RawRowLendingIterator`) -/
  cur : List Row
  /-- rows the stream has yielded, in order -/
  delivered : List Row
  /-- errors the stream has yielded -/
  errs : List String
  /-- the stream has yielded `None` -/
  ended : Bool
  /-- the constructor (`execute_iter` / `query_iter`) returned this error instead of a pager -/
  ctorErr : Option String
  /-- ghost: pages that became the consumer's current page -/
  taken : Nat
  /-- ghost: rows of the pages the producer gave up on (after a failure / ignored error) -/
  lost : List Row
  /-- ghost: an `IgnoreWriteError` decision was taken -/
  ignored : Bool
  deriving Repr

/-- The rows a complete iteration yields: pages up to and including the first one without a paging state. -/
def servedRows : List Page → List Row
  | [] => []
  | (r, none) :: _ => r
  | (r, some _) :: t => r ++ servedRows t

/-- The server's answer to the `k`-th successful fetch (beyond the script: an empty last page). -/
def pageAt (pages : List Page) (k : Nat) : Page := pages[k]?.getD ([], none)

/-- The paging state request number `k` (0-based) has to carry: none for the first, otherwise the one
returned with page `k-1`. -/
def stateBefore (pages : List Page) : Nat → Option PState
  | 0 => none
  | k + 1 => (pageAt pages k).2

/-- All rows of the first `k` pages. -/
def rowsBefore (pages : List Page) (k : Nat) : List Row := ((pages.take k).map Prod.fst).flatten

/-- The constructor failed BEFORE the first fetch (`PartitionKeyError`, pager.rs 949-958 / 1104-1111:
partition key extraction / token calculation on the bound values): no request, no pager, no task. -/
def initFailed (pages : List Page) (faults : List Attempt) (e : String) : St :=
  { pc := .done, todo := pages, faults := faults, served := 0, log := [], chan := none, rx := .unbuilt,
    cur := [], delivered := [], errs := [], ended := false, ctorErr := some e,
    taken := 0, lost := servedRows pages, ignored := false }

def init (pages : List Page) (faults : List Attempt) : St :=
  { pc := .first, todo := pages, faults := faults, served := 0, log := [], chan := none, rx := .unbuilt,
    cur := [], delivered := [], errs := [], ended := false, ctorErr := none,
    taken := 0, lost := [], ignored := false }

def pcAfter : Option PState → PC
  | some st => .fetch (some st)
  | none => .done

/-- One step of the producer (stutters when blocked in `send` on a full channel, or finished). -/
def stepProd (s : St) : St :=
  match s.pc with
  | .first =>
    -- pager.rs 1126-1132 / 267-296: one attempt with `PagingState::start()`
    let s' := { s with log := s.log ++ [(s.served, none)], faults := s.faults.tail }
    match s.faults.headD .ok with
    | .retry => s'
    | .fail e => { s' with pc := .done, ctorErr := some e, lost := servedRows s.todo }
    | .ignore =>
      -- 278-290: an empty page and `NoMorePages`
      { s' with pc := .done, rx := .alive, ignored := true, lost := servedRows s.todo }
    | .ok =>
      let p := s.todo.headD ([], none)
      -- 1136-1162 / 389-396, 872-915: NoMorePages drops the sender, HasMorePages spawns the worker
      { s' with todo := s.todo.tail, served := s.served + 1, cur := p.1, rx := .alive, taken := 1,
                pc := pcAfter p.2 }
  | .fetch st =>
    -- 646-651 / 211-217: one attempt carrying the current paging state
    let s' := { s with log := s.log ++ [(s.served, st)], faults := s.faults.tail }
    match s.faults.headD .ok with
    | .retry => s'
    | .fail e => { s' with pc := .send (.err e) none, lost := servedRows s.todo }   -- 655-658 / 247-250
    | .ignore => { s' with pc := .done, ignored := true, lost := servedRows s.todo }  -- 220-226
    | .ok =>
      let p := s.todo.headD ([], none)
      { s' with todo := s.todo.tail, served := s.served + 1, pc := .send (.page p.1) p.2 }
  | .send it nx =>
    match s.rx with
    | .dropped =>
      -- 669-672 / 235-238: `send` failed, the loop returns (ghost: the pages never asked for)
      { s with pc := .done, lost := match nx with | some _ => servedRows s.todo | none => s.lost }
    | _ =>
      match s.chan with
      | some _ => s                               -- no capacity: still waiting
      | none => { s with chan := some it, pc := pcAfter nx }   -- 674-682 / 239-245
  | .done => s

/-- One poll of the row stream (`TypedRowStream::poll_next` → `QueryPager::next`). A poll that returns
`Pending` leaves the state unchanged, except that an empty page is consumed. -/
def stepPoll (s : St) : St :=
  match s.rx with
  | .alive =>
    match s.cur with
    | r :: rest => { s with delivered := s.delivered ++ [r], cur := rest }     -- 754-756, 726-732
    | [] =>
      match s.chan with
      | some (.page []) => { s with chan := none, taken := s.taken + 1 }       -- 758-762: Pending
      | some (.page (r :: rest)) =>
        { s with chan := none, taken := s.taken + 1, delivered := s.delivered ++ [r], cur := rest }
      | some (.err e) => { s with chan := none, errs := s.errs ++ [e] }        -- ready_some_ok!: Err
      | none =>
        match s.pc with
        | .done => { s with ended := true }                                    -- sender dropped: None
        | _ => s                                                               -- Pending
  | _ => s

/-- Dropping the pager: the receiver is closed and what it buffered is discarded. -/
def stepDrop (s : St) : St :=
  match s.rx with
  | .alive => { s with rx := .dropped, chan := none, cur := [] }
  | _ => s

inductive Op where
  | prod | poll | drop
  deriving DecidableEq, Repr

def step (s : St) : Op → St
  | .prod => stepProd s
  | .poll => stepPoll s
  | .drop => stepDrop s

def run (s : St) (ops : List Op) : St := ops.foldl step s

/-- Termination measure: every step that changes the state decreases it. -/
def pcRank : PC → Nat
  | .first => 4
  | .fetch _ => 4
  | .send _ (some _) => 6
  | .send _ none => 2
  | .done => 0

def itemRows : Item → Nat
  | .page r => r.length
  | .err _ => 0

def pcItemRows : PC → Nat
  | .send it _ => itemRows it
  | _ => 0

def todoRows : List Page → Nat
  | [] => 0
  | p :: t => p.1.length + todoRows t

def measure (s : St) : Nat :=
  s.faults.length + 5 * s.todo.length + todoRows s.todo + pcRank s.pc + pcItemRows s.pc
    + (match s.chan with | some it => 1 + itemRows it | none => 0) + s.cur.length
    + (match s.rx with | .dropped => 0 | _ => 2) + (if s.ended then 0 else 1)

/-! ### Executable schedules used by the line-protocol driver -/

/-- Producer runs until it cannot move. -/
def prodToQuiescence : Nat → St → St
  | 0, s => s
  | n + 1, s =>
    let s' := stepProd s
    if s'.log.length == s.log.length && s'.pc == s.pc then s' else prodToQuiescence n s'

/-- Round robin producer / consumer until the stream has ended or failed; `fuel ≥ measure` suffices. -/
def runEager : Nat → St → St
  | 0, s => s
  | n + 1, s =>
    if s.ended || s.ctorErr.isSome then s else runEager n (stepPoll (stepProd s))

/-- Consumer that takes `k` rows and then drops the pager. `eagerProd = true`: the producer runs as far
as it can before every poll and before the drop; `false`: it only moves when the consumer cannot. After
the drop the producer runs until it stops. -/
def runDrop (eagerProd : Bool) (k : Nat) : Nat → St → St
  | 0, s => s
  | n + 1, s =>
    if s.ctorErr.isSome || s.ended then s
    else if !s.errs.isEmpty then runDrop eagerProd k n (stepPoll s)   -- the harness polls once more
    else if s.rx != .alive then runDrop eagerProd k n (stepProd s)
    else
      let s1 := if eagerProd then prodToQuiescence (measure s + 1) s else s
      if s1.delivered.length ≥ k then prodToQuiescence (measure s1 + 1) (stepDrop s1)
      else
        let s2 := stepPoll s1
        let s3 := if s2.delivered.length == s1.delivered.length && s2.taken == s1.taken
                     && s2.errs.length == s1.errs.length && !s2.ended
                  then stepProd s2 else s2
        runDrop eagerProd k n s3

/-! ### The single-connection pager's attempts (`Connection::execute_iter`)

`SingleConnectionPagingExecutor::fetch_one_page` (550-601) runs the execution core with a
`FallthroughRetryPolicy` over a one-connection plan: every failed attempt is final. The one thing that
re-sends a page request is inside the attempt: `execute_raw_with_consistency` (connection.rs 1046-1145)
answers `UNPREPARED` by re-preparing and sending the EXECUTE once more with the same parameters (a
second `UNPREPARED` is returned as the error). Server faults per page, as scripted by the harness:
`u` UNPREPARED, `o` Overloaded (0x1001), `r` ReadTimeout (0x1200), `s` ServerError (0x0000),
`c` connection closed instead of a response, `T` response later than the request timeout,
`v` a RESULT/Void instead of rows (page_from_outcome 628-633), `d` a short delay (harmless),
`X` (first page only) the caller drops the constructor future while the first response is outstanding:
no pager exists and no task was spawned (1124-1149 happen on the caller's task), which for the page loop
is the same as a final failure of the first attempt - the request was sent, nothing follows. -/
def connAttempts (afterUnprepared : Bool) : List Char → List Attempt
  | [] => [.ok]
  | 'u' :: rest =>
    if afterUnprepared then [.fail "DbError:9472"] else .retry :: connAttempts true rest
  | 'o' :: _ => [.fail "DbError:4097"]
  | 'r' :: _ => [.fail "DbError:4608"]
  | 'R' :: _ => [.fail "DbError:4608"]
  | 'W' :: _ => [.fail "DbError:4352"]
  | 's' :: _ => [.fail "DbError:0"]
  | 'c' :: _ => [.fail "Broken"]
  | 'T' :: _ => [.fail "Timeout"]
  | 'v' :: _ => [.fail "UnexpectedResponse"]
  | 'X' :: _ => [.fail "Cancelled"]
  | _ :: rest => connAttempts afterUnprepared rest

/-! ### The session pager's attempts (`Session::execute_iter`) on a ONE-node cluster, default profile

`PagingExecutor::fetch_one_page` (303-370) runs the execution core with the statement's retry policy
(here `DefaultRetryPolicy`, default.rs 57-170) over the plan "previous coordinator, then the load
balancing plan without it" - one target on a one-node cluster, so `RetryNextTarget` (overloaded, server
error, broken connection, unavailable) exhausts the plan and the last error is final. The one decision
that re-sends the page request is `RetrySameTarget` for a ReadTimeout with enough replies and no data
(`R`), at most once per page (a new retry session per page). UNPREPARED is handled inside an attempt as
for the single-connection pager. A non-Rows RESULT (`v`) is an error on pages 2+ (process_next_page
490-494) but on the FIRST page it yields an empty stream without error (process_first_page 436-454) -
the same transition as an ignored error, so it is represented by `Attempt.ignore`. `k` / `K`: the
first response is RESULT/SetKeyspace; `new_from_first_page` (1176-1194) makes the session `USE` the
keyspace on its connections and then returns the empty stream (`k`), or returns the `USE` failure as the
constructor's error (`K`). `X`: the constructor future is dropped (see `connAttempts`). -/
def sessAttempts (firstPage afterUnprepared readRetried : Bool) : List Char → List Attempt
  | [] => [.ok]
  | 'u' :: rest =>
    if afterUnprepared then [.fail "DbError:9472"] else .retry :: sessAttempts firstPage true readRetried rest
  | 'R' :: rest =>
    if readRetried then [.fail "DbError:4608"] else .retry :: sessAttempts firstPage false true rest
  | 'o' :: _ => [.fail "DbError:4097"]
  | 'r' :: _ => [.fail "DbError:4608"]
  | 'W' :: _ => [.fail "DbError:4352"]
  | 's' :: _ => [.fail "DbError:0"]
  | 'c' :: _ => [.fail "Broken"]
  | 'T' :: _ => [.fail "Timeout"]
  | 'v' :: _ => if firstPage then [.ignore] else [.fail "UnexpectedResponse"]
  | 'k' :: _ => if firstPage then [.ignore] else [.fail "UnexpectedResponse"]
  | 'K' :: _ => if firstPage then [.fail "UseKeyspace"] else [.fail "UnexpectedResponse"]
  | 'X' :: _ => [.fail "Cancelled"]
  | _ :: rest => sessAttempts firstPage afterUnprepared readRetried rest

/-! ### The session pager with `DowngradingConsistencyRetryPolicy` on an idempotent statement

Only the faults the harness scripts for this family: `W` = WriteTimeout of write type SIMPLE with
`received > 0`, which the policy answers with `IgnoreWriteError` (downgrading_consistency.rs 151-163)
- the decision that makes `query_remaining_pages` return silently (pager.rs 220-226) and
`query_first_page` hand out an empty page with `NoMorePages` (278-290); `o` Overloaded (RetryNextTarget,
plan exhausted: final); `Q` / `V`: a ReadTimeout with too few replies / an Unavailable with one replica
alive, answered with `RetrySameTarget(Some(ONE))` (77-100, 122-146): the request is re-sent at a LOWER
consistency and - as every attempt - with the page loop's current paging state; the policy retries once per
page (`was_retry`), after which every error, a WriteTimeout included, is final; `u` as before; `d` harmless. -/
def dgAttempts (afterUnprepared wasRetry : Bool) : List Char → List Attempt
  | [] => [.ok]
  | 'u' :: rest =>
    if afterUnprepared then [.fail "DbError:9472"] else .retry :: dgAttempts true wasRetry rest
  -- WriteTimeout(SIMPLE, received 1): IgnoreWriteError, unless this retry session has retried already
  | 'W' :: _ => if wasRetry then [.fail "DbError:4352"] else [.ignore]
  -- ReadTimeout with fewer replies than required (received 1 of 2): RetrySameTarget(Some(ONE)), once
  | 'Q' :: rest => if wasRetry then [.fail "DbError:4608"] else .retry :: dgAttempts false true rest
  -- Unavailable with one replica alive: RetrySameTarget(Some(ONE)), once
  | 'V' :: rest => if wasRetry then [.fail "DbError:4096"] else .retry :: dgAttempts false true rest
  | 'o' :: _ => [.fail "DbError:4097"]
  | _ :: rest => dgAttempts afterUnprepared wasRetry rest

def dgSupported (cs : List Char) : Bool :=
  cs.all fun c => c == 'u' || c == 'W' || c == 'o' || c == 'd' || c == 'Q' || c == 'V'

/-! ### Result-metadata changes between pages (SCYLLA_USE_METADATA_ID)

A page may carry METADATA_CHANGED, a new result-metadata id and new column specs
(`RawMetadataAndRawRows::deserialize`, scylla-cql result.rs 808-851: flags, column count, THEN the paging
state, then the new id and the columns; connection.rs 938-972 stores the new metadata on the prepared
statement). For the pager it is an annotation of the page: it changes the columns the rows of this and
the later pages are decoded with, and nothing else - the page loop, the channel and the paging-state
chain never look at it. The script with annotations is `List PageM`; the transition system runs on the
erased script. -/
abbrev PageM := Page × Bool

def erase (ps : List PageM) : List Page := ps.map Prod.fst

def initM (ps : List PageM) (faults : List Attempt) : St := init (erase ps) faults

/-- The metadata version each row of a complete iteration is decoded with, row by row (the version in
force for a page = number of changes announced with the pages up to and including it). -/
def rowVersions : Nat → List PageM → List Nat
  | _, [] => []
  | v, ((r, none), c) :: _ => List.replicate r.length (v + c.toNat)
  | v, ((r, some _), c) :: t => List.replicate r.length (v + c.toNat) ++ rowVersions (v + c.toNat) t

end ScyllaVerif.Pager

import ScyllaVerif.Model.TypedCarrier
/-
Typed Rust carriers, deserialization side (C01): a transcription of the typed `DeserializeValue` impls of
`scylla-cql-core/src/deserialize/value.rs` next to `TypedCarrier.serCarrier`.

* `tcheck c t`      ← `type_check`: `impl_strict_type!` / `exact_type_check!` lists (296-800), `Option` (253-259),
  `MaybeEmpty` (271-279), `Vec<T>` — list | set | vector (1065-1084), `BTreeSet` / `HashSet` — set only
  (1107-1157), maps (1554-1593), tuples — exact arity (`ensure_tuple_type`, 1632-1652, 1994-2010), `CqlValue` (67-70).
  `MaybeUnset` has no `DeserializeValue` impl.
* `deserCarrier c t cell` ← `deserialize` on `Option<FrameSlice>`:
  scalars: `ensure_not_null_slice` then the strict native decoder (`Codec.decNative`; *no* "zero bytes ⇒ Empty"
  rule: that one belongs to `CqlValue`), `Option` (261-268), `MaybeEmpty` (281-293), `ListlikeIterator`
  (991-1049: a null collection cell is the *empty* collection), `VectorIterator` (1236-1337), `MapIterator`
  (1452-1535), the tuple macro (1653-1687: "no bytes left ⇒ null field"), `CqlValue` (73-247 = `Codec.decVal`).
  The loops are generic in the element decoder, which receives the raw `Option<bytes>` item (so that
  `Vec<Option<T>>` reads nulls back).
Core Lean only.
-/
namespace ScyllaVerif.TypedDecode
open ScyllaVerif.Vint ScyllaVerif.Cql ScyllaVerif.Codec ScyllaVerif.TypedCarrier

/-- The scalar carriers: accepted natives of `type_check`. -/
def primNatives : Carrier → Option (List NativeTy)
  | .i8 => some [.tinyint] | .i16 => some [.smallint] | .i32 => some [.int] | .i64 => some [.bigint]
  | .f32 => some [.float] | .f64 => some [.double] | .bool => some [.boolean]
  | .string => some [.ascii, .text] | .blob => some [.blob] | .inet => some [.inet]
  | .uuid => some [.uuid] | .timeuuid => some [.timeuuid] | .date => some [.date] | .time => some [.time]
  | .timestamp => some [.timestamp] | .duration => some [.duration] | .varint => some [.varint]
  | .decimal => some [.decimal] | .counter => some [.counter]
  | _ => none

/-- The Rust value of a scalar carrier that a strictly decoded native denotes. -/
def primOfVal : CqlVal → Option RustVal
  | .tinyint x => some (.i8 x) | .smallint x => some (.i16 x) | .int x => some (.i32 x)
  | .bigint x => some (.i64 x) | .float x => some (.f32 x) | .double x => some (.f64 x)
  | .boolean b => some (.bool b) | .text s => some (.string s) | .ascii s => some (.string s)
  | .blob b => some (.blob b) | .inet4 a => some (.inet4 a) | .inet6 a => some (.inet6 a)
  | .uuid x => some (.uuid x) | .timeuuid x => some (.timeuuid x) | .date x => some (.date x)
  | .time x => some (.time x) | .timestamp x => some (.timestamp x)
  | .duration m d n => some (.duration m d n) | .varint b => some (.varint b)
  | .decimal s b => some (.decimal s b) | .counter x => some (.counter x)
  | _ => none

mutual
/-- `DeserializeValue::type_check`. -/
def tcheck : Carrier → CqlTy → Bool
  | .opt c, t => tcheck c t
  | .maybeEmpty c, t => tcheck c t
  | .maybeUnset _, _ => false
  | .vec c, t => match t with
    | .list e => tcheck c e
    | .set e => tcheck c e
    | .vector e _ => tcheck c e
    | _ => false
  | .set c, t => match t with
    | .set e => tcheck c e
    | _ => false
  | .map k v, t => match t with
    | .map kt vt => tcheck k kt && tcheck v vt
    | _ => false
  | .tuple cs, t => match t with
    | .tuple ts => tcheckTuple cs ts
    | _ => false
  | .dyn, _ => true
  | c, t => match primNatives c, t with
    | some acc, .native n => acc.contains n
    | _, _ => false
def tcheckTuple : List Carrier → List CqlTy → Bool
  | [], [] => true
  | c :: cs, t :: ts => tcheck c t && tcheckTuple cs ts
  | _, _ => false
end

/-- `n` items (`[bytes]`, possibly null), each handed to the element decoder. -/
def seqG {α : Type} (f : Option Bytes → Except DeErr α) : Nat → Bytes → Except DeErr (List α)
  | 0, _ => .ok []
  | n + 1, bs =>
    match readCqlBytes bs with
    | .error e => .error e
    | .ok (c, rest) =>
      match f c with
      | .error e => .error e
      | .ok v =>
        match seqG f n rest with
        | .error e => .error e
        | .ok vs => .ok (v :: vs)

/-- `MapIterator`: both raw items first, then key, then value. -/
def mapG {α β : Type} (fk : Option Bytes → Except DeErr α) (fv : Option Bytes → Except DeErr β) :
    Nat → Bytes → Except DeErr (List (α × β))
  | 0, _ => .ok []
  | n + 1, bs =>
    match readCqlBytes bs with
    | .error e => .error e
    | .ok (rk, rest1) =>
      match readCqlBytes rest1 with
      | .error e => .error e
      | .ok (rv, rest2) =>
        match fk rk with
        | .error e => .error e
        | .ok k =>
          match fv rv with
          | .error e => .error e
          | .ok v =>
            match mapG fk fv n rest2 with
            | .error e => .error e
            | .ok r => .ok ((k, v) :: r)

/-- `VectorIterator`, fixed-width elements. -/
def vecFixedG {α : Type} (f : Option Bytes → Except DeErr α) (size : Nat) : Nat → Bytes → Except DeErr (List α)
  | 0, _ => .ok []
  | n + 1, bs =>
    match readN size bs with
    | .error e => .error e
    | .ok (c, rest) =>
      match f c with
      | .error e => .error e
      | .ok v =>
        match vecFixedG f size n rest with
        | .error e => .error e
        | .ok vs => .ok (v :: vs)

/-- `VectorIterator`, variable-width elements. -/
def vecVarG {α : Type} (f : Option Bytes → Except DeErr α) : Nat → Bytes → Except DeErr (List α)
  | 0, _ => .ok []
  | n + 1, bs =>
    match uvintDec bs with
    | .error _ => .error .rawCqlBytesReadError
    | .ok (size, r0) =>
      match readN size.toNat r0 with
      | .error e => .error e
      | .ok (c, rest) =>
        match f c with
        | .error e => .error e
        | .ok v =>
          match vecVarG f n rest with
          | .error e => .error e
          | .ok vs => .ok (v :: vs)

/-! ### collecting into `BTreeSet` / `HashSet` / `BTreeMap` / `HashMap`

The set and map carriers `collect()` what the iterators yield: duplicates collapse (for a map the *last* value
of a key wins) and a B-tree iterates in key order.  A set / map value is represented by its sorted, duplicate
free list (for the hash-based carriers, whose iteration order is arbitrary, that is the canonical form both
sides of the differential run print).  `rvCmp` is the `Ord` of the key carriers (`keyModelled`); for the
hash-only key types `CqlVarint` / `CqlDecimal` (normalised equality) nothing is modelled and `rtOk` is false. -/

def bytesCmp : List UInt8 → List UInt8 → Ordering
  | [], [] => .eq
  | [], _ :: _ => .lt
  | _ :: _, [] => .gt
  | a :: as, b :: bs => if a < b then .lt else if b < a then .gt else bytesCmp as bs

def intCmp (a b : Int) : Ordering := if a < b then .lt else if b < a then .gt else .eq

/-- `CqlTimeuuid`'s custom `Ord` (`value.rs:216-309`): first the 60-bit timestamp (`time_hi` without the
version nibble, `time_mid`, `time_low`), then the low 8 bytes compared as *signed bytes* (each byte XOR 0x80,
unsigned).  Two timeuuids that differ only in the version nibble are equal. -/
def timeuuidKey (x : BitVec 128) : Nat × Nat :=
  let b := beBytes 16 x.toNat
  let g (i : Nat) : UInt8 := b.getD i 0
  (beNat [g 6 &&& 0x0f, g 7, g 4, g 5, g 0, g 1, g 2, g 3], beNat ((b.drop 8).map (fun y => y ^^^ 0x80)))

mutual
/-- The `Ord` of the key carriers (signed integers, `bool`, `String` / `Vec<u8>` bytewise, `Uuid` bytewise,
`Counter`, `CqlTimestamp`, `IpAddr`: V4 before V6 then the octets, `CqlTimeuuid`: `timeuuidKey`, `Option`: `None`
first, `Vec` and tuples lexicographic).  Pairs of other shapes (no such key type: `CqlDate`, `CqlTime`,
`CqlDuration`, floats derive no `Ord` / `Hash`) answer `lt`; `keyModelled` says which carriers are covered. -/
def rvCmp : RustVal → RustVal → Ordering
  | .i8 a, .i8 b => intCmp a.toInt b.toInt
  | .i16 a, .i16 b => intCmp a.toInt b.toInt
  | .i32 a, .i32 b => intCmp a.toInt b.toInt
  | .i64 a, .i64 b => intCmp a.toInt b.toInt
  | .counter a, .counter b => intCmp a.toInt b.toInt
  | .timestamp a, .timestamp b => intCmp a.toInt b.toInt
  | .uuid a, .uuid b => intCmp a.toNat b.toNat
  | .bool a, .bool b => intCmp (if a then 1 else 0) (if b then 1 else 0)
  | .string a, .string b => bytesCmp a b
  | .blob a, .blob b => bytesCmp a b
  | .inet4 a, .inet4 b => intCmp a.toNat b.toNat
  | .inet6 a, .inet6 b => intCmp a.toNat b.toNat
  | .inet4 _, .inet6 _ => .lt
  | .inet6 _, .inet4 _ => .gt
  | .timeuuid a, .timeuuid b =>
    match intCmp (timeuuidKey a).1 (timeuuidKey b).1 with
    | .eq => intCmp (timeuuidKey a).2 (timeuuidKey b).2
    | o => o
  | .none, .none => .eq
  | .none, .some _ => .lt
  | .some _, .none => .gt
  | .some a, .some b => rvCmp a b
  | .seq as, .seq bs => rvCmpList as bs
  | .tuple as, .tuple bs => rvCmpList as bs
  | _, _ => .lt
def rvCmpList : List RustVal → List RustVal → Ordering
  | [], [] => .eq
  | [], _ :: _ => .lt
  | _ :: _, [] => .gt
  | a :: as, b :: bs =>
    match rvCmp a b with
    | .eq => rvCmpList as bs
    | o => o
end

mutual
/-- Key carriers whose `Ord` / `Eq` is modelled by `rvCmp`. -/
def keyModelled : Carrier → Bool
  | .i8 | .i16 | .i32 | .i64 | .bool | .string | .blob | .uuid | .timeuuid | .inet | .counter | .timestamp => true
  | .opt c => keyModelled c
  | .vec c => keyModelled c
  | .tuple cs => keysModelled cs
  | _ => false
def keysModelled : List Carrier → Bool
  | [] => true
  | c :: cs => keyModelled c && keysModelled cs
end

/-- Which family of Rust collections the set / map carriers of a decode are: `BTreeSet::from_iter` /
`BTreeMap::from_iter` are a stable sort followed by `DedupSortedIter` — of `Ord`-equal keys the LAST one is kept
(key and value); `HashSet` / `HashMap` `extend` by `insert` — the FIRST key is kept, a map entry gets the last
value.  (It only shows for keys that are equal without being identical: `CqlTimeuuid`s differing in the version
nibble.)  The `Carrier` type does not distinguish the two families, the decoder takes the flavour as a parameter
(a carrier mixing both families is not expressible). -/
inductive Flavour where
  | btree | hash
  deriving Repr, DecidableEq

/-- Insert into the sorted, duplicate-free representation. -/
def insertSet (fl : Flavour) (x : RustVal) : List RustVal → List RustVal
  | [] => [x]
  | y :: ys =>
    match rvCmp y x with
    | .lt => y :: insertSet fl x ys
    | .eq => (match fl with | .btree => x | .hash => y) :: ys
    | .gt => x :: y :: ys

/-- `iter.collect::<BTreeSet<_>>()` / `::<HashSet<_>>()` (the latter printed sorted). -/
def collectSet (fl : Flavour) (xs : List RustVal) : List RustVal := xs.foldl (fun acc x => insertSet fl x acc) []

def insertMap (fl : Flavour) (kv : RustVal × RustVal) : List (RustVal × RustVal) → List (RustVal × RustVal)
  | [] => [kv]
  | e :: es =>
    match rvCmp e.1 kv.1 with
    | .lt => e :: insertMap fl kv es
    | .eq => (match fl with | .btree => kv | .hash => (e.1, kv.2)) :: es
    | .gt => kv :: e :: es

/-- `iter.collect::<BTreeMap<_, _>>()` / `::<HashMap<_, _>>()`. -/
def collectMap (fl : Flavour) (kvs : List (RustVal × RustVal)) : List (RustVal × RustVal) :=
  kvs.foldl (fun acc kv => insertMap fl kv acc) []

/-- Every earlier element is strictly below every later one (the list a B-tree set iterates as). -/
def pairwiseLt : List RustVal → Bool
  | [] => true
  | x :: xs => xs.all (fun y => rvCmp x y == .lt) && pairwiseLt xs

/-- Strict scalar decoder: `ensure_not_null_slice`, then the native's format (no *empty* special case). -/
def deserPrim (u : Bytes → Bool) (t : CqlTy) (cell : Option Bytes) : Except DeErr RustVal :=
  match cell with
  | none => .error .expectedNonNull
  | some bs =>
    match t with
    | .native n =>
      match decNative u n bs with
      | .error e => .error e
      | .ok v =>
        match primOfVal v with
        | some x => .ok x
        | none => .error .expectedNonNull
    | _ => .error .expectedNonNull

mutual
/-- `DeserializeValue::deserialize` of carrier `c` (assumes `tcheck c t`, as the Rust code does). -/
def deserCarrier (u : Bytes → Bool) (fl : Flavour) : Carrier → CqlTy → Option Bytes → Except DeErr RustVal
  | .opt c, t, cell => match cell with
    | none => .ok .none
    | some b =>
      match deserCarrier u fl c t (some b) with
      | .error e => .error e
      | .ok x => .ok (.some x)
  | .maybeEmpty c, t, cell => match cell with
    | none => .error .expectedNonNull
    | some b =>
      if b.isEmpty then .ok .empty
      else
        match deserCarrier u fl c t (some b) with
        | .error e => .error e
        | .ok x => .ok (.value x)
  | .maybeUnset _, _, _ => .error .expectedNonNull
  | .vec c, t, cell => match t with
    | .list elt | .set elt =>
      match cell with
      | none => .ok (.seq [])
      | some bs =>
        match readCount bs with
        | .error e => .error e
        | .ok (n, rest) =>
          match seqG (fun o => deserCarrier u fl c elt o) n rest with
          | .error e => .error e
          | .ok xs => .ok (.seq xs)
    | .vector elt dim =>
      match cell with
      | none => .error .expectedNonNull
      | some bs =>
        match elt.sizeForVector with
        | some size =>
          match vecFixedG (fun o => deserCarrier u fl c elt o) size dim bs with
          | .error e => .error e
          | .ok xs => .ok (.seq xs)
        | none =>
          match vecVarG (fun o => deserCarrier u fl c elt o) dim bs with
          | .error e => .error e
          | .ok xs => .ok (.seq xs)
    | _ => .error .expectedNonNull
  | .set c, t, cell => match t with
    | .set elt =>
      match cell with
      | none => .ok (.seq [])
      | some bs =>
        match readCount bs with
        | .error e => .error e
        | .ok (n, rest) =>
          match seqG (fun o => deserCarrier u fl c elt o) n rest with
          | .error e => .error e
          | .ok xs => .ok (.seq (collectSet fl xs))
    | _ => .error .expectedNonNull
  | .map k v, t, cell => match t with
    | .map kt vt =>
      match cell with
      | none => .ok (.pairs [])
      | some bs =>
        match readCount bs with
        | .error e => .error e
        | .ok (n, rest) =>
          match mapG (fun o => deserCarrier u fl k kt o) (fun o => deserCarrier u fl v vt o) n rest with
          | .error e => .error e
          | .ok kvs => .ok (.pairs (collectMap fl kvs))
    | _ => .error .expectedNonNull
  | .tuple cs, t, cell => match t with
    | .tuple ts =>
      match cell with
      | none => .error .expectedNonNull
      | some bs =>
        match deserTuple u fl cs ts bs with
        | .error e => .error e
        | .ok xs => .ok (.tuple xs)
    | _ => .error .expectedNonNull
  | .dyn, t, cell => match cell with
    | none => .error .expectedNonNull
    | some b =>
      match decVal u t b with
      | .error e => .error e
      | .ok v => .ok (.dyn v)
  | _, t, cell => deserPrim u t cell
/-- The tuple macro: per field "no bytes left ⇒ null", else `read_cql_bytes`. -/
def deserTuple (u : Bytes → Bool) (fl : Flavour) : List Carrier → List CqlTy → Bytes → Except DeErr (List RustVal)
  | c :: cs, t :: ts, bs =>
    if bs.isEmpty then
      match deserCarrier u fl c t none with
      | .error e => .error e
      | .ok x =>
        match deserTuple u fl cs ts bs with
        | .error e => .error e
        | .ok r => .ok (x :: r)
    else
      match readCqlBytes bs with
      | .error e => .error e
      | .ok (o, rest) =>
        match deserCarrier u fl c t o with
        | .error e => .error e
        | .ok x =>
          match deserTuple u fl cs ts rest with
          | .error e => .error e
          | .ok r => .ok (x :: r)
  | _, _, _ => .ok []
end

/-- `UdtIterator` used directly: per type field the raw item — missing (no bytes left), null, or its bytes. -/
inductive RawField where
  | missing | null | bytes (b : Bytes)
  deriving Repr

def udtIterG : Nat → Bytes → Except DeErr (List RawField)
  | 0, _ => .ok []
  | n + 1, bs =>
    if bs.isEmpty then
      match udtIterG n bs with
      | .error e => .error e
      | .ok r => .ok (.missing :: r)
    else
      match readCqlBytes bs with
      | .error e => .error e
      | .ok (o, rest) =>
        match udtIterG n rest with
        | .error e => .error e
        | .ok r => .ok ((match o with | none => RawField.null | some b => .bytes b) :: r)

/-- A typed read of a serialized cell: `type_check`, split the `[bytes]`, `deserialize`. -/
def typedRead (u : Bytes → Bool) (fl : Flavour) (c : Carrier) (t : CqlTy) (cell : Bytes) : Option (Except DeErr RustVal) :=
  if tcheck c t then
    match readCqlBytes cell with
    | .error e => some (.error e)
    | .ok (o, _) => some (deserCarrier u fl c t o)
  else none

/-! ### domain of the typed round trip -/

/-- A string-like native decodes under the constructor of the column type (`String` serves ascii and text). -/
def retag : NativeTy → CqlVal → CqlVal
  | .ascii, .text s => .ascii s
  | .text, .ascii s => .text s
  | _, v => v

mutual
/-- Rust values that the typed deserializer of `c` gives back from their own encoding at `t` (`typed_roundtrip`).
Scalars: the strict-native conditions of `Codec.wfNative` (UTF-8 / ASCII, `time` within a day, non-empty varint).
Set and map carriers: the key type's order is modelled (`keyModelled`) and the content is canonical
(`pairwiseLt`: strictly ascending keys — what a `BTreeSet` / `BTreeMap` iterates as; a list such as `[5, 1, 5]`
is not a set value).
`Option<Option<T>>`-style double nulls, `MaybeEmpty` around a non-scalar or around a zero-byte content, null /
*empty* elements of vectors (C01-F2 / C01-F9) are outside; the dynamic `CqlValue` is covered by `roundtrip_partial`. -/
def rtOk (u : Bytes → Bool) : Carrier → CqlTy → RustVal → Bool
  | .opt c, t, x => match x with
    | .none => true
    | .some y => rtOk u c t y && !isNullVal (embed c y)
    | _ => false
  | .maybeEmpty c, t, x => match x with
    | .empty => true
    | .value y => (embedPrim c y).isSome && rtOk u c t y && !zeroLenBody (embed c y)
    | _ => false
  | .maybeUnset _, _, _ => false
  | .vec c, t, x => match x with
    | .seq xs =>
      match t with
      | .list e => xs.all (fun y => rtOk u c e y)
      | .set e => xs.all (fun y => rtOk u c e y)
      | .vector e dim =>
        xs.length == dim && xs.all (fun y => rtOk u c e y && !isNullVal (embed c y)) &&
          (match e.sizeForVector with
           | some _ => xs.all (fun y => wfVal u e (embed c y) && !isEmptyVal (embed c y))
           | none => true)
      | _ => false
    | _ => false
  | .set c, t, x => match x with
    | .seq xs => match t with
      | .set e => keyModelled c && xs.all (fun y => rtOk u c e y) && pairwiseLt xs
      | _ => false
    | _ => false
  | .map k v, t, x => match x with
    | .pairs kvs => match t with
      | .map kt vt =>
        keyModelled k && kvs.all (fun kv => rtOk u k kt kv.1 && rtOk u v vt kv.2) && pairwiseLt (kvs.map (·.1))
      | _ => false
    | _ => false
  | .tuple cs, t, x => match x with
    | .tuple xs => match t with
      | .tuple ts => rtOkTuple u cs ts xs
      | _ => false
    | _ => false
  | .dyn, _, _ => false
  | c, t, x => match embedPrim c x, t with
    | some v, .native n => wfNative u n (retag n v)
    | _, _ => false
def rtOkTuple (u : Bytes → Bool) : List Carrier → List CqlTy → List RustVal → Bool
  | c :: cs, t :: ts, x :: xs => rtOk u c t x && rtOkTuple u cs ts xs
  | [], [], [] => true
  | _, _, _ => false
end

end ScyllaVerif.TypedDecode

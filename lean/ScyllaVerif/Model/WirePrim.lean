/-
Wire primitives of the request side (model of `scylla-cql/src/frame/types.rs` writers).

* `be16/be32/be64`       ← `BufMut::put_u16/put_u32/put_u64` (big-endian; the argument is taken modulo 2^16/2^32/2^64,
                            which is what an `as u16`/`as u32` cast does).
* `i32be / i64be`        ← `put_i32 / put_i64` (`types.rs:41-43, 70-72`).
* `writeShortLength`     ← `write_short_length` (`types.rs:88-95`): `usize → u16` by `try_into`, error when it does not fit.
* `writeIntLength`       ← `write_int_length` (`types.rs:45-53`): `usize → i32` by `try_into`.
* `writeString`, `writeLongString`, `writeBytes`, `writeBytesOpt`, `writeShortBytes`, `writeStringList`,
  `writeStringMap`       ← the functions of the same names (`types.rs:114-139, 181-211, 236-247, 289-299`).

Strings are their UTF-8 bytes.  A failed length conversion (`TryFromIntError`) is `none`.  Import-free.
-/
namespace ScyllaVerif.Wire

abbrev Bytes := List UInt8

def be16 (n : Nat) : Bytes := [UInt8.ofNat (n / 2 ^ 8), UInt8.ofNat n]

def be32 (n : Nat) : Bytes :=
  [UInt8.ofNat (n / 2 ^ 24), UInt8.ofNat (n / 2 ^ 16), UInt8.ofNat (n / 2 ^ 8), UInt8.ofNat n]

def be64 (n : Nat) : Bytes :=
  [UInt8.ofNat (n / 2 ^ 56), UInt8.ofNat (n / 2 ^ 48), UInt8.ofNat (n / 2 ^ 40), UInt8.ofNat (n / 2 ^ 32),
   UInt8.ofNat (n / 2 ^ 24), UInt8.ofNat (n / 2 ^ 16), UInt8.ofNat (n / 2 ^ 8), UInt8.ofNat n]

/-- `write_int` (`put_i32`). -/
def i32be (v : Int32) : Bytes := be32 v.toUInt32.toNat

/-- `write_long` (`put_i64`). -/
def i64be (v : Int64) : Bytes := be64 v.toUInt64.toNat

/-- `put_i32` of an `Int` known to be in range (used for the `-1`/`-2` `[value]` markers). -/
def intBe32 (v : Int) : Bytes := be32 (v % 2 ^ 32).toNat

/-- `write_short_length`: `u16::try_from(usize)`. -/
def writeShortLength (n : Nat) : Option Bytes := if n < 2 ^ 16 then some (be16 n) else none

/-- `write_int_length`: `i32::try_from(usize)`. -/
def writeIntLength (n : Nat) : Option Bytes := if n < 2 ^ 31 then some (be32 n) else none

/-- `write_string`. -/
def writeString (s : Bytes) : Option Bytes :=
  match writeShortLength s.length with
  | some l => some (l ++ s)
  | none => none

/-- `write_long_string`. -/
def writeLongString (s : Bytes) : Option Bytes :=
  match writeIntLength s.length with
  | some l => some (l ++ s)
  | none => none

/-- `write_bytes`. -/
def writeBytes (b : Bytes) : Option Bytes := writeLongString b

/-- `write_short_bytes`. -/
def writeShortBytes (b : Bytes) : Option Bytes := writeString b

/-- `write_bytes_opt`: `None` is the `[int]` `-1`. -/
def writeBytesOpt : Option Bytes → Option Bytes
  | some b => writeBytes b
  | none => some (intBe32 (-1))

/-- The loop of `write_string_list` after the count. -/
def writeStrings : List Bytes → Option Bytes
  | [] => some []
  | s :: rest =>
    match writeString s with
    | none => none
    | some a =>
      match writeStrings rest with
      | none => none
      | some b => some (a ++ b)

/-- `write_string_list`. -/
def writeStringList (v : List Bytes) : Option Bytes :=
  match writeShortLength v.length with
  | none => none
  | some l =>
    match writeStrings v with
    | none => none
    | some b => some (l ++ b)

/-- The loop of `write_string_map` after the count (the list is the map in its iteration order). -/
def writeStringPairs : List (Bytes × Bytes) → Option Bytes
  | [] => some []
  | (k, v) :: rest =>
    match writeString k with
    | none => none
    | some a =>
      match writeString v with
      | none => none
      | some b =>
        match writeStringPairs rest with
        | none => none
        | some c => some (a ++ b ++ c)

/-- `write_string_map`. -/
def writeStringMap (m : List (Bytes × Bytes)) : Option Bytes :=
  match writeShortLength m.length with
  | none => none
  | some l =>
    match writeStringPairs m with
    | none => none
    | some b => some (l ++ b)

end ScyllaVerif.Wire

/-
Model of the response-frame reader (C10) ← `scylla-cql/src/frame/mod.rs` `read_response_frame` (142-190).

Header (9 bytes): version(1) flags(1) stream(2, big-endian i16) opcode(1) length(4, big-endian u32).
The code first reads the WHOLE header (`read_exact`), only then validates: `version & 0x80` must be set
(else `FrameFromClient`), `version & 0x7f` must be 4 (else `VersionNotSupported`), the opcode must be a
known response opcode (else `TryFromPrimitiveError`); then it reads exactly `length` body bytes (EOF before
that: `ConnectionClosed(missing, length)`).
-/
namespace ScyllaVerif.FrameStream

structure Frame where
  flags : UInt8
  stream : Int          -- i16
  opcode : UInt8
  body : List UInt8
  deriving Repr, DecidableEq

/-- `ResponseOpcode::try_from` (`response/mod.rs` 45-61). -/
def validOpcode (o : UInt8) : Bool :=
  o == 0x00 || o == 0x02 || o == 0x03 || o == 0x06 || o == 0x08 || o == 0x0C || o == 0x0E || o == 0x10

inductive BadHeader where
  | frameFromClient
  | versionNotSupported (v : UInt8)
  | unknownOpcode (o : UInt8)
  deriving Repr, DecidableEq

/-- Result of trying to read one frame from the bytes available so far. -/
inductive ReadRes where
  | frame (f : Frame) (rest : List UInt8)
  | empty                          -- no byte available: a frame boundary
  | cutInHeader (got : Nat)        -- 1..8 header bytes, then nothing more
  | cutInBody (missing : Nat) (length : Nat)  -- whole header, body `missing` bytes short of `length`
  | bad (why : BadHeader)
  deriving Repr, DecidableEq

def i16OfBytes (hi lo : UInt8) : Int :=
  let u := hi.toNat * 256 + lo.toNat
  if u ≥ 32768 then (u : Int) - 65536 else (u : Int)

def u32OfBytes (a b c d : UInt8) : Nat :=
  ((a.toNat * 256 + b.toNat) * 256 + c.toNat) * 256 + d.toNat

def readFrame (bytes : List UInt8) : ReadRes :=
  match bytes with
  | [] => .empty
  | v :: fl :: s1 :: s0 :: op :: l3 :: l2 :: l1 :: l0 :: rest =>
    if v &&& 0x80 != 0x80 then .bad .frameFromClient
    else if v &&& 0x7f != 0x04 then .bad (.versionNotSupported (v &&& 0x7f))
    else if !validOpcode op then .bad (.unknownOpcode op)
    else
      let len := u32OfBytes l3 l2 l1 l0
      if rest.length < len then .cutInBody (len - rest.length) len
      else .frame ⟨fl, i16OfBytes s1 s0, op, rest.take len⟩ (rest.drop len)
  | _ => .cutInHeader bytes.length

/-- How a byte stream ends after its last whole frame. -/
inductive Tail where
  | boundary    -- the bytes end exactly on a frame boundary. NOT a success for the reader: the next `read_exact`
                -- waits for more bytes, and on EOF fails with `HeaderIoError` like any other cut (`Model/ConnIO.lean`)
  | cutInHeader (got : Nat)
  | cutInBody (missing : Nat) (length : Nat)
  | badHeader (why : BadHeader)
  deriving Repr, DecidableEq

theorem readFrame_rest_lt {bytes : List UInt8} {f : Frame} {rest : List UInt8}
    (h : readFrame bytes = .frame f rest) : rest.length < bytes.length := by
  unfold readFrame at h
  split at h
  · cases h
  · split at h
    · cases h
    · split at h
      · cases h
      · split at h
        · cases h
        · simp only at h
          split at h
          · cases h
          · cases h
            simp only [List.length_drop, List.length_cons]
            omega
  · cases h

/-- The reader loop: all whole frames, then how the stream ends. -/
def readFrames (bytes : List UInt8) : List Frame × Tail :=
  match h : readFrame bytes with
  | .frame f rest =>
    have : rest.length < bytes.length := readFrame_rest_lt h
    let (fs, t) := readFrames rest
    (f :: fs, t)
  | .empty => ([], .boundary)
  | .cutInHeader n => ([], .cutInHeader n)
  | .cutInBody m l => ([], .cutInBody m l)
  | .bad w => ([], .badHeader w)
termination_by bytes.length

def bytesOfU32 (n : Nat) : List UInt8 :=
  [UInt8.ofNat (n / 16777216 % 256), UInt8.ofNat (n / 65536 % 256), UInt8.ofNat (n / 256 % 256), UInt8.ofNat (n % 256)]

def bytesOfI16 (i : Int) : List UInt8 :=
  let u := (if i < 0 then i + 65536 else i).toNat
  [UInt8.ofNat (u / 256 % 256), UInt8.ofNat (u % 256)]

/-- A response frame as the server writes it (protocol v4, response direction). -/
def encode (f : Frame) : List UInt8 :=
  [0x84, f.flags] ++ bytesOfI16 f.stream ++ [f.opcode] ++ bytesOfU32 f.body.length ++ f.body

/-- Frames the wire format can carry. -/
def Frame.wf (f : Frame) : Prop :=
  validOpcode f.opcode = true ∧ -32768 ≤ f.stream ∧ f.stream < 32768 ∧ f.body.length < 4294967296

end ScyllaVerif.FrameStream

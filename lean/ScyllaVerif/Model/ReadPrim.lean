/-
C08 — model of the bounds-checked primitive readers of the CQL wire format.

* `scylla-cql-core/src/frame/types.rs:147-253` (`read_short`, `read_int`, `read_int_length`, `read_string`,
  `read_string_list`, `read_raw_bytes`, `read_short_bytes`, `read_bytes_opt`, `read_consistency`, `read_value`)
* `scylla-cql/src/frame/types.rs` (`read_long`, `read_bytes`, `read_long_string`, `read_bytes_map`, `read_string_map`,
  `read_string_multimap`, `read_uuid`, `read_inet`, `read_string_list_iter`)

A reader is a TOTAL function `M α = St → Outcome α × St`.  The state carries the remaining input and two ghost
counters: `alloc` (sum of the element counts passed to `Vec::with_capacity` / `HashMap::with_capacity`, exactly where
the Rust code requests them, after the `fix:` commits) and `depth` (deepest recursion level reached by the type
parsers).  Every function below is defined by structural recursion (no `diverge` outcome: that is the "terminates"
half of the property for the modelled code).  `Outcome` has a `panic` constructor, produced exactly where the Rust
code performs a partial operation whose precondition does not hold; `Props/C08.no_panic` proves it unreachable.

Error kinds are short strings (`eof` = `io::ErrorKind::UnexpectedEof` from `read_u8/u16/i32/i64`, `few` =
`TooFewBytesReceived`, `utf8`, `negint` = `TryFromIntError`, `inetlen`, `consistency`), prefixed by the field tag of
the wrapping error variant by the callers.
-/
namespace ScyllaVerif.C08

abbrev Bytes := List UInt8

/-- What a decoder of the driver can do with a byte string: return a value, return an error, or PANIC (unwind /
abort the client).  `panic` is produced by the model exactly where the Rust code contains a partial operation
(`Buf::advance`, `unwrap`, `Bytes::slice_ref`, usize subtraction) and its precondition does not hold; `Props/C08`
proves that it is never produced. -/
inductive Outcome (α : Type) where
  | ok (a : α)
  | err (k : String)
  | panic (site : String)
  deriving Repr

/-- Class of a non-ASCII Unicode scalar under Rust's `char::is_alphanumeric` / `char::is_whitespace`. -/
inductive UCls where
  | alnum | white | other
  deriving Repr, DecidableEq

structure St where
  buf : Bytes
  alloc : Nat := 0
  depth : Nat := 0
  /-- Parameter of the model (not touched by any reader): the class of the non-ASCII scalars, keyed by their UTF-8
  bytes; consulted only by the custom type string parser. -/
  uni : List (Bytes × UCls) := []
  deriving Repr

def M (α : Type) := St → Outcome α × St

@[inline] def M.pure (a : α) : M α := fun s => (.ok a, s)

@[inline] def M.bind (m : M α) (f : α → M β) : M β := fun s =>
  match m s with
  | (.ok a, s') => f a s'
  | (.err k, s') => (.err k, s')
  | (.panic m, s') => (.panic m, s')

instance : Monad M where
  pure := M.pure
  bind := M.bind

def fail (k : String) : M α := fun s => (.err k, s)

/-- A panic of the Rust code at `site`. -/
def panicAt (site : String) : M α := fun s => (.panic site, s)

/-- `.map_err(Variant)`: prefix the error kind with the tag of the wrapping variant. -/
def tag (t : String) (m : M α) : M α := fun s =>
  match m s with
  | (.ok a, s') => (.ok a, s')
  | (.err k, s') => (.err (t ++ "." ++ k), s')
  | (.panic m, s') => (.panic m, s')

/-- Ghost: `Vec::with_capacity(n)` / `HashMap::with_capacity(n)` (counted in elements). -/
def allocReq (n : Nat) : M Unit := fun s => (.ok (), { s with alloc := s.alloc + n })

/-- Ghost: the recursion reached level `d`. -/
def noteDepth (d : Nat) : M Unit := fun s => (.ok (), { s with depth := max s.depth d })

/-- The class table (parameter). -/
def getUni : M (List (Bytes × UCls)) := fun s => (.ok s.uni, s)

/-- `buf.len()`. -/
def remaining : M Nat := fun s => (.ok s.buf.length, s)

/-- Take exactly `n` bytes or fail with `kind` (the buffer is left as it was; no caller continues after an error). -/
def takeN (n : Nat) (kind : String) : M Bytes := fun s =>
  if s.buf.length < n then (.err kind, s)
  else (.ok (s.buf.take n), { s with buf := s.buf.drop n })

def beNat (bs : Bytes) : Nat := bs.foldl (fun a b => a * 256 + b.toNat) 0

def toSigned (bits : Nat) (n : Nat) : Int := if n < 2 ^ (bits - 1) then (n : Int) else (n : Int) - 2 ^ bits

/-- `buf.read_u8()`. -/
def readU8 : M Nat := do let b ← takeN 1 "eof"; pure (beNat b)
/-- `read_short` (`u16`, big endian). -/
def readShort : M Nat := do let b ← takeN 2 "eof"; pure (beNat b)
/-- `read_int` (`i32`). -/
def readInt : M Int := do let b ← takeN 4 "eof"; pure (toSigned 32 (beNat b))
/-- `read_long` (`i64`). -/
def readLong : M Int := do let b ← takeN 8 "eof"; pure (toSigned 64 (beNat b))

/-- `read_int_length`: a negative `i32` is a `TryFromIntError`. -/
def readIntLength : M Nat := do
  let v ← readInt
  if v < 0 then fail "negint" else pure v.toNat

/-- `buf.split_at(count)`: panics when `count > buf.len()`. -/
def splitAtP (n : Nat) : M Bytes := fun s =>
  if n > s.buf.length then (.panic "split_at", s)
  else (.ok (s.buf.take n), { s with buf := s.buf.drop n })

/-- `read_raw_bytes(count, buf)`: the length guard (`TooFewBytesReceived`), then `split_at` — guard and partial
operation are separate steps, as in the code (`readRaw_eq_takeN`: together they never panic). -/
def readRaw (n : Nat) : M Bytes := do
  let len ← remaining
  if len < n then fail "few" else splitAtP n

/-- `str::from_utf8` (Lean's strict validator: no surrogates, no overlongs, ≤ U+10FFFF; validated differentially). -/
def utf8ok (bs : Bytes) : Bool := (ByteArray.mk bs.toArray).validateUTF8

def checkUtf8 (raw : Bytes) : M Bytes := if utf8ok raw then pure raw else fail "utf8"

/-- `read_string`: `[short n][n bytes]`, UTF-8 checked.  Strings are kept as their bytes. -/
def readString : M Bytes := do
  let n ← readShort
  let raw ← readRaw n
  checkUtf8 raw

/-- `read_long_string`. -/
def readLongString : M Bytes := do
  let n ← readIntLength
  let raw ← readRaw n
  checkUtf8 raw

/-- `read_bytes` (non-null `[bytes]`). -/
def readBytes : M Bytes := do
  let n ← readIntLength
  readRaw n

/-- `read_bytes_opt`: ANY negative length is `None` (the code does not distinguish `-1`). -/
def readBytesOpt : M (Option Bytes) := do
  let n ← readInt
  if n < 0 then pure none
  else do let raw ← readRaw n.toNat; pure (some raw)

/-- `read_short_bytes`. -/
def readShortBytes : M Bytes := do
  let n ← readShort
  readRaw n

/-- `for _ in 0..n { v.push(m?) }`. -/
def loopN : Nat → M α → M (List α)
  | 0, _ => pure []
  | n + 1, m => do
    let a ← m
    let r ← loopN n m
    pure (a :: r)

/-- `read_string_list`: `Vec::with_capacity(len)` with the `u16` count as sent. -/
def readStringList : M (List Bytes) := do
  let n ← readShort
  allocReq n
  loopN n readString

/-- `read_string_multimap` (kept as the association list in wire order; the `HashMap` keeps the LAST value of a key). -/
def readStringMultimap : M (List (Bytes × List Bytes)) := do
  let n ← readShort
  allocReq n
  loopN n (do let k ← readString; let v ← readStringList; pure (k, v))

/-- `read_string_map`. -/
def readStringMap : M (List (Bytes × Bytes)) := do
  let n ← readShort
  allocReq n
  loopN n (do let k ← readString; let v ← readString; pure (k, v))

/-- `read_bytes_map`. -/
def readBytesMap : M (List (Bytes × Bytes)) := do
  let n ← readShort
  allocReq n
  loopN n (do let k ← readString; let v ← readBytes; pure (k, v))

/-- `read_uuid`: `read_raw_bytes(16)` then `raw.try_into().unwrap()` (`&[u8] → &[u8; 16]`, panics unless the
slice has exactly 16 bytes). -/
def readUuid : M Bytes := do
  let raw ← readRaw 16
  if raw.length = 16 then pure raw else panicAt "read_uuid: try_into().unwrap()"

/-- `Buf::advance(n)` on `Bytes`: panics when `n` exceeds what remains. -/
def advance (n : Nat) : M Unit := fun s =>
  if n > s.buf.length then (.panic "Bytes::advance", s) else (.ok (), { s with buf := s.buf.drop n })

/-- `let buf = &mut &*body; let v = m(buf)?` — run a reader on a COPY of the slice reference: the buffer itself is
not consumed; the copy's remaining length is returned with the value. -/
def onCopy (m : M α) : M (α × Nat) := fun s =>
  match m s with
  | (.ok a, s') => (.ok (a, s'.buf.length), { s' with buf := s.buf })
  | (.err k, s') => (.err k, s')
  | (.panic k, s') => (.panic k, s')

/-- The pattern of `parse_response_body_extensions`: `let body_len = body.len(); let buf = &mut &*body;
let v = m(buf)?; let buf_len = buf.len(); body.advance(body_len - buf_len)` (the `usize` subtraction panics on
underflow, `advance` when out of range). -/
def readThenAdvance (m : M α) : M α := do
  let bodyLen ← remaining
  let r ← onCopy m
  if r.2 > bodyLen then panicAt "body_len - buf_len" else do
    advance (bodyLen - r.2)
    pure r.1

/-- Run `m` and report whether what it left is still inside the slice it started from (`true` = the later
`parent.slice_ref(rest)` is legal). -/
def tracked (m : M α) : M (α × Bool) := fun s =>
  match m s with
  | (.ok a, s') => (.ok (a, s'.buf.isSuffixOf s.buf), s')
  | (.err k, s') => (.err k, s')
  | (.panic k, s') => (.panic k, s')

/-- `parent.slice_ref(sub)`: panics unless `sub` lies inside `parent`. -/
def sliceRef (inside : Bool) : M Unit := if inside then pure () else panicAt "Bytes::slice_ref"

structure Addr where
  ip : Bytes
  port : Nat
  deriving Repr, DecidableEq

/-- `read_inet`: `[u8 len ∈ {4,16}][ip][i32 port ∈ 0..65535]`. -/
def readInet : M Addr := do
  let len ← readU8
  if len = 4 ∨ len = 16 then do
    let ip ← readRaw len
    let p ← readInt
    if p < 0 ∨ p > 65535 then fail "negint" else pure ⟨ip, p.toNat⟩
  else fail "inetlen"

def consistencyOk (c : Nat) : Bool := c ≤ 0x000A

/-- `read_consistency`: codes 0..=10 are known. -/
def readConsistency : M Nat := do
  let c ← readShort
  if consistencyOk c then pure c else fail "consistency"

/-- `read_value` (`[value]`: -1 null, -2 unset, other negative lengths are an error). -/
inductive RawValue where
  | null | unset | value (b : Bytes)
  deriving Repr, DecidableEq

def readValue : M RawValue := do
  let n ← readInt
  if n = -2 then pure .unset
  else if n = -1 then pure .null
  else if n ≥ 0 then do let raw ← readRaw n.toNat; pure (.value raw)
  else fail "valuelen"

/-- The rest of the buffer (`frame.to_bytes()` / `buf_bytes.slice_ref(buf)`). -/
def takeRest : M Bytes := fun s => (.ok s.buf, { s with buf := [] })

/-- `cond.then(|| m).transpose()?`: read an optional field. -/
def optRead (c : Bool) (m : M α) : M (Option α) :=
  if c then (m >>= fun a => pure (some a)) else pure none

/-- `if cond { m } else { default }`. -/
def condRead (c : Bool) (m : M α) (d : α) : M α := if c then m else pure d

/-- Run a reader on a byte string from a fresh state. -/
def run (m : M α) (bs : Bytes) : Outcome α × St := m { buf := bs }

end ScyllaVerif.C08

/-
C01: the normalised equality / hash of the varint carriers (`scylla-cql-core/src/value.rs:418-525`, `588-606`).

`CqlVarint` / `CqlVarintBorrowed` hold the raw two's-complement big-endian bytes as given (no normalisation by
the constructors or the decoder); `PartialEq` and `Hash` go through `AsNormalizedVarintSlice::as_normalized_slice`
(`value.rs:439-473`).  `CqlDecimal` / `CqlDecimalBorrowed` derive `PartialEq` over (`CqlVarint`, `i32` scale);
`CqlValue::Varint` / `CqlValue::Decimal` derive it over those.  `HashSet<CqlVarint>` / `HashMap<CqlVarint, _>`
built by `collect()` (`deserialize/value.rs` set / map impls) merge keys that are `==`.

Modelled as the code is: only redundant leading 0x00 bytes are stripped.  Redundant leading 0xff bytes of a
negative number are NOT stripped (`[ff, ff]` and `[ff]`, both -1, are unequal `CqlVarint`s) — see
`Props.C01.varint_eq_ff_padding_counterexample`.  Import-free.
-/
namespace ScyllaVerif.VarintNorm

/-- `digits[digits.iter().position(|b| *b != 0)..]` (all of it dropped when every byte is zero). -/
def dropZeros : List UInt8 → List UInt8
  | [] => []
  | b :: bs => if b.toNat = 0 then dropZeros bs else b :: bs

/-- `as_normalized_slice` (`value.rs:440-472`): empty or all-zero ⇒ `[0]`; `non_zero_position` =
`d.length - (dropZeros d).length`; when it is positive, `zeros_to_remove` is one less if the first non-zero byte
has its top bit set (the byte kept in front of it is one of the zeros: `0 :: b :: rest`), else all of them;
when it is zero the digits are left as they are. -/
def normalize (d : List UInt8) : List UInt8 :=
  if d.isEmpty then [0]
  else
    match dropZeros d with
    | [] => [0]
    | b :: rest =>
      if d.length - (b :: rest).length > 0 then
        if b.toNat > 0x7f then 0 :: b :: rest else b :: rest
      else d

/-- `PartialEq for CqlVarint` / `CqlVarintBorrowed` (`value.rs:488-492`, `514-518`). -/
def varintEq (a b : List UInt8) : Bool := normalize a == normalize b

/-- What `Hash for CqlVarint` feeds the hasher (`value.rs:495-499`): the normalised slice (as a `[u8]`). -/
def hashInput (a : List UInt8) : List UInt8 := normalize a

/-- `#[derive(PartialEq)]` of `CqlDecimal` / `CqlDecimalBorrowed` (`value.rs:588-606`): the unscaled value
as a `CqlVarint`, and the scale. -/
def decimalEq (a : List UInt8) (sa : Int) (b : List UInt8) (sb : Int) : Bool := varintEq a b && sa == sb

/-! ### the integer a byte string stands for (two's complement, big-endian; the specification side) -/

def natBE : List UInt8 → Nat
  | [] => 0
  | b :: bs => b.toNat * 256 ^ bs.length + natBE bs

/-- `BigInt::from_signed_bytes_be` (empty = 0). -/
def toInt : List UInt8 → Int
  | [] => 0
  | b :: bs =>
    if b.toNat ≥ 128 then (natBE (b :: bs) : Int) - ((256 ^ (bs.length + 1) : Nat) : Int) else (natBE (b :: bs) : Int)

/-- No redundant leading 0xff: what the normalisation does not undo. -/
def noFFPad : List UInt8 → Bool
  | b :: c :: _ => !(b.toNat = 255 && c.toNat ≥ 128)
  | _ => true

/-! ### `collect()` into `HashSet<CqlVarint>` / `HashMap<CqlVarint, V>`

`extend` by `insert`: a key that is `==` to one already present does not replace it (the FIRST key stays; a map
entry gets the LAST value).  Represented in first-insertion order (both sides of the differential run print the
entries sorted by their raw bytes). -/

def insertSet (x : List UInt8) : List (List UInt8) → List (List UInt8)
  | [] => [x]
  | y :: ys => if varintEq y x then y :: ys else y :: insertSet x ys

def collectSet (xs : List (List UInt8)) : List (List UInt8) := xs.foldl (fun acc x => insertSet x acc) []

def insertMap {α : Type} (kv : List UInt8 × α) : List (List UInt8 × α) → List (List UInt8 × α)
  | [] => [kv]
  | e :: es => if varintEq e.1 kv.1 then (e.1, kv.2) :: es else e :: insertMap kv es

def collectMap {α : Type} (kvs : List (List UInt8 × α)) : List (List UInt8 × α) :=
  kvs.foldl (fun acc kv => insertMap kv acc) []

end ScyllaVerif.VarintNorm

import ScyllaVerif.Model.Tablets
/-
C08 — `RawTablet::from_custom_payload` (`scylla/src/routing/locator/tablets.rs:66-122`) with the three-outcome result
type.  The decoding of the payload cell `tuple<bigint, bigint, list<tuple<uuid, int>>>` is C15's total model
`Tablets.parsePayload` (reused, not duplicated; C15 compares it with the real code on arbitrary bytes); this file adds
the PARTIAL operations of the function as panic sites:

* `ensure_tuple_type::<_, 3>(RAW_TABLETS_CQL_TYPE).expect("Type check should have prevented this!")` and the
  `unreachable!` of `ListlikeIterator::deserialize`: the column type is the static `RAW_TABLETS_CQL_TYPE` (a
  3-tuple whose third component is a list), so both tests are on a constant (`staticTypeOk`);
* `first_token + 1` on `i64` (overflow panics with overflow checks): guarded by `last_token > first_token`.
-/
namespace ScyllaVerif.C08T
open ScyllaVerif.Tablets

inductive Out (α : Type) where
  | ok (a : α)
  | err (k : PayloadErr)
  | panic (site : String)
  deriving Repr

def I64_MAX : Int := 2 ^ 63 - 1

/-- Shape of the static `RAW_TABLETS_CQL_TYPE`: arity of the tuple, and "third component is a list". -/
def RAW_TABLETS_ARITY : Nat := 3
def RAW_TABLETS_THIRD_IS_LIST : Bool := true

/-- The checks of `from_custom_payload` after the eager part of the deserialisation (`Tablets.rawTabletCheck`),
ending with `Token::new(first_token + 1)`. -/
def rawTabletCheckP (a b : Int) (reps : List (Option (Nat × Int))) : Out (Int × Int × List (Nat × Nat)) :=
  if b ≤ a then .err .wrongrange
  else match collectReplicas reps with
    | .error e => .err e
    | .ok l =>
      if a + 1 > I64_MAX then .panic "first_token + 1 (i64 overflow)"
      else .ok (tokenNew (a + 1), tokenNew b, l)

/-- `RawTablet::from_custom_payload` on the bytes stored under `tablets-routing-v1`. -/
def parsePayloadP (bs : List UInt8) : Out (Int × Int × List (Nat × Nat)) :=
  if RAW_TABLETS_ARITY ≠ 3 then .panic "ensure_tuple_type(..).expect(Type check should have prevented this!)"
  else
  match tupleField bs with
  | none => .err .deserialization
  | some (c0, v1) =>
    match fixedField 8 c0 with
    | none => .err .deserialization
    | some a =>
      match tupleField v1 with
      | none => .err .deserialization
      | some (c1, v2) =>
        match fixedField 8 c1 with
        | none => .err .deserialization
        | some b =>
          match tupleField v2 with
          | none => .err .deserialization
          | some (none, _) => rawTabletCheckP (beInt a) (beInt b) []
          | some (some l, _) =>
            if !RAW_TABLETS_THIRD_IS_LIST then .panic "unreachable!(Typecheck should have prevented this scenario!)"
            else match readInt l with
            | none => .err .deserialization
            | some (count, items) =>
              if count < 0 then .err .deserialization
              else rawTabletCheckP (beInt a) (beInt b) (replicaElems (items.length + 1) count.toNat items)

end ScyllaVerif.C08T

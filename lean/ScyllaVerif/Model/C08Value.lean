import ScyllaVerif.Model.Codec
/-
C08 — typed column values with the three-outcome result type.

The value decoders of `scylla-cql-core/src/deserialize/value.rs` (`CqlValue::deserialize` 67-248 and the iterators it
delegates to: `ListlikeIterator` 923-1110, `VectorIterator` 1187-1400, `MapIterator` 1405-1545, `UdtIterator`
1748-1864, `FixedLengthBytesSequenceIterator` / `BytesSequenceIterator` 2014-2092) and `Row::deserialize`
(`deserialize/row.rs:196-232`), transcribed with a `panic` outcome at every PARTIAL operation of that code:

* `unreachable!("Typecheck should have prevented this scenario!")` in `ListlikeIterator::deserialize` (1005),
  `VectorIterator::deserialize` (1246), `MapIterator::deserialize` (1462), `UdtIterator::deserialize` (1813):
  each callee matches on the column type again;
* `buf.split_at(count)` in `read_raw_bytes` (behind its length guard), used by `read_cql_bytes` / `read_n_bytes`;
* in `unsigned_vint_decode` (`frame/types.rs:281-297`): `0xffu8 >> extra_bytes` (shift overflow when `extra_bytes = 8`),
  `(bits as u64) << (8 * extra_bytes)`, `read_uint::<BigEndian>(extra_bytes)` (asserts `1 ≤ nbytes ≤ 8`), `v += …`
  (`u64` overflow);
* `type_size_for_vector`: `size.saturating_mul(dimensions)` (saturates: modelled as the saturation, fix 2692908),
  `*dimensions as usize`, `2 * count` in `MapIterator` (a `usize` product of a non-negative `i32`);
* `Row::deserialize`: `self.index.next().expect("RangeFrom<usize> iterator exhausted …")` in `ColumnIterator::next`.

The natives (`impl_strict_type!` for `CqlValue`'s carriers) contain no partial operation on this path
(`ensure_exact_length` maps `try_into` to an error, `from_utf8` to an error); they are taken from C01's
`Codec.decNative`, whose variable-length integers are justified by `uvintDecP_eq` (Proofs/C08ValueNP.lean).
The structure follows C01's total model `Codec.decVal` (reused for natives, byte-sequence readers and error kinds).
-/
namespace ScyllaVerif.C08V
open ScyllaVerif.Cql ScyllaVerif.Codec ScyllaVerif.Vint

/-- Value, error kind, or a panic of the Rust code at `site`. -/
inductive Out (α : Type) where
  | ok (a : α)
  | err (k : DeErr)
  | panic (site : String)
  deriving Repr

def Out.ofExcept : Except DeErr α → Out α
  | .ok a => .ok a
  | .error e => .err e

def USIZE_MAX : Nat := 2 ^ 64 - 1

/-- `read_raw_bytes(count, buf)`: length guard, then `split_at`. -/
def readRawP (count : Nat) (bs : Bytes) : Out (Bytes × Bytes) :=
  if bs.length < count then .err .rawCqlBytesReadError
  else if count > bs.length then .panic "split_at"
  else .ok (bs.take count, bs.drop count)

/-- `FrameSlice::read_cql_bytes` = `read_bytes_opt`: `[int n]`, any negative `n` is null, else `n` raw bytes
(`len as usize` on a non-negative `i32`). -/
def readCqlBytesP (bs : Bytes) : Out (Option Bytes × Bytes) :=
  if bs.length < 4 then .err .rawCqlBytesReadError
  else
    let len := beNat (bs.take 4)
    let rest := bs.drop 4
    if len > i32Max then .ok (none, rest)
    else match readRawP len rest with
      | .ok (b, r) => .ok (some b, r)
      | .err e => .err e
      | .panic s => .panic s

/-- `types::read_int_length`. -/
def readCountP (bs : Bytes) : Out (Nat × Bytes) := Out.ofExcept (readCount bs)

/-- `FrameSlice::read_n_bytes`: `Ok(None)` on an empty slice unless `count = 0`; else `read_raw_bytes`. -/
def readNP (count : Nat) (bs : Bytes) : Out (Option Bytes × Bytes) :=
  if bs.isEmpty && count != 0 then .ok (none, bs)
  else match readRawP count bs with
    | .ok (b, r) => .ok (some b, r)
    | .err e => .err e
    | .panic s => .panic s

/-- `unsigned_vint_decode` with its partial operations. -/
def uvintDecP (bs : Bytes) : Out (BitVec 64 × Bytes) :=
  match bs with
  | [] => .err .rawCqlBytesReadError
  | first :: rest =>
    let extra := leadingOnes8 first
    -- `let mut v = if extra_bytes != 8 { (first_byte & (0xff >> extra_bytes)) as u64 << (8 * extra_bytes) } else { 0 }`
    let v : Out Nat :=
      if extra ≠ 8 then
        if extra ≥ 8 then .panic "0xffu8 >> extra_bytes"
        else if 8 * extra ≥ 64 then .panic "u64 << (8 * extra_bytes)"
        else .ok ((first &&& ((0xff : UInt8) >>> UInt8.ofNat extra)).toNat <<< (8 * extra))
      else .ok 0
    match v with
    | .panic s => .panic s
    | .err e => .err e
    | .ok v =>
      if extra = 0 then .ok (BitVec.ofNat 64 v, rest)
      else
        -- `buf.read_uint::<BigEndian>(extra_bytes)`: asserts 1 ≤ nbytes ≤ 8, then `read_exact`
        if extra < 1 ∨ extra > 8 then .panic "read_uint(nbytes)"
        else if rest.length < extra then .err .rawCqlBytesReadError
        -- … whose `read_exact` on `&[u8]` is that guard followed by `split_at(nbytes)` (the partial operation a
        -- vint cut short by k < nbytes bytes would reach if the guard counted the first byte in)
        else if extra > rest.length then .panic "split_at (read_exact)"
        else
          let x := beNat (rest.take extra)
          -- `v += …` on `u64`
          if v + x ≥ 2 ^ 64 then .panic "v += read_uint (u64 overflow)"
          else .ok (BitVec.ofNat 64 (v + x), rest.drop extra)

/-- `ListlikeIterator` run to the end by `collect::<Result<Vec<_>, _>>()`: `n` times `read_cql_bytes` + element. -/
def seqP (f : Bytes → Out CqlVal) : Nat → Bytes → Out (List CqlVal)
  | 0, _ => .ok []
  | n + 1, bs =>
    match readCqlBytesP bs with
    | .panic s => .panic s
    | .err e => .err e
    | .ok (none, _) => .err .expectedNonNull
    | .ok (some b, rest) =>
      match f b with
      | .panic s => .panic s
      | .err e => .err e
      | .ok v =>
        match seqP f n rest with
        | .panic s => .panic s
        | .err e => .err e
        | .ok vs => .ok (v :: vs)

/-- `MapIterator::next`, `n` entries: both raw items first, then key and value. -/
def mapP (fk fv : Bytes → Out CqlVal) : Nat → Bytes → Out (List (CqlVal × CqlVal))
  | 0, _ => .ok []
  | n + 1, bs =>
    match readCqlBytesP bs with
    | .panic s => .panic s
    | .err e => .err e
    | .ok (rk, rest1) =>
      match readCqlBytesP rest1 with
      | .panic s => .panic s
      | .err e => .err e
      | .ok (rv, rest2) =>
        match rk with
        | none => .err .expectedNonNull
        | some kb =>
          match fk kb with
          | .panic s => .panic s
          | .err e => .err e
          | .ok k =>
            match rv with
            | none => .err .expectedNonNull
            | some vb =>
              match fv vb with
              | .panic s => .panic s
              | .err e => .err e
              | .ok v =>
                match mapP fk fv n rest2 with
                | .panic s => .panic s
                | .err e => .err e
                | .ok r => .ok ((k, v) :: r)

/-- `VectorIterator::next_constant_length_elem`, `n` times. -/
def vecFixedP (f : Bytes → Out CqlVal) (size : Nat) : Nat → Bytes → Out (List CqlVal)
  | 0, _ => .ok []
  | n + 1, bs =>
    match readNP size bs with
    | .panic s => .panic s
    | .err e => .err e
    | .ok (none, _) => .err .expectedNonNull
    | .ok (some b, rest) =>
      match f b with
      | .panic s => .panic s
      | .err e => .err e
      | .ok v =>
        match vecFixedP f size n rest with
        | .panic s => .panic s
        | .err e => .err e
        | .ok vs => .ok (v :: vs)

/-- `VectorIterator::next_variable_length_elem`, `n` times (`size.try_into::<usize>()` cannot fail on 64 bit). -/
def vecVarP (f : Bytes → Out CqlVal) : Nat → Bytes → Out (List CqlVal)
  | 0, _ => .ok []
  | n + 1, bs =>
    match uvintDecP bs with
    | .panic s => .panic s
    | .err e => .err e
    | .ok (size, r0) =>
      match readNP size.toNat r0 with
      | .panic s => .panic s
      | .err e => .err e
      | .ok (none, _) => .err .expectedNonNull
      | .ok (some b, rest) =>
        match f b with
        | .panic s => .panic s
        | .err e => .err e
        | .ok v =>
          match vecVarP f n rest with
          | .panic s => .panic s
          | .err e => .err e
          | .ok vs => .ok (v :: vs)

/-- `VectorIterator::next_constant_length_elem`: one item (or `None` when exhausted), the new `remaining`, the slice. -/
def vecNextFixedP (f : Bytes → Out CqlVal) (size remaining : Nat) (bs : Bytes) :
    Out (Option (Except DeErr CqlVal) × Nat × Bytes) :=
  if remaining = 0 then .ok (none, 0, bs)
  else match readNP size bs with
    | .panic s => .panic s
    | .err e => .ok (some (.error e), remaining - 1, bs)
    | .ok (none, rest) => .ok (some (.error .expectedNonNull), remaining - 1, rest)
    | .ok (some b, rest) =>
      match f b with
      | .panic s => .panic s
      | .err e => .ok (some (.error e), remaining - 1, rest)
      | .ok v => .ok (some (.ok v), remaining - 1, rest)

/-- `VectorIterator::nth(n)` on fixed-size elements (`value.rs:1344-1368`, after fix 73c0abc): `n >= remaining` ends
the iterator; otherwise `n.saturating_mul(element_length)` bytes are skipped with `read_n_bytes`, `remaining -= n + 1`
on a failed skip (`n + 1` and the subtraction are `usize` operations), `remaining -= n` otherwise, then one element. -/
def vecNthFixedP (f : Bytes → Out CqlVal) (size remaining n : Nat) (bs : Bytes) :
    Out (Option (Except DeErr CqlVal) × Nat × Bytes) :=
  if n ≥ remaining then .ok (none, 0, bs)
  else if n > 0 then
    let skip := min (n * size) USIZE_MAX
    match readNP skip bs with
    | .panic s => .panic s
    | .err e =>
      if n + 1 > USIZE_MAX then .panic "n + 1 (usize overflow)"
      else if remaining < n + 1 then .panic "self.remaining -= n + 1 (usize underflow)"
      else .ok (some (.error e), remaining - (n + 1), bs)
    | .ok (_, rest) =>
      if remaining < n then .panic "self.remaining -= n (usize underflow)"
      else vecNextFixedP f size (remaining - n) rest
  else vecNextFixedP f size remaining bs

/-- `VectorIterator::next_variable_length_elem`: one item (or `None` when exhausted), the new `remaining`, the slice.
A failing `unsigned_vint_decode` leaves the slice EMPTY (`read_u8` / `read_exact` on `&[u8]` consume what is there);
a failing or null `read_n_bytes` leaves it after the length prefix. -/
def vecNextVarP (f : Bytes → Out CqlVal) (remaining : Nat) (bs : Bytes) :
    Out (Option (Except DeErr CqlVal) × Nat × Bytes) :=
  if remaining = 0 then .ok (none, 0, bs)
  else match uvintDecP bs with
    | .panic s => .panic s
    | .err e => .ok (some (.error e), remaining - 1, [])
    | .ok (size, r0) =>
      match readNP size.toNat r0 with
      | .panic s => .panic s
      | .err e => .ok (some (.error e), remaining - 1, r0)
      | .ok (none, rest) => .ok (some (.error .expectedNonNull), remaining - 1, rest)
      | .ok (some b, rest) =>
        match f b with
        | .panic s => .panic s
        | .err e => .ok (some (.error e), remaining - 1, rest)
        | .ok v => .ok (some (.ok v), remaining - 1, rest)

/-- `VectorIterator::nth(n)` on variable-size elements (`value.rs:1369-1374`): `n` items are pulled and discarded
(Ok or Err alike; exhaustion ends with `None`), then one more is returned. -/
def vecNthVarP (f : Bytes → Out CqlVal) : Nat → Nat → Bytes → Out (Option (Except DeErr CqlVal) × Nat × Bytes)
  | 0, remaining, bs => vecNextVarP f remaining bs
  | n + 1, remaining, bs =>
    match vecNextVarP f remaining bs with
    | .panic s => .panic s
    | .err e => .err e
    | .ok (none, r, b) => .ok (none, r, b)
    | .ok (some _, r, b) => vecNthVarP f n r b

/-- `VectorIterator::size_hint` / `ExactSizeIterator::len` (`assert_eq!(upper, Some(lower))` in `len`). -/
def vecSizeHintP (remaining : Nat) : Out (Nat × Option Nat) :=
  let hint := (remaining, some remaining)
  if hint.2 ≠ some hint.1 then .panic "ExactSizeIterator::len: assert_eq!(upper, Some(lower))" else .ok hint

/-- `MapIterator::size_hint`: `self.raw_iter.len() / 2` (the inner `len()` asserts its hint is exact). -/
def mapSizeHintP (rawRemaining : Nat) : Out (Nat × Option Nat) :=
  match vecSizeHintP rawRemaining with
  | .panic s => .panic s
  | .err e => .err e
  | .ok (l, _) => .ok (l / 2, some (l / 2))

/-- `ColumnType::type_size_for_vector` with `usize::saturating_mul`. -/
def sizeForVectorSat : CqlTy → Option Nat
  | .native n => n.sizeForVector
  | .tuple _ => none
  | .list _ => none
  | .set _ => none
  | .map _ _ => none
  | .udt _ _ _ => none
  | .vector t dim => match sizeForVectorSat t with
    | some s => some (min (s * dim) USIZE_MAX)
    | none => none

/-- The shape test each iterator's `deserialize` performs on the column type it is handed
(`_ => unreachable!(…)` otherwise). -/
inductive Shape where
  | listlike | map | vector | udt
  deriving DecidableEq

def hasShape : Shape → CqlTy → Bool
  | .listlike, .list _ => true
  | .listlike, .set _ => true
  | .map, .map _ _ => true
  | .vector, .vector _ _ => true
  | .udt, .udt _ _ _ => true
  | _, _ => false

/-- `XIterator::deserialize(typ, v)`: the callee's own match on `typ`. -/
def expectShape (sh : Shape) (t : CqlTy) (k : Out α) : Out α :=
  if hasShape sh t then k else .panic "unreachable!(Typecheck should have prevented this scenario!)"

mutual
/-- `CqlValue::deserialize(typ, Some(slice))`. -/
def decValP (u : Bytes → Bool) : CqlTy → Bytes → Out CqlVal
  | t, bs =>
    if bs.isEmpty && !t.isStringLike then .ok .empty
    else
      match t with
      | .native n => Out.ofExcept (decNative u n bs)
      | .list elt =>
        -- `Vec::<CqlValue>::deserialize(typ, v)` → `ListlikeIterator::deserialize(typ, v)` re-matches `typ`
        expectShape .listlike (.list elt)
          (match readCountP bs with
           | .panic s => .panic s
           | .err e => .err e
           | .ok (n, rest) =>
             match seqP (fun b => decValP u elt b) n rest with
             | .panic s => .panic s
             | .err e => .err e
             | .ok vs => .ok (.list vs))
      | .set elt =>
        expectShape .listlike (.set elt)
          (match readCountP bs with
           | .panic s => .panic s
           | .err e => .err e
           | .ok (n, rest) =>
             match seqP (fun b => decValP u elt b) n rest with
             | .panic s => .panic s
             | .err e => .err e
             | .ok vs => .ok (.set vs))
      | .map kt vt =>
        expectShape .map (.map kt vt)
          (match readCountP bs with
           | .panic s => .panic s
           | .err e => .err e
           | .ok (n, rest) =>
             -- `Self::new(typ, k_typ, v_typ, 2 * count, v)`
             if 2 * n > USIZE_MAX then .panic "2 * count"
             else match mapP (fun b => decValP u kt b) (fun b => decValP u vt b) n rest with
               | .panic s => .panic s
               | .err e => .err e
               | .ok kvs => .ok (.map kvs))
      | .vector elt dim =>
        expectShape .vector (.vector elt dim)
          (match sizeForVectorSat elt with
           | some size =>
             match vecFixedP (fun b => decValP u elt b) size dim bs with
             | .panic s => .panic s
             | .err e => .err e
             | .ok vs => .ok (.vector vs)
           | none =>
             match vecVarP (fun b => decValP u elt b) dim bs with
             | .panic s => .panic s
             | .err e => .err e
             | .ok vs => .ok (.vector vs))
      | .tuple ts =>
        match tupleP u ts bs with
        | .panic s => .panic s
        | .err e => .err e
        | .ok fs => .ok (.tuple fs)
      | .udt ks name fields =>
        expectShape .udt (.udt ks name fields)
          (match udtP u fields bs with
           | .panic s => .panic s
           | .err e => .err e
           | .ok fs => .ok (.udt ks name fs))
/-- Tuple fields: "no bytes left ⇒ null", else `read_cql_bytes` and `Option<CqlValue>`. -/
def tupleP (u : Bytes → Bool) : List CqlTy → Bytes → Out (List CqlVal)
  | [], _ => .ok []
  | t :: ts, bs =>
    if bs.isEmpty then
      match tupleP u ts bs with
      | .panic s => .panic s
      | .err e => .err e
      | .ok r => .ok (.null :: r)
    else
      match readCqlBytesP bs with
      | .panic s => .panic s
      | .err e => .err e
      | .ok (none, rest) =>
        match tupleP u ts rest with
        | .panic s => .panic s
        | .err e => .err e
        | .ok r => .ok (.null :: r)
      | .ok (some b, rest) =>
        match decValP u t b with
        | .panic s => .panic s
        | .err e => .err e
        | .ok v =>
          match tupleP u ts rest with
          | .panic s => .panic s
          | .err e => .err e
          | .ok r => .ok (v :: r)
/-- `UdtIterator` (`BytesSequenceIterator`: stops when the slice is empty ⇒ missing ⇒ null). -/
def udtP (u : Bytes → Bool) : List (String × CqlTy) → Bytes → Out (List (String × CqlVal))
  | [], _ => .ok []
  | (n, t) :: rest, bs =>
    if bs.isEmpty then
      match udtP u rest bs with
      | .panic s => .panic s
      | .err e => .err e
      | .ok r => .ok ((n, .null) :: r)
    else
      match readCqlBytesP bs with
      | .panic s => .panic s
      | .err e => .err e
      | .ok (none, tail) =>
        match udtP u rest tail with
        | .panic s => .panic s
        | .err e => .err e
        | .ok r => .ok ((n, .null) :: r)
      | .ok (some b, tail) =>
        match decValP u t b with
        | .panic s => .panic s
        | .err e => .err e
        | .ok v =>
          match udtP u rest tail with
          | .panic s => .panic s
          | .err e => .err e
          | .ok r => .ok ((n, v) :: r)
end

/-- `Option::<CqlValue>::deserialize`: a null cell is `null`. -/
def decCellP (u : Bytes → Bool) (t : CqlTy) : Option Bytes → Out CqlVal
  | none => .ok .null
  | some b => decValP u t b

/-- The row-skipping loop of `RawRowIterator::next` (it runs BEFORE the row is handed to `Row::deserialize`): the raw
cells of the row and the rest of the buffer, or the raw read error. -/
def skipCellsP : Nat → Bytes → Out (List (Option Bytes) × Bytes)
  | 0, bs => .ok ([], bs)
  | n + 1, bs =>
    match readCqlBytesP bs with
    | .panic s => .panic s
    | .err e => .err e
    | .ok (c, rest) =>
      match skipCellsP n rest with
      | .panic s => .panic s
      | .err e => .err e
      | .ok (cs, r) => .ok (c :: cs, r)

/-- `Row::deserialize(ColumnIterator)`: `Vec::with_capacity(columns)`, then per column `ColumnIterator::next`
(`self.index.next().expect(…)` on the `0usize..` range; the cell itself was already validated by the skip loop) and
`Option<CqlValue>::deserialize`.  `idx` is the range's position. -/
def decCellsP (u : Bytes → Bool) : List CqlTy → Nat → List (Option Bytes) → Out (List CqlVal)
  | [], _, _ => .ok []
  | _ :: _, _, [] => .ok []
  | t :: ts, idx, c :: cs =>
    if idx ≥ USIZE_MAX then .panic "RangeFrom<usize> iterator exhausted"
    else match decCellP u t c with
      | .panic s => .panic s
      | .err e => .err e
      | .ok v =>
        match decCellsP u ts (idx + 1) cs with
        | .panic s => .panic s
        | .err e => .err e
        | .ok vs => .ok (v :: vs)

/-- One item of `rows_iter::<Row>()`. -/
def rowP (u : Bytes → Bool) (ts : List CqlTy) (bs : Bytes) : Out (List CqlVal × Bytes) :=
  match skipCellsP ts.length bs with
  | .panic s => .panic s
  | .err e => .err e
  | .ok (cells, rest) =>
    match decCellsP u ts 0 cells with
    | .panic s => .panic s
    | .err e => .err e
    | .ok vs => .ok (vs, rest)

/-- `rows_iter::<Row>()` consumed until the first error (what the harness does): the rows decoded, and the kind of
the error it stopped on (`none` = all `n` rows decoded). -/
def rowsP (u : Bytes → Bool) (ts : List CqlTy) : Nat → Bytes → Out (List (List CqlVal) × Option DeErr)
  | 0, _ => .ok ([], none)
  | n + 1, bs =>
    match rowP u ts bs with
    | .panic s => .panic s
    | .err e => .ok ([], some e)
    | .ok (vs, rest) =>
      match rowsP u ts n rest with
      | .panic s => .panic s
      | .err e => .err e
      | .ok (rows, e) => .ok (vs :: rows, e)

end ScyllaVerif.C08V

/-
A small pool layer over the connection model (C10): the per-node pool refiller and the list of connections it
publishes ← `connection_pool.rs` `PoolRefiller` (`conns`, `shared_conns`, `update_shared_conns`, `remove_connection`
1218-1275, `start_opening_connection` / `handle_ready_connection`, `connection_errors`).

This is the id-level abstraction (for the liveness bookkeeping: dead / reported / processed) of the full refiller
model `Model/Routing.lean` `Refiller` (shard buckets, `maybe_reshard`, excess connections, non-publishing arms),
which C10 shares with C12; that the published pool always equals the refiller's buckets there — which is what
`shared := conns'` below takes for granted — is `Props.C10.refiller_publishes_what_it_holds`.

A connection's death is the break event of `Model/Conn.lean` (its router ended; `error_receiver` fires). The
refiller learns of it through `connection_errors` (`die` = the router ended and the notice is on its way; `process`
= the refiller runs `remove_connection`). Routing (`connection_for_shard`, `random_connection`,
`get_working_connections`) reads only the PUBLISHED list.
-/
namespace ScyllaVerif.Pool

inductive PEv where
  | opened               -- a new connection became ready: pushed into `conns`, `update_shared_conns(None)`
  | openFailed           -- the node refused / the handshake failed: nothing changes, the refiller retries later
  | die (id : Nat)       -- connection `id`'s router ended (Model/Conn `break_`), the error is reported
  | process (id : Nat)   -- the refiller handles that report: `remove_connection`
  deriving Repr, DecidableEq

structure Pool where
  conns : List Nat        -- the refiller's private list (all shard buckets together)
  shared : List Nat       -- the published list (`MaybePoolConnections::Ready`; empty = `Broken`)
  dead : List Nat         -- connections whose router has ended
  pending : List Nat      -- deaths reported and not yet processed
  nextId : Nat
  deriving Repr, DecidableEq

def Pool.init : Pool := ⟨[], [], [], [], 0⟩

def step (p : Pool) : PEv → Pool
  | .opened =>
    let conns' := p.conns ++ [p.nextId]
    { p with conns := conns', shared := conns', nextId := p.nextId + 1 }
  | .openFailed => p
  | .die id =>
    if p.conns.contains id && !p.dead.contains id then
      { p with dead := id :: p.dead, pending := p.pending ++ [id] }
    else p
  | .process id =>
    if p.pending.contains id then
      -- found in its shard bucket: removed, and the new list is published whether or not it is empty
      let conns' := p.conns.filter (· != id)
      { p with conns := conns', shared := conns', pending := p.pending.filter (· != id) }
    else p

def run (p : Pool) (evs : List PEv) : Pool := evs.foldl step p

/-- The refiller as it would be if `remove_connection` published only when the pool became empty (the defect this
layer guards against; used only in a documented counterexample). -/
def stepStale (p : Pool) : PEv → Pool
  | .process id =>
    if p.pending.contains id then
      let conns' := p.conns.filter (· != id)
      { p with conns := conns', shared := if conns'.isEmpty then conns' else p.shared,
               pending := p.pending.filter (· != id) }
    else p
  | e => step p e

end ScyllaVerif.Pool

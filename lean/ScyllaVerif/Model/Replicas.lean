import ScyllaVerif.Model.Ring
/-
Model of replica placement on the token ring (C04; reused by C05 / C12).  Tablets are out of scope (C15).

* `Strategy`                                   ← `cluster::metadata::Strategy` (the `HashMap<String, usize>` of NTS is an
                                                 association list with distinct keys; `Other`'s payload is never read).
* `uniqueNodes`, `dcRing`, `rackCount`         ← `ReplicationInfo::new` (`replication_info.rs:62-108`): the per-DC ring is the
                                                 global ring restricted to that DC (re-sorting a sorted ring with a stable
                                                 sort changes nothing); a missing rack (`None`) counts as a rack value.
* `simpleReplicas`                             ← `simple_strategy_replicas` (112-123).
* `ntsWalk`, `ntsReplicas`                     ← `nts_replicas_in_datacenter` + `NtsReplicasInDatacenterIterator::next` (127-202):
                                                 `replicas_left_to_find`, `used_racks`, `acceptable_repeats = rf.saturating_sub(rack_count)`.
                                                 A DC absent from the ring behaves as `EMPTY_DATACENTER_NODES` (empty `dcRing`).
* `Pre`, `precompute`, `lookupSimple`, `lookupNts` ← `PrecomputedReplicas::compute` / `get_precomputed_*` (`precomputed_replicas.rs:80-210`).
* `Locator`, `mkLocator`, `getSimple`, `getNts`, `replicasForToken` ← `ReplicaLocator::{new, get_simple_strategy_replicas,
                                                 get_network_strategy_replicas, replicas_for_token}` (`locator/mod.rs:62-271`).
* `ReplicaSet` with `len`, `iter`, `choose`, `ordered` ← `ReplicaSet::{len, into_iter, choose, into_replicas_ordered}`
                                                 (`mod.rs:314-434, 436-692, 694-935`); the random index of `choose` is an argument.
* `tokenEndpoints`                             ← `ClusterState::get_token_endpoints` (`cluster/state.rs:504-530`).
-/
namespace ScyllaVerif.Replicas
open ScyllaVerif.Ring

/-- `cluster::metadata::Strategy`. -/
inductive Strategy where
  | simple (rf : Nat)
  | nts (repf : List (Nat × Nat))
  | localStrategy
  | other
  deriving DecidableEq, Repr

/-! ### `ReplicationInfo` -/

/-- `unique_nodes_in_global_ring` / `unique_nodes_in_dc_ring`: nodes of a ring in order of first appearance. -/
def uniqueNodes (r : Ring Node) : List Node := uniq (r.map (·.2))

/-- The ring of one datacenter. -/
def dcRing (r : Ring Node) (dc : Nat) : Ring Node := r.filter (fun e => decide (e.2.dc = some dc))

/-- `rack_count`: number of distinct rack values (`None` included) among the DC's ring entries. -/
def rackCount (r : Ring Node) (dc : Nat) : Nat := (uniq ((dcRing r dc).map (·.2.rack))).length

/-- `simple_strategy_replicas`: `ring_range(token).unique().take(min(rf, #unique nodes))`. -/
def simpleReplicas (r : Ring Node) (tok : Int) (rf : Nat) : List Node :=
  (uniq (ringRange r tok)).take (min rf (uniqueNodes r).length)

/-- `NtsReplicasInDatacenterIterator` run to exhaustion over the remaining unique nodes of the DC ring:
`left` = `replicas_left_to_find`, `used` = `used_racks`, `repeats` = `acceptable_repeats`. -/
def ntsWalk : (left : Nat) → (used : List (Option Nat)) → (repeats : Nat) → List Node → List Node
  | _, _, _, [] => []
  | left, used, repeats, n :: rest =>
    if left = 0 then []
    else if n.rack ∉ used then n :: ntsWalk (left - 1) (n.rack :: used) repeats rest
    else if repeats > 0 then n :: ntsWalk (left - 1) used (repeats - 1) rest
    else ntsWalk left used repeats rest

/-- `nts_replicas_in_datacenter(token, dc, rf)` collected. -/
def ntsReplicas (r : Ring Node) (tok : Int) (dc : Nat) (rf : Nat) : List Node :=
  let dr := dcRing r dc
  ntsWalk (min rf (uniqueNodes dr).length) [] (rf - rackCount r dc) (uniq (ringRange dr tok))

/-! ### `PrecomputedReplicas` -/

/-- `PrecomputedReplicasRing`. -/
structure PreRing where
  ring : Ring (List Node)
  maxRf : Nat
  deriving Repr

/-- `DatacenterPrecomputedReplicas`. -/
structure DcPre where
  compressed : Option PreRing
  above : List (Nat × Ring (List Node))
  deriving Repr

/-- `PrecomputedReplicas`. -/
structure Pre where
  global : PreRing
  dcs : List (Nat × DcPre)
  deriving Repr

/-- `max_global_repfactor`: at least 1, raised by every SimpleStrategy. -/
def maxGlobalRf (S : List Strategy) : Nat :=
  S.foldl (fun acc s => match s with | .simple rf => max acc rf | _ => acc) 1

/-- All `(dc, rf)` entries of the NTS strategies (what is inserted into `dc_repfactors`). -/
def dcRfEntries (S : List Strategy) : List (Nat × Nat) :=
  S.flatMap (fun s => match s with | .nts repf => repf | _ => [])

/-- The replication factors requested for one DC (the `BTreeSet<usize>`; duplicates are harmless). -/
def rfsFor (S : List Strategy) (dc : Nat) : List Nat :=
  ((dcRfEntries S).filter (fun e => decide (e.1 = dc))).map (·.2)

/-- `produce_replica_ring_iter(rf)` collected into a `TokenRing`. -/
def ntsPreRing (r : Ring Node) (dc rf : Nat) : Ring (List Node) :=
  mkRing ((dcRing r dc).map (fun e => (e.1, ntsReplicas r e.1 dc rf)))

/-- The per-DC part of `compute`; `none` = the `continue` for a strategy DC that is not in the ring. -/
def precomputeDc (r : Ring Node) (S : List Strategy) (dc : Nat) : Option DcPre :=
  if (dcRing r dc).isEmpty then none
  else
    let rc := rackCount r dc
    let rfs := rfsFor S dc
    some {
      compressed := ((rfs.filter (fun rf => decide (rf ≤ rc))).max?).map (fun rf => ⟨ntsPreRing r dc rf, rf⟩)
      above := (rfs.filter (fun rf => decide (rc < rf))).map (fun rf => (rf, ntsPreRing r dc rf)) }

/-- `PrecomputedReplicas::compute`. -/
def precompute (r : Ring Node) (S : List Strategy) : Pre :=
  let m := maxGlobalRf S
  { global := ⟨mkRing (r.map (fun e => (e.1, simpleReplicas r e.1 m))), m⟩
    dcs := (uniq ((dcRfEntries S).map (·.1))).filterMap (fun dc => (precomputeDc r S dc).map (fun d => (dc, d))) }

/-- `get_precomputed_simple_strategy_replicas`. -/
def lookupSimple (p : Pre) (tok : Int) (rf : Nat) : Option (List Node) :=
  if p.global.maxRf < rf then none
  else match getElemForToken p.global.ring tok with
    | none => none
    | some l => some (l.take (min l.length rf))

/-- `get_replica_ring_for_rf`. -/
def ringForRf (d : DcPre) (rf : Nat) : Option (Ring (List Node)) :=
  match d.compressed with
  | some c => if rf ≤ c.maxRf then some c.ring else d.above.lookup rf
  | none => d.above.lookup rf

/-- `get_precomputed_network_strategy_replicas`. -/
def lookupNts (p : Pre) (tok : Int) (dc rf : Nat) : Option (List Node) :=
  match p.dcs.lookup dc with
  | none => none
  | some d =>
    match ringForRf d rf with
    | none => none
    | some ring =>
      match getElemForToken ring tok with
      | none => none
      | some l => some (l.take (min l.length rf))

/-! ### `ReplicaLocator` -/

/-- `ReplicaLocator` without tablets. -/
structure Locator where
  ring : Ring Node
  pre : Pre
  deriving Repr

/-- `ReplicaLocator::new(ring_iter, precompute_replica_sets_for, _)`. -/
def mkLocator (entries : List (Int × Node)) (S : List Strategy) : Locator :=
  let r := mkRing entries
  ⟨r, precompute r S⟩

/-- `ClusterState::new` → `calculate_new_locator`: every keyspace strategy is precomputed. -/
def Topology.locator (t : Topology) (S : List Strategy) : Locator := mkLocator t.entries S

/-- `locator.datacenters`: DC names in order of first appearance on the global ring. -/
def Locator.datacenters (loc : Locator) : List Nat := uniq (loc.ring.filterMap (·.2.dc))

/-- `get_simple_strategy_replicas`. -/
def getSimple (loc : Locator) (tok : Int) (rf : Nat) : List Node :=
  if rf = 0 then []
  else match lookupSimple loc.pre tok rf with
    | some l => l
    | none => simpleReplicas loc.ring tok rf

/-- `get_network_strategy_replicas`. -/
def getNts (loc : Locator) (tok : Int) (dc rf : Nat) : List Node :=
  if rf = 0 then []
  else match lookupNts loc.pre tok dc rf with
    | some l => l
    | none => ntsReplicas loc.ring tok dc rf

/-- `ReplicaSetInner` (`PlainSharded` is the tablet case, not modelled). -/
inductive ReplicaSet where
  | plain (l : List Node)
  | filteredSimple (l : List Node) (dc : Nat)
  | chainedNts (repf : List (Nat × Nat)) (tok : Int)
  deriving Repr

/-- `replicas_for_token` for a table without tablets. `Local` and `Other` fall back to SimpleStrategy, RF 1. -/
def replicasForToken (loc : Locator) (tok : Int) (strat : Strategy) (dc : Option Nat) : ReplicaSet :=
  match strat with
  | .simple rf =>
    match dc with
    | some d => .filteredSimple (getSimple loc tok rf) d
    | none => .plain (getSimple loc tok rf)
  | .nts repf =>
    match dc with
    | some d =>
      match repf.lookup d with
      | some rf => .plain (getNts loc tok d rf)
      | none => .plain []
    | none => .chainedNts repf tok
  | _ =>
    match dc with
    | some d => .filteredSimple (getSimple loc tok 1) d
    | none => .plain (getSimple loc tok 1)

/-- `unique_nodes_in_datacenter_ring(dc).map(len).unwrap_or(0)`. -/
def dcNodeCount (loc : Locator) (dc : Nat) : Nat := (uniqueNodes (dcRing loc.ring dc)).length

/-- `ReplicaSet::len`. -/
def ReplicaSet.len (loc : Locator) : ReplicaSet → Nat
  | .plain l => l.length
  | .filteredSimple l dc => (l.filter (fun n => decide (n.dc = some dc))).length
  | .chainedNts repf _ => (repf.map (fun e => min e.2 (dcNodeCount loc e.1))).sum

/-- `ReplicaSet::into_iter` collected (`ReplicaSetIterator::next`). -/
def ReplicaSet.iter (loc : Locator) : ReplicaSet → List Node
  | .plain l => l
  | .filteredSimple l dc => l.filter (fun n => decide (n.dc = some dc))
  | .chainedNts repf tok =>
    loc.datacenters.flatMap (fun dc => getNts loc tok dc ((repf.lookup dc).getD 0))

/-- The `for datacenter in locator.datacenters` loop of `ReplicaSet::choose` (ChainedNTS). -/
def chooseNts (loc : Locator) (repf : List (Nat × Nat)) (tok : Int) : List Nat → Nat → Option Node
  | [], _ => none
  | dc :: rest, skip =>
    let repfactor := min ((repf.lookup dc).getD 0) (dcNodeCount loc dc)
    if skip < repfactor then (getNts loc tok dc repfactor)[skip]?
    else chooseNts loc repf tok rest (skip - repfactor)

/-- `ReplicaSet::choose` with `index = rng.random_range(0..len)` as an argument. -/
def ReplicaSet.choose (loc : Locator) (rs : ReplicaSet) (index : Nat) : Option Node :=
  if rs.len loc = 0 then none
  else match rs with
    | .plain l => l[index]?
    | .filteredSimple l dc => (l.filter (fun n => decide (n.dc = some dc)))[index]?
    | .chainedNts repf tok => chooseNts loc repf tok loc.datacenters index

/-- Is this node's DC one that "has some replicas in this NTS" (`mod.rs:773-774`, after the F6 repair)? -/
def dcHasReplicas (repf : List (Nat × Nat)) (n : Node) : Bool :=
  match n.dc with
  | some dc => match repf.lookup dc with
    | some rf => decide (0 < rf)
    | none => false
  | none => false

/-- `ReplicasOrderedNTSIterator` run to exhaustion: `FreshForPick` → `Picked` → `ComputedFallback`. -/
def orderedNts (loc : Locator) (repf : List (Nat × Nat)) (tok : Int) : List Node :=
  let range := ringRange loc.ring tok
  match range.find? (dcHasReplicas repf) with
  | none => []
  | some picked =>
    let all := repf.flatMap (fun e => getNts loc tok e.1 e.2)
    picked :: (uniq range).filter (fun n => decide (n ∈ all ∧ n ≠ picked))

/-- `into_replicas_ordered().into_iter()` collected. -/
def ReplicaSet.ordered (loc : Locator) : ReplicaSet → List Node
  | .chainedNts repf tok => orderedNts loc repf tok
  | rs => rs.iter loc

/-- `ClusterState::get_token_endpoints(ks, _, token)`: the keyspace's strategy, `LocalStrategy` if unknown. -/
def tokenEndpoints (loc : Locator) (ksStrategy : Option Strategy) (tok : Int) : List Node :=
  (replicasForToken loc tok (ksStrategy.getD .localStrategy) none).iter loc

end ScyllaVerif.Replicas

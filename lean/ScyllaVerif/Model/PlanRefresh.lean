import ScyllaVerif.Model.Plan
import ScyllaVerif.Model.Refresh
/-
C05 on cluster states that came out of METADATA REFRESH HISTORIES: the composition of C04's refresh model
(`Model/Refresh.lean`: `calculate_new_topology` with its four reuse arms, `new_updated`, `new_with_updated_topology`) with
the default-policy model (`Model/Plan.lean`).

* `disabledOf`  ← `!node.is_enabled()` over `known_nodes`: in production `pool.is_none()`, decided by the host filter's
                  verdict in `calculate_new_topology` (`Node::new` vs `Node::new_disabled`, `cluster/state.rs:291-331`).
* `clusterOf`   ← what `DefaultPolicy` reads of the `ClusterState` a history produced: the locator built from the ring
                  of (possibly reused / inherited) node objects, `get_keyspace`, `is_enabled`, `is_connected`.
* `flagsAfter`  — the `(host id, is_enabled)` pairs a history leaves behind, computed from the metadata alone: a refresh
                  sets them to the host filter's verdicts, an `enable` step (pools opening / closing, the verification
                  override) to the given set.
-/
namespace ScyllaVerif.PlanRefresh
open ScyllaVerif.Ring ScyllaVerif.Replicas ScyllaVerif.Plan ScyllaVerif.Refresh

/-- Host ids of the known nodes that are not enabled. -/
def disabledOf (known : List KNode) : List Nat := (known.filter (fun k => !k.enabled)).map (·.node.id)

/-- The cluster the default policy sees in a state of the refresh model (`down` = nodes without usable connection,
`sh` = `with_computed_shard`; keyspace `k<i>` = the `i`-th keyspace of the state). -/
def clusterOf (st : CState) (down : List Nat) (sh : Nat → Nat) : Cluster :=
  { loc := st.loc, keyspaces := strategiesOf st.keyspaces, disabled := disabledOf st.known, down := down, sh := sh }

/-- `(host id, is_enabled)` of the known nodes after a history, from the metadata alone. -/
def flagsAfter (e : List (Nat × Bool)) : List Step → List (Nat × Bool)
  | [] => e
  | .full peers _ :: rest => flagsAfter (peers.map (fun p => (p.node.id, p.accepted))) rest
  | .topo peers :: rest => flagsAfter (peers.map (fun p => (p.node.id, p.accepted))) rest
  | .enable ids :: rest => flagsAfter (e.map (fun x => (x.1, decide (x.1 ∈ ids)))) rest

/-- The cluster built from scratch from metadata `(peers, keyspaces)` with the given enabled flags. -/
def freshCluster (peers : List MPeer) (ks : Keyspaces) (flags : List (Nat × Bool)) (down : List Nat) (sh : Nat → Nat) :
    Cluster :=
  { loc := Topology.locator (toTopology peers) (strategiesOf ks), keyspaces := strategiesOf ks,
    disabled := (flags.filter (fun x => !x.2)).map (·.1), down := down, sh := sh }

/-! ### liveness changing while a plan is consumed

`Plan::next` asks the policy for `pick()` at the first call and for `fallback()` only at the second (`plan.rs:113-143`);
`is_connected` reads the live pool each time.  Two snapshots of the liveness: `cl` when `pick` runs, `cl` with `down₂`
when `fallback` runs. -/

/-- The cluster with another set of nodes lacking a usable connection (everything else unchanged). -/
def withDown (cl : Cluster) (down₂ : List Nat) : Cluster := { cl with down := down₂ }

/-- `Plan` iterated to exhaustion when the liveness is `cl.down` during the first `next()` and `down₂` afterwards.  If
`pick()` answers a target, `fallback()` is only called at the second `next()` (second snapshot); if it answers nothing,
`fallback()` is called right away, inside the first `next()` (`plan.rs:121-135`) - first snapshot.  (The `FallbackPlan` is a
LAZY iterator: liveness changes while it is being consumed are seen element by element; `plan2` models exactly one
change, between the first and the second `next()`, and the `xplan` cases make exactly that one change.) -/
def plan2 (cl : Cluster) (down₂ : List Nat) (cfg : Config) (rq : Request) (ρp : RhoPick) (ρf : RhoFb) : List Target :=
  match pick cl cfg rq ρp with
  | some t => planOf (some t) (fallback (withDown cl down₂) cfg rq ρf)
  | none => planOf none (fallback cl cfg rq ρf)

/-! ### latency awareness (off by default): the wrapper and the pick predicate, the penalised set being an input

`LatencyAwareness::wrap` (`default.rs:2981-3015`) partitions the fallback into not-penalised and penalised targets and
chains them; `pick_predicate` becomes `is_alive && !penalised` (`default.rs:958-975`), i.e. `pick` runs as if the penalised
nodes had no connection, while the steps that only ask `is_enabled` still see them.  WHICH nodes are penalised (EWMA of
measured latencies, minimum average, retry period: `fast_enough`) is not modelled: `pen` is an input. -/

/-- `latency_awareness.wrap(plan)`: not-penalised targets first, penalised ones behind, both in their order. -/
def wrapLA (pen : List Nat) (fb : List Target) : List Target :=
  fb.filter (fun t => !pen.contains t.1.id) ++ fb.filter (fun t => pen.contains t.1.id)

/-- `Plan` of a latency-aware default policy when the nodes `pen` are penalised. -/
def planLA (cl : Cluster) (pen : List Nat) (cfg : Config) (rq : Request) (ρp : RhoPick) (ρf : RhoFb) : List Target :=
  planOf (pick (withDown cl (cl.down ++ pen)) cfg rq ρp) (wrapLA pen (fallback cl cfg rq ρf))

end ScyllaVerif.PlanRefresh

import ScyllaVerif.Model.Pager
import ScyllaVerif.Model.Exec
/-!
C07 × C06: one page fetch of the session pagers IS one run of the request-execution core
(`PagingExecutor::fetch_one_page`, pager.rs 303-370, calls `run_request_no_side_effects` with the plan
"previous coordinator first, then the load-balancing plan without it"). `Model/Exec.lean` (C06) models
that core: targets, attempts, retry decisions, the final outcome. This file maps the trace of such a run
to what the page loop sees (`Pager.Attempt`s), so the pager theorems apply to every sequence of
execution-core runs - in particular to fetches that fail over to ANOTHER NODE (`RetryNextTarget`).

Every attempt of the trace is one request on the wire carrying the page loop's current paging state
(`run_request_once`, pager.rs 331-335, clones `self.paging_state`, whatever the target). All attempts
but the last were followed by a retry decision; the last one is decided by `final`.
-/
namespace ScyllaVerif.PagerExec
open ScyllaVerif.Pager ScyllaVerif.Retry ScyllaVerif.Exec

/-- Error label as the harness prints it (`DbError:<code>` with the protocol's error code). -/
def errLabel : Err → String
  | .dbError .overloaded => "DbError:4097"
  | .dbError (.unavailable _) => "DbError:4096"
  | .dbError .isBootstrapping => "DbError:4098"
  | .dbError (.readTimeout _ _ _) => "DbError:4608"
  | .dbError (.writeTimeout _ _) => "DbError:4352"
  | .dbError .serverError => "DbError:0"
  | .dbError .unprepared => "DbError:9472"
  | .dbError .invalid => "DbError:8704"
  | .brokenConnection => "Broken"
  | .unexpectedResponse => "UnexpectedResponse"
  | _ => "OtherAttemptError"

/-- How the fetch ended, for the page loop. -/
def lastOf : Final → Pager.Attempt
  | .completed _ => .ok
  | .ignored _ => .ignore
  | .stopped e => .fail (errLabel e)
  | .exhausted (some (.attempt e)) => .fail (errLabel e)     -- the plan ran out: `last_error`
  | .exhausted (some .pool) => .fail "ConnectionPoolError"
  | .exhausted none => .fail "EmptyPlan"
  | .outOfFuel => .fail "OutOfFuel"

/-- The page loop's view of one execution-core run: one entry per request sent. (A run that sent no
request at all - empty plan, no pool had a connection - is a failure the pager model has no request-less
transition for; `attemptsOfTrace` then still yields one entry: see `Props.C07.every_fetch_sends_a_request`
for the hypothesis under which every fetch sends one.) -/
def attemptsOfTrace (tr : Trace) : List Pager.Attempt :=
  List.replicate (tr.attempts.length - 1) .retry ++ [lastOf tr.final]

/-- All fetches of an iteration, page by page. -/
def pageFaults (traces : List Trace) : List Pager.Attempt := (traces.map attemptsOfTrace).flatten

/-- Server faults of the multi-node harness family, as attempt outcomes of the execution core. -/
def outcomeOf : Char → Option Outcome
  | 'o' => some (.fail (.dbError .overloaded))
  | 'U' => some (.fail (.dbError (.unavailable 0)))
  | 'b' => some (.fail (.dbError .isBootstrapping))
  | 'R' => some (.fail (.dbError (.readTimeout 1 1 false)))
  | 'r' => some (.fail (.dbError (.readTimeout 0 1 false)))
  | 's' => some (.fail (.dbError .serverError))
  | 'W' => some (.fail (.dbError (.writeTimeout 1 .simple)))
  | 'i' => some (.fail (.dbError .invalid))
  | _ => none

/-- The `k`-th request for the page is answered with the `k`-th scripted fault, then with the page. -/
def outcomesOf (cs : List Char) : Nat → Outcome :=
  fun k => ((cs.filterMap outcomeOf).getD k .ok)

/-! ### which node each request goes to

Nodes are numbers. The plan of a page fetch (pager.rs 337-365) is the node that served the previous page
(`stable_coordinator`) followed by the load-balancing plan without it; for the first page it is the
load-balancing plan. (Unsharded nodes, as in the harness's clusters: a node is one target; the sharded
case - coordinator with a shard - is `Speculative.pagerPlan`, C13.) The execution core numbers targets
by their position in the plan: attempt `a` goes to node `plan[a.target]`. -/

def pagePlan (coord : Option Nat) (lb : List Nat) : List Nat :=
  match coord with
  | none => lb
  | some c => c :: lb.filter (· != c)

/-- One page fetch: its plan (node ids) and the execution core's trace over that plan. -/
structure Fetch where
  plan : List Nat
  trace : Trace

/-- The node every request of the fetch went to, in order. -/
def Fetch.nodes (f : Fetch) : List Nat := f.trace.attempts.map fun a => f.plan.getD a.target 0

/-- `RequestExecutionOutcome::coordinator` of a completed fetch (execution.rs 561, 582-585): the node of the
attempt that succeeded; it becomes `stable_coordinator` (pager.rs 392, 482). -/
def Fetch.coordinator (f : Fetch) : Option Nat :=
  match f.trace.final with
  | .completed t => some (f.plan.getD t 0)
  | _ => none

/-- The page fetches of one iteration: page `j` has the load-balancing plan `lb_j` (whatever the policy
returned: a fresh plan per page, pager.rs 338-339) and the scripted outcomes `outs_j` of its attempts. The
iteration goes on to the next page only after a completed fetch, whose coordinator heads the next plan.
`av_j node` says whether the pool of `node` yields a connection at its 1st, 2nd, ... `get_connection()` call
during fetch `j` (C06's call-indexed targets): a node whose pool is empty - e.g. the previous coordinator,
killed in the meantime - is skipped without a request (execution.rs 536-547), and the fetch goes on to the
next target of the plan WITH THE SAME paging state. -/
def fetches (pol : Policy) (idem : Bool) (cl : Consistency) :
    Option Nat → List (List Nat × (Nat → Target) × (Nat → Outcome)) → List Fetch
  | _, [] => []
  | coord, (lb, av, outs) :: rest =>
    let plan := pagePlan coord lb
    let f : Fetch := ⟨plan, Exec.run pol idem cl (plan.map av) outs⟩
    f :: (match f.coordinator with
          | some c => fetches pol idem cl (some c) rest
          | none => [])

/-- The fetches of the harness's `n`-node cluster family: default retry policy, load-balancing plan
`0 .. n-1` for every page (the real policy's order is random; nothing below depends on it). -/
def clusterFetches (n : Nat) (idem : Bool) (pageFaultLetters : List (List Char)) : List Fetch :=
  fetches .default idem .localQuorum none
    (pageFaultLetters.map fun cs => (List.range n, (fun _ => Target.always), outcomesOf cs))

def clusterAttempts (n : Nat) (idem : Bool) (pageFaultLetters : List (List Char)) : List Pager.Attempt :=
  pageFaults ((clusterFetches n idem pageFaultLetters).map Fetch.trace)

/-- `kill` cases of the harness: before its `m`-th request (0-based, the first request of a new fetch, the
producer being quiescent) the node that served the last page is stopped - from that fetch on its pool
refuses every `get_connection()` (`Target.never`). The killed node and the first page fetched after the
kill are read off the all-available run, which is identical up to there. -/
def killedFetches (n : Nat) (idem : Bool) (pageFaultLetters : List (List Char)) (m : Nat) : List Fetch :=
  let fs0 := clusterFetches n idem pageFaultLetters
  let att0 := pageFaults (fs0.map Fetch.trace)
  let nodes0 := (fs0.map Fetch.nodes).flatten
  let served := (List.range (min m att0.length)).filter fun i => att0.getD i .retry == .ok
  if m ≥ att0.length then fs0        -- nothing was requested after the kill
  else
  match served.getLast? with
  | none => fs0
  | some i =>
    let x := nodes0.getD i 0
    let q := served.length           -- pages served before the kill = index of the first page fetched after it
    fetches .default idem .localQuorum none
      (pageFaultLetters.zipIdx.map fun (cs, j) =>
        (List.range n, (fun node => if j ≥ q && node == x then Target.never else Target.always), outcomesOf cs))

def killedAttempts (n : Nat) (idem : Bool) (pageFaultLetters : List (List Char)) (m : Nat) : List Pager.Attempt :=
  pageFaults ((killedFetches n idem pageFaultLetters m).map Fetch.trace)

/-- One page fetch of that family on its own (first page). -/
def clusterFetch (n : Nat) (idem : Bool) (cs : List Char) : Trace :=
  Exec.run .default idem .localQuorum ((List.range n).map fun _ => Target.always) (outcomesOf cs)

end ScyllaVerif.PagerExec

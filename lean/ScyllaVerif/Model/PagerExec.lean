import ScyllaVerif.Model.Pager
import ScyllaVerif.Model.Exec
/-!
C07 × C06: one page fetch of the session pagers IS one run of the request-execution core
(`PagingExecutor::fetch_one_page`, pager.rs 303-370, calls `run_request_no_side_effects` with the plan
"previous coordinator first, then the load-balancing plan without it"). `Model/Exec.lean` (C06) models
that core: targets, attempts, retry decisions, the final outcome. This file maps the trace of such a run
to what the page loop sees (`Pager.Attempt`s), so the pager theorems apply to every sequence of
execution-core runs - in particular to fetches that fail over to ANOTHER NODE (`RetryNextTarget`).

Every attempt of the trace is one request on the wire carrying the page loop's current paging state
(`run_request_once`, pager.rs 331-335, clones `self.paging_state`, whatever the target). All attempts
but the last were followed by a retry decision; the last one is decided by `final`.
-/
namespace ScyllaVerif.PagerExec
open ScyllaVerif.Pager ScyllaVerif.Retry ScyllaVerif.Exec

/-- Error label as the harness prints it (`DbError:<code>` with the protocol's error code). -/
def errLabel : Err → String
  | .dbError .overloaded => "DbError:4097"
  | .dbError (.unavailable _) => "DbError:4096"
  | .dbError .isBootstrapping => "DbError:4098"
  | .dbError (.readTimeout _ _ _) => "DbError:4608"
  | .dbError (.writeTimeout _ _) => "DbError:4352"
  | .dbError .serverError => "DbError:0"
  | .dbError .unprepared => "DbError:9472"
  | .dbError .invalid => "DbError:8704"
  | .brokenConnection => "Broken"
  | .unexpectedResponse => "UnexpectedResponse"
  | _ => "OtherAttemptError"

/-- How the fetch ended, for the page loop. -/
def lastOf : Final → Pager.Attempt
  | .completed _ => .ok
  | .ignored _ => .ignore
  | .stopped e => .fail (errLabel e)
  | .exhausted (some (.attempt e)) => .fail (errLabel e)     -- the plan ran out: `last_error`
  | .exhausted (some .pool) => .fail "ConnectionPoolError"
  | .exhausted none => .fail "EmptyPlan"
  | .outOfFuel => .fail "OutOfFuel"

/-- The page loop's view of one execution-core run: one entry per request sent. (A run that sent no
request at all - empty plan, no pool had a connection - is a failure the pager model has no request-less
transition for; `attemptsOfTrace` then still yields one entry: see `requests_of_trace`.) -/
def attemptsOfTrace (tr : Trace) : List Pager.Attempt :=
  List.replicate (tr.attempts.length - 1) .retry ++ [lastOf tr.final]

/-- All fetches of an iteration, page by page. -/
def pageFaults (traces : List Trace) : List Pager.Attempt := (traces.map attemptsOfTrace).flatten

/-- Server faults of the multi-node harness family, as attempt outcomes of the execution core. -/
def outcomeOf : Char → Option Outcome
  | 'o' => some (.fail (.dbError .overloaded))
  | 'U' => some (.fail (.dbError (.unavailable 0)))
  | 'b' => some (.fail (.dbError .isBootstrapping))
  | 'R' => some (.fail (.dbError (.readTimeout 1 1 false)))
  | 'r' => some (.fail (.dbError (.readTimeout 0 1 false)))
  | 's' => some (.fail (.dbError .serverError))
  | 'W' => some (.fail (.dbError (.writeTimeout 1 .simple)))
  | 'i' => some (.fail (.dbError .invalid))
  | _ => none

/-- The `k`-th request for the page is answered with the `k`-th scripted fault, then with the page. -/
def outcomesOf (cs : List Char) : Nat → Outcome :=
  fun k => ((cs.filterMap outcomeOf).getD k .ok)

/-- One page fetch on an `n`-node cluster whose pools all have connections: the C06 model of the fiber
with the default retry policy over a plan of `n` targets. -/
def clusterFetch (n : Nat) (idem : Bool) (cs : List Char) : Trace :=
  Exec.run .default idem .localQuorum (List.replicate n Target.always) (outcomesOf cs)

def clusterAttempts (n : Nat) (idem : Bool) (pageFaultLetters : List (List Char)) : List Pager.Attempt :=
  pageFaults (pageFaultLetters.map (clusterFetch n idem))

end ScyllaVerif.PagerExec

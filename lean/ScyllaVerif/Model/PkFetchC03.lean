/-! C03 — where `Table.partition_key` / `Table.pk_column_specs` (what `ClusterState::compute_token` serializes the key
against) come from: the `system_schema.columns` rows of the metadata fetch
(`scylla/src/cluster/metadata/fetching.rs`: `query_tables_schema` 1331-1526, `query_tables` 1199-1243) and the
keyspace filter of `ClusterState` (`cluster/state.rs:345-372`, `resolve_metadata_keyspaces`).

Import-free (linked into `md_C03`). Names and CQL type names are strings; a `position` is an `i32` (`Int` here).
Not modelled: rows of the thrift `empty` type (skipped by the code), UDT resolution (`MissingUDT`), an unparsable
type / an unknown `kind` string (these fail the WHOLE fetch with a `MetadataError`). -/
namespace ScyllaVerif.PkFetchC03

/-- `ColumnKind` as far as the key lists care. -/
inductive ColKind where
  | partitionKey
  | clustering
  /-- `regular` / `static` -/
  | other
  deriving Repr, DecidableEq

/-- One `system_schema.columns` row of one table: `(column_name, kind, position, type)`. -/
structure ColRow where
  name : String
  kind : ColKind
  position : Int
  ty : String
  deriving Repr

def posLe (a b : Int × String) : Bool := decide (a.1 ≤ b.1)

/-- `.enumerate().map(|(idx, (position, name))| if idx == position { Ok(name) } else { Err(idx) }).collect()`
(fetching.rs:1453-1466): the first index whose sorted position differs is the error. -/
def checkPositions : Nat → List (Int × String) → Except Nat (List String)
  | _, [] => .ok []
  | idx, (p, n) :: rest =>
    if (idx : Int) = p then
      match checkPositions (idx + 1) rest with
      | .ok ns => .ok (n :: ns)
      | .error e => .error e
    else .error idx

/-- `validate_key_columns` (fetching.rs:1448-1467): `sort_unstable_by_key(position)`, then every column must sit at
its own position. (Modelled with a stable sort: with two equal positions the check fails whatever their order, and at
the same index; see `Props/C03Fetch.lean`.) -/
def validateKeyColumns (cols : List (Int × String)) : Except Nat (List String) :=
  checkPositions 0 (cols.mergeSort posLe)

inductive TableErr where
  /-- `SingleKeyspaceMetadataError::IncompletePartitionKey(idx)` -/
  | incompletePartitionKey (idx : Nat)
  /-- `SingleKeyspaceMetadataError::IncompleteClusteringKey(idx)` -/
  | incompleteClusteringKey (idx : Nat)
  deriving Repr, DecidableEq

/-- What the fetch keeps of a table for the token paths: `partition_key`, `clustering_key` (names) and
`pk_column_specs` as (column name, CQL type name). -/
structure FetchedTable where
  partitionKey : List String
  clusteringKey : List String
  pkSpecs : List (String × String)
  deriving Repr

/-- `columns.get(name)`: `columns` is a `HashMap` filled by `insert` in row order, so the LAST row of a name wins. -/
def columnType (rows : List ColRow) (name : String) : Option String :=
  (rows.reverse.find? (fun r => r.name == name)).map (fun r => r.ty)

/-- The `(position, name)` list the fetch collects for one kind of key column, in ROW order (1404-1411). -/
def keyColumns (kind : ColKind) (rows : List ColRow) : List (Int × String) :=
  (rows.filter (fun r => r.kind == kind)).map (fun r => (r.position, r.name))

/-- `query_tables_schema` for the rows of ONE table, in the order the server returned them (1331-1526). -/
def tableOfRows (rows : List ColRow) : Except TableErr FetchedTable :=
  match validateKeyColumns (keyColumns .partitionKey rows) with
  | .error i => .error (.incompletePartitionKey i)
  | .ok pk =>
    match validateKeyColumns (keyColumns .clustering rows) with
    | .error i => .error (.incompleteClusteringKey i)
    | .ok ck => .ok ⟨pk, ck, pk.map (fun n => (n, (columnType rows n).getD ""))⟩

/-- One step of the fold in `query_tables` (1231-1238): a table lands in its keyspace's map; the FIRST broken table
turns the whole keyspace entry into its error, and nothing is inserted any more. -/
def addTable (acc : Except TableErr (List (String × FetchedTable)))
    (t : String × Except TableErr FetchedTable) : Except TableErr (List (String × FetchedTable)) :=
  match acc, t.2 with
  | .ok ts, .ok tb => .ok (ts ++ [(t.1, tb)])
  | .error e, _ => .error e
  | .ok _, .error e => .error e

/-- The keyspace entry `query_tables` builds from the tables of one keyspace (in `system_schema.tables` row order). -/
def keyspaceOfTables (ts : List (String × Except TableErr FetchedTable)) :
    Except TableErr (List (String × FetchedTable)) :=
  ts.foldl addTable (.ok [])

/-- `ClusterState::resolve_metadata_keyspaces` (state.rs:345-372) for one keyspace: a broken keyspace is replaced by
the PREVIOUS snapshot's version if there is one, and is otherwise absent from the new snapshot. -/
def resolveKeyspace (old : Option (List (String × FetchedTable)))
    (fetched : Except TableErr (List (String × FetchedTable))) : Option (List (String × FetchedTable)) :=
  match fetched with
  | .ok ks => some ks
  | .error _ => old

/-- The Rust-side type check of `SerializedValues::from_serializable` for a `Vec<CqlValue>` key against
`pk_column_specs` (what the harness binds: `Blob` / `Int` / `Text`, accepted by exactly the column type of that
name): one value per column, the i-th value's type is the i-th column's. -/
def keyTypesOk (specs : List (String × String)) (keyTypes : List String) : Bool :=
  specs.map (fun s => s.2) == keyTypes

/-- Named values (`HashMap<String, CqlValue>`): the map is read in `pk_column_specs` ORDER, one lookup per column
(`impl_serialize_row_for_map`); a column without an entry is a serialization error (`none`). -/
def namedKey {α : Type} (specs : List (String × String)) (vals : List (String × α)) : Option (List α) :=
  specs.mapM (fun s => vals.lookup s.1)

end ScyllaVerif.PkFetchC03

/-! C13 — where the idempotence flag the gate reads COMES FROM: the `StatementConfig` of a `Statement` /
`PreparedStatement` / `Batch` and the public setters that write it (import-free; linked into `md_C13`).

`statement/mod.rs:27-44` (`StatementConfig`), `statement/unprepared.rs:44-212`, `statement/prepared.rs:285-300,
436-662`, `statement/batch.rs:83-224` (the setters: each writes exactly one field), `prepared.rs:86-101`
(`RawPreparedStatement::into_prepared_statement`: the prepared statement gets `statement.config.clone()` and the
statement's page size), `execution.rs:121-159` / `pager.rs:146-176` (`is_idempotent: statement_config.is_idempotent`,
the profile: the config's handle if any, else the session default).

`Arc<dyn ..>` values (history listener, load-balancing / retry policy, profile handle) are identities (`Nat`). -/
namespace ScyllaVerif.SpecStmtConfig

/-- `StatementConfig` plus the `page_size` field that `Statement` / `PreparedStatement` keep next to it. -/
structure Config where
  /-- `consistency: Option<Consistency>` (the variant's index) -/
  consistency : Option Nat := none
  /-- `serial_consistency: Option<Option<SerialConsistency>>` -/
  serial : Option (Option Nat) := none
  isIdempotent : Bool := false
  skipMeta : Bool := false
  tracing : Bool := false
  timestamp : Option Int := none
  /-- `request_timeout` in ms -/
  timeout : Option Nat := none
  history : Option Nat := none
  profile : Option Nat := none
  lb : Option Nat := none
  retry : Option Nat := none
  /-- `PageSize` (default 5000; > 0) -/
  pageSize : Nat := 5000
deriving DecidableEq, Repr

/-- Which statement type the setters are called on: `Batch` has neither a page size nor `skip_result_metadata`'s
setter, `Statement` lacks the latter. -/
inductive Kind | stmt | prepared | batch
deriving DecidableEq, Repr

/-- One public call on the statement object. -/
inductive Op
  | setConsistency (c : Nat) | unsetConsistency
  | setSerial (sc : Option Nat) | unsetSerial
  | setIdempotent (b : Bool)
  | setTracing (b : Bool)
  /-- `PreparedStatement::set_use_cached_result_metadata` -/
  | setSkipMeta (b : Bool)
  | setTimestamp (t : Option Int)
  | setTimeout (t : Option Nat)
  | setHistory (l : Nat) | removeHistory
  | setProfile (h : Option Nat)
  | setLb (p : Option Nat)
  | setRetry (p : Option Nat)
  /-- `set_page_size n`, `n > 0` (the real call panics otherwise; the driver never issues it) -/
  | setPageSize (n : Nat)
  /-- `.clone()` of the statement object -/
  | clone
deriving DecidableEq, Repr

/-- Is the call part of the type's API? -/
def Op.allowedOn : Op → Kind → Bool
  | .setSkipMeta _, k => k == .prepared
  | .setPageSize n, k => k != .batch && n > 0
  | _, _ => true

/-- The setters, line by line: each assigns ONE field. -/
def apply (c : Config) : Op → Config
  | .setConsistency x => { c with consistency := some x }
  | .unsetConsistency => { c with consistency := none }
  | .setSerial sc => { c with serial := some sc }
  | .unsetSerial => { c with serial := none }
  | .setIdempotent b => { c with isIdempotent := b }
  | .setTracing b => { c with tracing := b }
  | .setSkipMeta b => { c with skipMeta := b }
  | .setTimestamp t => { c with timestamp := t }
  | .setTimeout t => { c with timeout := t }
  | .setHistory l => { c with history := some l }
  | .removeHistory => { c with history := none }
  | .setProfile h => { c with profile := h }
  | .setLb p => { c with lb := p }
  | .setRetry p => { c with retry := p }
  | .setPageSize n => { c with pageSize := n }
  | .clone => c

def applyAll (c : Config) (ops : List Op) : Config := ops.foldl apply c

/-- `Session::prepare(statement)` / `CachingSession` / `query_*` with values: the prepared statement is configured
with a clone of the statement's config and its page size (`prepared.rs:86-101`); nothing else of the statement's
configuration exists. -/
def prepareFrom (c : Config) : Config := c

/-- `is_idempotent` as `RequestExecutionParams::new_for_session_apis` / `PagingExecutor::new` read it
(`statement_config.is_idempotent`). -/
def gateFlag (c : Config) : Bool := c.isIdempotent

/-- The profile whose speculative policy is used: the config's handle resolved through `profiles` (handle identity ↦
`max_retry_count` of its policy, `none` = no policy), else the session default's. -/
def gatePolicy (c : Config) (profiles : Nat → Option Nat) (sessionDefault : Option Nat) : Option Nat :=
  match c.profile with
  | some h => profiles h
  | none => sessionDefault

/-! ### what the public getters show (the canonical line of a `cfg` case) -/

def showOpt {α : Type} (f : α → String) : Option α → String
  | none => "-"
  | some a => f a

def bit (b : Bool) : String := if b then "1" else "0"

/-- `get_is_idempotent get_tracing get_use_cached_result_metadata get_consistency get_serial_consistency (flattened)
get_timestamp get_request_timeout <history listener> get_execution_profile_handle get_load_balancing_policy
get_retry_policy get_page_size`; fields a type has no getter for are printed as the model holds them (`skip` is the
default `0` except on a prepared statement, `pg` is `-` for a batch). -/
def render (k : Kind) (c : Config) : String :=
  let ser : Option Nat := match c.serial with
    | some (some s) => some s
    | _ => none
  s!"idem={bit c.isIdempotent} tr={bit c.tracing} skip={bit c.skipMeta} cons={showOpt toString c.consistency} " ++
  s!"ser={showOpt toString ser} ts={showOpt toString c.timestamp} to={showOpt toString c.timeout} " ++
  s!"hist={showOpt toString c.history} prof={showOpt toString c.profile} lb={showOpt toString c.lb} " ++
  s!"retry={showOpt toString c.retry} pg={if k == .batch then "-" else toString c.pageSize}"

end ScyllaVerif.SpecStmtConfig

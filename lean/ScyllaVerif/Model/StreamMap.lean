/-
Model of the stream-id bookkeeping of one connection (C02, C10).

* `StreamIdSet`  ← `connection.rs` `StreamIdSet` (bitmap of 512 × u64; `allocate` = first block that is not
  all-ones, `trailing_ones`, set the bit; `free` = clear the bit).
* `HMap`         ← `ResponseHandlerMap` (`handlers`, `request_to_stream`, `orphanage_tracker`, `stream_set`)
  with `allocate`, `orphan`, `lookup`, `into_handlers`.  Handlers are represented by their request id.
  The orphan *timestamps* are not modelled (they only feed the "too many old orphans" break, an abstract
  event of the connection model).
-/
namespace ScyllaVerif.StreamMap

/-! ### association lists standing for the Rust `HashMap<_, _>`s -/

abbrev AMap := List (Nat × Nat)

def AMap.get (m : AMap) (k : Nat) : Option Nat :=
  match m with
  | [] => none
  | (k', v) :: rest => if k' = k then some v else AMap.get rest k

/-- `HashMap::remove`: removes every entry with the key (see `insert`).  (The key is looked up first so that
removing an absent key does not copy the list.) -/
def AMap.erase (m : AMap) (k : Nat) : AMap :=
  match AMap.get m k with
  | none => m
  | some _ => m.filter (fun p => p.1 != k)

/-- `HashMap::insert` (overwrites): the new entry shadows any older entry with the same key (`get` returns the
first match, `erase` removes all matches), so the list denotes the same finite map as the Rust `HashMap`. -/
def AMap.insert (m : AMap) (k v : Nat) : AMap := (k, v) :: m

/-- The entries of the denoted finite map (first occurrence of each key). -/
def AMap.entries : AMap → AMap
  | [] => []
  | (k, v) :: rest => (k, v) :: (AMap.entries rest).filter (fun p => p.1 != k)

/-! ### the bitmap -/

def blockCount : Nat := 512      -- (i16::MAX + 1) / 64
def idCount : Nat := 32768

structure StreamIdSet where
  blocks : List (BitVec 64)

def StreamIdSet.new : StreamIdSet := ⟨List.replicate blockCount 0#64⟩

/-- `u64::trailing_ones`, by scanning from bit `i` with fuel. -/
def trailingOnesFrom (x : BitVec 64) (i : Nat) : Nat → Nat
  | 0 => i
  | fuel + 1 => if x.getLsbD i then trailingOnesFrom x (i + 1) fuel else i

def trailingOnes (x : BitVec 64) : Nat := trailingOnesFrom x 0 64

/-- The scan over the blocks; `blockId` is the index of the head of `bs`. -/
def allocateGo : List (BitVec 64) → Nat → Option (Nat × List (BitVec 64))
  | [], _ => none
  | b :: rest, blockId =>
    if b ≠ BitVec.allOnes 64 then
      let off := trailingOnes b
      some (off + blockId * 64, (b ||| (1#64 <<< off)) :: rest)
    else
      match allocateGo rest (blockId + 1) with
      | none => none
      | some (id, rest') => some (id, b :: rest')

def StreamIdSet.allocate (s : StreamIdSet) : Option (Nat × StreamIdSet) :=
  match allocateGo s.blocks 0 with
  | none => none
  | some (id, bs) => some (id, ⟨bs⟩)

/-- `free`: `used_bitmap[id / 64] &= !(1 << (id % 64))` (indexing panics outside the bitmap; the caller
only passes stream ids `0 ≤ id < 32768`, see `Props.C02`). -/
def StreamIdSet.free (s : StreamIdSet) (id : Nat) : StreamIdSet :=
  ⟨s.blocks.modify (id / 64) (fun b => b &&& ~~~(1#64 <<< (id % 64)))⟩

/-- Abstraction: is the id marked used? -/
def StreamIdSet.isUsed (s : StreamIdSet) (id : Nat) : Bool :=
  (s.blocks.getD (id / 64) 0#64).getLsbD (id % 64)

/-! ### the handler map -/

structure HMap where
  ids : StreamIdSet
  handlers : AMap          -- stream id ↦ request id
  req2stream : AMap        -- request id ↦ stream id
  orphans : List Nat       -- orphaned stream ids

def HMap.new : HMap := ⟨StreamIdSet.new, [], [], []⟩

inductive LookupRes where
  | handler (req : Nat)
  | orphaned
  | missing
  deriving Repr, DecidableEq

/-- `ResponseHandlerMap::allocate`. `none` = `Err(handler)` (no free stream id, map unchanged).
The Rust asserts that no handler was registered for the fresh id (`prev_handler.is_none()`); this holds
in every reachable state (`Props.C02.allocate_fresh_has_no_handler`). -/
def HMap.allocate (m : HMap) (req : Nat) : Option (Nat × HMap) :=
  match m.ids.allocate with
  | none => none
  | some (id, ids') =>
    some (id, { m with ids := ids', req2stream := m.req2stream.insert req id,
                       handlers := m.handlers.insert id req })

/-- `ResponseHandlerMap::orphan`. -/
def HMap.orphan (m : HMap) (req : Nat) : HMap :=
  match m.req2stream.get req with
  | none => m
  | some s =>
    { m with orphans := if m.orphans.contains s then m.orphans else s :: m.orphans,
             handlers := m.handlers.erase s,
             req2stream := m.req2stream.erase req }

/-- `ResponseHandlerMap::lookup` (frees the stream id first, exactly as the code). -/
def HMap.lookup (m : HMap) (s : Nat) : LookupRes × HMap :=
  let m1 := { m with ids := m.ids.free s }
  if m1.orphans.contains s then
    (.orphaned, { m1 with orphans := m1.orphans.filter (· != s) })
  else
    match m1.handlers.get s with
    | some req =>
      (.handler req, { m1 with handlers := m1.handlers.erase s, req2stream := m1.req2stream.erase req })
    | none => (.missing, m1)

/-- `into_handlers`, as a list sorted by stream id (the Rust returns a `HashMap`). -/
def HMap.intoHandlers (m : HMap) : List (Nat × Nat) :=
  m.handlers.entries.mergeSort (fun a b => a.1 ≤ b.1)

end ScyllaVerif.StreamMap

/-
Model of the metadata-refresh side of C15: `scylla/src/cluster/state.rs`

* `nodeFor`, `newTopology`        ← `ClusterState::calculate_new_topology` (275-341): which `Node` objects are kept and
                                    which are re-created (host filter verdict, enabled flag, datacenter, rack, address).
* `removedNodes`, `recreatedNodes`,
  `performTabletsMaintenance`     ← `ClusterState::perform_tablets_maintenance` (375-406): removed = hosts of the old
                                    `known_nodes` absent from the new one; recreated = hosts present in both whose `Arc<Node>`
                                    differs; then `TabletsInfo::perform_maintenance(keyspaces, removed, new_known_nodes, recreated)`.
* `refresh`                       ← `ClusterState::new` (172-201) / `new_updated` (204-240) / `new_with_updated_topology` (242-270), tablets part.
* `learn`                         ← one iteration of `ClusterState::update_tablets` (647-675): `Tablet::from_raw_tablet` against
                                    the current `known_nodes`, then `TabletsInfo::add_tablet`.
* `resolveKeyspaces`, `refreshFetched` ← `ClusterState::resolve_metadata_keyspaces` (345-373) in front of `new_updated`: a keyspace
                                    whose fetch failed reuses the previous state's version, or is dropped if there is none.
* `refreshTopology`               ← `ClusterState::new_with_updated_topology` (242-270): peers only, the keyspaces of `self`.
* `locatorTabletReplicas`         ← the tablet branch of `ReplicaLocator::replicas_for_token` (`routing/locator/mod.rs:111-124`).
* `KState`, `KOp`, `kstep`, `krun` ← histories on the cluster state WITH its keyspaces (`ClusterState.keyspaces` is what the next
                                    refresh resolves failed fetches against and what `new_with_updated_topology` reuses).
* `tabletFromResponse`            ← `Connection::update_tablets_from_response` (`network/connection.rs:1973-1996`, called after a
                                    prepared EXECUTE, 1092-1098 and 1136-1140): what one response teaches, under which table.
* `learnBatch`                    ← `ClusterState::update_tablets` itself: the `for (table, raw_tablet) in raw_tablets` loop over
                                    ONE BATCH, in order, with the translator closure over `self.known_nodes` built once.

A known node is the model `Node` (host id, datacenter, allocation identity `gen`) plus the fields
`calculate_new_topology` compares (rack, address, enabled).  `known_nodes` is a `HashMap`: an association list
with distinct keys (built with `alSet`).
-/
import ScyllaVerif.Model.Tablets

namespace ScyllaVerif.TabletsRefresh
open ScyllaVerif.Tablets

/-- a row of `system.peers` / `system.local` plus the host filter's verdict on it -/
structure Peer where
  hostId : Nat
  dc : Option String
  rack : Option String
  addr : Nat
  /-- `host_filter.is_none_or(|f| f.accept(&peer))` -/
  accepted : Bool
  deriving DecidableEq, Repr

structure KNode where
  node : Node
  rack : Option String
  addr : Nat
  /-- `Node::is_enabled()` (has a connection pool) -/
  enabled : Bool
  deriving DecidableEq, Repr

abbrev Known := List (Nat × KNode)

/-- the `match (is_enabled, known_nodes.get(&peer_host_id))` of `calculate_new_topology` (291-331):
the node object for one peer and the next free allocation identity -/
def nodeFor (old : Known) (gen : Nat) (p : Peer) : KNode × Nat :=
  let fresh : KNode := ⟨⟨p.hostId, p.dc, gen⟩, p.rack, p.addr, p.accepted⟩
  match p.accepted, alGet p.hostId old with
  | false, some n =>
    if !n.enabled && decide (n.node.dc = p.dc) && decide (n.rack = p.rack) && decide (n.addr = p.addr) then (n, gen)
    else (fresh, gen + 1)
  | true, some n =>
    if n.enabled && decide (n.node.dc = p.dc) && decide (n.rack = p.rack) then
      -- same address: the object is kept; other address: `Node::inherit_with_ip_changed` (a new object)
      if n.addr = p.addr then (n, gen) else (fresh, gen + 1)
    else (fresh, gen + 1)
  | _, none => (fresh, gen + 1)

/-- `calculate_new_topology`: `new_known_nodes.insert(peer_host_id, node)` for every peer, in order -/
def newTopology (old : Known) (gen : Nat) (peers : List Peer) : Known × Nat :=
  peers.foldl (fun (acc : Known × Nat) p =>
    let r := nodeFor old acc.2 p
    (alSet p.hostId r.1 acc.1, r.2)) ([], gen)

def nodesOf (k : Known) : List (Nat × Node) := k.map (fun e => (e.1, e.2.node))

/-- hosts of the old `known_nodes` that are not in the new one -/
def removedNodes (old new : Known) : List Nat :=
  (old.map (·.1)).filter (fun id => (alGet id new).isNone)

/-- hosts in both whose `Arc<Node>` is another object, with the new object -/
def recreatedNodes (old new : Known) : List (Nat × Node) :=
  old.filterMap (fun e =>
    match alGet e.1 new with
    | some n => if n.node != e.2.node then some (e.1, n.node) else none
    | none => none)

/-- `ClusterState::perform_tablets_maintenance` -/
def performTabletsMaintenance (inf : Info) (old new : Known) (keyspaces : List (String × Bool × List String)) : Info :=
  inf.maintenance keyspaces (removedNodes old new) (nodesOf new) (recreatedNodes old new)

structure CState where
  known : Known
  info : Info
  gen : Nat
  deriving Repr

def CState.init : CState := ⟨[], Info.empty, 0⟩

/-- the tablets part of `ClusterState::new` (172-201, old state empty) / `new_updated` (204-240) / `new_with_updated_topology` (242-270) -/
def refresh (cs : CState) (peers : List Peer) (keyspaces : List (String × Bool × List String)) : CState :=
  let t := newTopology cs.known cs.gen peers
  ⟨t.1, performTabletsMaintenance cs.info cs.known t.1 keyspaces, t.2⟩

def translator (k : Known) (id : Nat) : Option Node := (alGet id k).map (·.node)

/-- `ClusterState::update_tablets` for one tablet; `false` = `add_tablet` panicked (ill-formed tablet only) -/
def learn (cs : CState) (spec : String × String) (first last : Int) (raw : List (Nat × Nat)) : CState × Bool :=
  let r := cs.info.addTablet spec (Tablet.fromRaw first last raw (translator cs.known))
  ({ cs with info := r.1 }, r.2)

/-- `new_updated` with the keyspaces given with tables and views apart -/
def refreshKs (cs : CState) (peers : List Peer) (keyspaces : List KsMeta) : CState :=
  refresh cs peers (keyspaces.map KsMeta.entry)

/-- `resolve_metadata_keyspaces`: the fetched keyspaces by name, `none` = the fetch of this keyspace failed
(`Err(SingleKeyspaceMetadataError)`); `old` = the keyspaces of the previous state.  A failed keyspace reuses
its old version; without one it is not present until the next refresh. -/
def resolveOne (old : List KsMeta) (e : String × Option KsMeta) : Option KsMeta :=
  match e.2 with
  | some k => some k
  | none => old.find? (fun k => k.name == e.1)

def resolveKeyspaces (fetched : List (String × Option KsMeta)) (old : List KsMeta) : List KsMeta :=
  fetched.filterMap (resolveOne old)

/-- `new_updated` from the raw fetch result: keyspaces are resolved against the previous state's keyspaces first -/
def refreshFetched (cs : CState) (peers : List Peer) (fetched : List (String × Option KsMeta)) (old : List KsMeta) : CState :=
  refreshKs cs peers (resolveKeyspaces fetched old)

/-- `ClusterState::new_with_updated_topology`: only the peers are new; `self.keyspaces` (the keyspaces of the
previous state, an explicit argument here) are handed to `perform_tablets_maintenance` again. -/
def refreshTopology (cs : CState) (peers : List Peer) (keyspacesOfPrevious : List KsMeta) : CState :=
  refreshKs cs peers keyspacesOfPrevious

/-- The tablet branch of `ReplicaLocator::replicas_for_token` (`locator/mod.rs:111-124`): `none` = the table is not
in the tablet map (the caller falls back to the token ring, outside this model); otherwise the tablet's replicas —
all of them or those of the datacenter — and the empty list when no tablet is known for the token. -/
def locatorTabletReplicas (inf : Info) (spec : String × String) (tok : Int) (dc : Option String) : Option (List Rep) :=
  match alGet spec inf.tables with
  | none => none
  | some tbl =>
    some ((match dc with
      | some d => dcReplicasForToken tbl.tablets tok d
      | none => replicasForToken tbl.tablets tok).getD [])

/-- one raw tablet of a batch: table, token range, raw replicas -/
abbrev RawItem := (String × String) × Int × Int × List (Nat × Nat)

/-- the loop body of `update_tablets` on the tablet map, with the translator built before the loop -/
def learnItem (tr : Nat → Option Node) (acc : Info × Bool) (it : RawItem) : Info × Bool :=
  let r := acc.1.addTablet it.1 (Tablet.fromRaw it.2.1 it.2.2.1 it.2.2.2 tr)
  (r.1, acc.2 && r.2)

/-- `ClusterState::update_tablets`: every tablet of the batch, in the order of the batch (later tablets of the same
batch overwrite earlier ones they overlap); `false` = some `add_tablet` panicked (ill-formed tablets only).
Difference to the Rust, unreachable: after a panicking `add_tablet` the Rust loop is unwound (the rest of the batch is
not processed) while this fold goes on; `Props.C15.learnBatch_no_panic` proves that no item of a batch of non-empty
ranges panics on a well-formed tablet map, so the two never differ on what `from_custom_payload` can produce. -/
def learnBatch (cs : CState) (batch : List RawItem) : CState × Bool :=
  let r := batch.foldl (learnItem (translator cs.known)) (cs.info, true)
  ({ cs with info := r.1 }, r.2)

/-- the cluster state together with `ClusterState.keyspaces` -/
structure KState where
  cs : CState
  kss : List KsMeta
  deriving Repr

def KState.init : KState := ⟨CState.init, []⟩

inductive KOp where
  /-- one `update_tablets` call -/
  | batch (items : List RawItem)
  /-- `new_updated` (`new` on the initial state) with the raw fetch result by keyspace name -/
  | refresh (peers : List Peer) (fetched : List (String × Option KsMeta))
  /-- `new_with_updated_topology` -/
  | topology (peers : List Peer)

/-- the keyspaces of the new state are the resolved ones; a topology-only refresh keeps them -/
def kstep (st : KState) : KOp → KState
  | .batch items => { st with cs := (learnBatch st.cs items).1 }
  | .refresh peers fetched => ⟨refreshFetched st.cs peers fetched st.kss, resolveKeyspaces fetched st.kss⟩
  | .topology peers => { st with cs := refreshTopology st.cs peers st.kss }

def krun (ops : List KOp) : KState := ops.foldl kstep KState.init

/-- `Connection::update_tablets_from_response`: `table` = `prepared_statement.get_table_spec()` (the caller does
nothing without one; unprepared requests never get here), `sender` = the connection has a tablet channel, `cell` =
the bytes under `tablets-routing-v1` in the response's custom payload (`none`: no custom payload or no such
key).  Result: the tablet sent to the cluster worker (keyed by the STATEMENT's table) and whether a warning is
logged.  The response handed back to the caller is not touched by any of this: a malformed payload is a warning,
never a failed request. -/
def tabletFromResponse (table : Option (String × String)) (sender : Bool) (cell : Option (List UInt8)) :
    Option RawItem × Bool :=
  match table, sender, cell with
  | some spec, true, some bs =>
    match parsePayload bs with
    | .ok (f, l, r) => (some (spec, f, l, r), false)
    | .error _ => (none, true)
  | _, _, _ => (none, false)

end ScyllaVerif.TabletsRefresh

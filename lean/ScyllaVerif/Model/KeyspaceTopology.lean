import ScyllaVerif.Model.Keyspace
/-! C20: the place where a metadata refresh creates `Node` objects and hands them the session keyspace
← `scylla/src/cluster/state.rs` `ClusterState::calculate_new_topology` (275-341), called by `new_updated` (full fetch)
and `new_with_updated_topology` (partial fetch).

For every peer of the fetched list, by the peer's host id:
* `(false, Some(node))` with `!node.is_enabled()` and equal dc / rack / address  → the old `Arc<Node>` is kept;
* `(false, _)`                                       → `Node::new_disabled(peer_endpoint)`: no pool;
* `(true, Some(node))` with `node.is_enabled()` and equal dc / rack:
    equal address → the old `Arc<Node>` is kept; other address → `Node::inherit_with_ip_changed` (new object, SAME pool);
* `(true, _)`                                        → `Node::new(peer_endpoint, .., node_config.used_keyspace.clone(), ..)`:
    a NEW pool whose refiller starts with `current_keyspace = used_keyspace` (brand-new host, host that was disabled, host
    whose datacenter or rack changed).
`new_known_nodes` (a HashMap by host id: a later peer with the same host id replaces an earlier one) becomes
`known_nodes`; nodes that are not in it any more are dropped with the old state.

In terms of the cluster model of Model/Keyspace.lean (a node id = one `Node` object's pool, or a pool-less disabled
`Node`): `Node::new` = `CEv.addNode .. false`, `Node::new_disabled` = `CEv.addNode .. true`, kept / inherited = no event,
everything that is not referred to by the new topology = `CEv.removeNode`. A refresh is therefore a run of cluster events,
and every theorem over all cluster histories covers histories with refreshes in them. -/
namespace ScyllaVerif.KeyspaceTopology
open ScyllaVerif.Keyspace

/-- One row of the fetched peer list (`Peer`), with the host filter's answer for it
(`host_filter.is_none_or(|f| f.accept(&peer))`, state.rs:288). Datacenter / rack / address as opaque numbers. -/
structure Peer where
  host : Nat
  addr : Nat
  dc : Nat
  rack : Nat
  accepted : Bool
  deriving Repr, DecidableEq

/-- One `Arc<Node>` of `known_nodes`. `pool` is the cluster-model id of its pool (of the pool-less node if disabled). -/
structure NodeObj where
  host : Nat
  addr : Nat
  dc : Nat
  rack : Nat
  enabled : Bool          -- `Node::is_enabled()` = `pool.is_some()`
  pool : Nat
  deriving Repr, DecidableEq

/-- The arm of the `match (is_enabled, known_nodes.get(&peer_host_id))` taken for a peer. -/
inductive Arm where
  | keepDisabled          -- 296-303
  | newDisabled           -- 304
  | keep                  -- 312-318
  | inheritIp             -- 319-322
  | create                -- 324-330: the only arm that builds a pool, from `node_config.used_keyspace`
  deriving Repr, DecidableEq

def arm (p : Peer) : Option NodeObj → Arm
  | some n =>
    if !p.accepted then
      if !n.enabled && n.dc == p.dc && n.rack == p.rack && n.addr == p.addr then .keepDisabled else .newDisabled
    else if n.enabled && n.dc == p.dc && n.rack == p.rack then
      if n.addr == p.addr then .keep else .inheritIp
    else .create
  | none => if p.accepted then .create else .newDisabled

/-- The node object of a peer and the cluster event that creates it (`fresh` = the id a new cluster node gets). -/
def nodeFor {K : Type} (perShard : Bool) (target : Nat) (p : Peer) (old : Option NodeObj) (fresh : Nat) :
    NodeObj × Option (CEv K) :=
  let mk (enabled : Bool) : NodeObj := { host := p.host, addr := p.addr, dc := p.dc, rack := p.rack, enabled, pool := fresh }
  match arm p old, old with
  | .keepDisabled, some n => (n, none)
  | .keep, some n => (n, none)
  | .inheritIp, some n => ({ n with addr := p.addr }, none)
  | .newDisabled, _ => (mk false, some (.addNode perShard target true))
  | _, _ => (mk true, some (.addNode perShard target false))

/-- The loop over the peers: the new node objects (HashMap insert: a later peer with the same host id replaces the
earlier entry) and the creations, in order. `fresh` counts the cluster nodes created so far. -/
def walk {K : Type} (perShard : Bool) (target : Nat) (old : List NodeObj) :
    List Peer → Nat → List NodeObj → List (CEv K) → List NodeObj × List (CEv K)
  | [], _, acc, evs => (acc.reverse, evs.reverse)
  | p :: rest, fresh, acc, evs =>
    let r := nodeFor (K := K) perShard target p (old.find? (·.host == p.host)) fresh
    let acc := r.1 :: acc.filter (·.host != p.host)
    match r.2 with
    | none => walk perShard target old rest fresh acc evs
    | some e => walk perShard target old rest (fresh + 1) acc (e :: evs)

/-- The cluster events of one refresh: the creations, then the removal of every known cluster node no new node
object refers to. -/
def refreshEvents {K : Type} (perShard : Bool) (target : Nat) (c : Cluster K) (old : List NodeObj) (peers : List Peer) :
    List NodeObj × List (CEv K) :=
  let w := walk (K := K) perShard target old peers c.nNodes [] []
  let all := c.known ++ (List.range w.2.length).map (c.nNodes + ·)
  (w.1, w.2 ++ (all.filter fun id => !w.1.any (·.pool == id)).map .removeNode)

/-- `known_nodes` / the cluster after the refresh. -/
def refresh {K : Type} [DecidableEq K] (perShard : Bool) (target : Nat) (c : Cluster K) (old : List NodeObj) (peers : List Peer) :
    Cluster K × List NodeObj :=
  let r := refreshEvents perShard target c old peers
  (crun c r.2, r.1)

end ScyllaVerif.KeyspaceTopology

/-
Retry policies: the error universe and the decision functions of the three built-in policies.
Import-free (core Lean only): linked into `modeldriver`.

Transcribes
  * `scylla/src/policies/retry/retry_policy.rs`            (`RequestInfo`, `RetryDecision`)
  * `scylla/src/policies/retry/default.rs:57-175`          (`DefaultRetrySession::decide_should_retry`)
  * `scylla/src/policies/retry/downgrading_consistency.rs:53-219`
  * `scylla/src/policies/retry/fallthrough.rs:29-35`
  * `scylla/src/errors.rs:955-1023` (`RequestAttemptError`), `scylla-cql-core/src/frame/response/error.rs:179-199,
    244-420` (`WriteType`, `DbError`), `scylla-cql-core/src/frame/types.rs:21-108` (`Consistency`, `is_serial`).

Only the fields the policies read are kept (`alive`; `received`, `required`, `data_present`; `received`,
`write_type`).  The `i32` fields are `Int` (no arithmetic is done on them, only comparisons).
-/
namespace ScyllaVerif.Retry

/-- `Consistency` (`frame/types.rs:21-58`). -/
inductive Consistency where
  | any | one | two | three | quorum | all | localQuorum | eachQuorum | localOne | serial | localSerial
  deriving DecidableEq, Repr, Inhabited

/-- `Consistency::is_serial` (`frame/types.rs:105-107`). -/
def Consistency.isSerial : Consistency → Bool
  | .serial | .localSerial => true
  | _ => false

/-- `WriteType` (`response/error.rs:179-199`); `Other(String)` carries nothing the policies read. -/
inductive WriteType where
  | simple | batch | unloggedBatch | counter | batchLog | cas | view | cdc | other
  deriving DecidableEq, Repr, Inhabited

/-- `DbError` (`response/error.rs:244-420`): every variant, with exactly the fields the retry policies read. -/
inductive DbErr where
  | syntaxError | invalid | alreadyExists | functionFailure | authenticationError | unauthorized | configError
  | unavailable (alive : Int)
  | overloaded | isBootstrapping | truncateError
  | readTimeout (received required : Int) (dataPresent : Bool)
  | writeTimeout (received : Int) (writeType : WriteType)
  | readFailure | writeFailure | unprepared | serverError | protocolError | rateLimitReached | other
  deriving DecidableEq, Repr, Inhabited

/-- `RequestAttemptError` (`errors.rs:955-1023`): every variant. -/
inductive Err where
  | serializationError | cqlRequestSerialization | unableToAllocStreamId | brokenConnection
  | bodyExtensionsParseError | cqlResultParseError | cqlErrorParseError
  | dbError (e : DbErr)
  | unexpectedResponse | repreparedIdChanged | repreparedIdMissingInBatch | nonfinishedPagingState
  deriving DecidableEq, Repr, Inhabited

/-- `RetryDecision` (`retry_policy.rs:40-50`); `none` = keep the consistency. -/
inductive Decision where
  | retrySame (cl : Option Consistency)
  | retryNext (cl : Option Consistency)
  | dontRetry
  | ignoreWrite
  deriving DecidableEq, Repr, Inhabited

/-- The decision asks for another attempt. -/
def Decision.isRetry : Decision → Bool
  | .retrySame _ | .retryNext _ => true
  | _ => false

def Decision.isRetrySame : Decision → Bool
  | .retrySame _ => true
  | _ => false

/-- The consistency carried by a retry decision. -/
def Decision.newCl : Decision → Option Consistency
  | .retrySame c | .retryNext c => c
  | _ => none

/-- `RequestInfo` (`retry_policy.rs:9-19`). -/
structure ReqInfo where
  err : Err
  idem : Bool
  cl : Consistency
  deriving DecidableEq, Repr

inductive Policy where
  | default | downgrading | fallthrough
  deriving DecidableEq, Repr, Inhabited

/-- Per-request session state of the three policies, as one record: `DefaultRetrySession` owns the three
one-shot flags (`default.rs:33-37`), `DowngradingConsistencyRetrySession` owns `wasRetry`
(`downgrading_consistency.rs:36-38`), `FallthroughRetrySession` has no state. -/
structure Sess where
  wasUnavailableRetry : Bool := false
  wasReadTimeoutRetry : Bool := false
  wasWriteTimeoutRetry : Bool := false
  wasRetry : Bool := false
  deriving DecidableEq, Repr, Inhabited

/-- `new_session()` of any of the policies: all flags false. -/
def Sess.init : Sess := {}

/-- `DefaultRetrySession::decide_should_retry` (`default.rs:57-170`). -/
def decideDefault (s : Sess) (ri : ReqInfo) : Sess × Decision :=
  if ri.cl.isSerial then (s, .dontRetry)                                     -- :58-60
  else
    match ri.err with
    | .brokenConnection =>                                                   -- :67-73
      (s, if ri.idem then .retryNext none else .dontRetry)
    | .dbError db =>
      match db with
      | .overloaded | .serverError | .truncateError =>                       -- :83-89
        (s, if ri.idem then .retryNext none else .dontRetry)
      | .unavailable _ =>                                                    -- :95-102
        if !s.wasUnavailableRetry then ({ s with wasUnavailableRetry := true }, .retryNext none)
        else (s, .dontRetry)
      | .readTimeout received required dataPresent =>                        -- :109-121
        if !s.wasReadTimeoutRetry && decide (received ≥ required) && !dataPresent then
          ({ s with wasReadTimeoutRetry := true }, .retrySame none)
        else (s, .dontRetry)
      | .writeTimeout _ writeType =>                                         -- :126-136
        if !s.wasWriteTimeoutRetry && ri.idem && writeType == .batchLog then
          ({ s with wasWriteTimeoutRetry := true }, .retrySame none)
        else (s, .dontRetry)
      | .isBootstrapping => (s, .retryNext none)                             -- :138
      | .syntaxError | .invalid | .alreadyExists | .functionFailure | .authenticationError
      | .unauthorized | .configError | .readFailure | .writeFailure | .unprepared | .protocolError
      | .rateLimitReached | .other => (s, .dontRetry)                        -- :140-153
    | .unableToAllocStreamId => (s, .retryNext none)                         -- :157
    | .bodyExtensionsParseError | .cqlErrorParseError | .cqlRequestSerialization
    | .cqlResultParseError | .nonfinishedPagingState | .repreparedIdChanged
    | .repreparedIdMissingInBatch | .serializationError | .unexpectedResponse =>
      (s, .dontRetry)                                                        -- :159-167

/-- `max_likely_to_work_cl` (`downgrading_consistency.rs:71-92`). -/
def maxLikelyToWorkCl (knownOk : Int) (previousCl : Consistency) : Decision :=
  if knownOk ≥ 3 then .retrySame (some .three)
  else if knownOk = 2 then .retrySame (some .two)
  else if knownOk = 1 || previousCl == .eachQuorum then .retrySame (some .one)
  else .dontRetry

/-- `DowngradingConsistencyRetrySession::decide_should_retry` (`downgrading_consistency.rs:54-214`). -/
def decideDowngrading (s : Sess) (ri : ReqInfo) : Sess × Decision :=
  if ri.cl.isSerial then                                                     -- :55-69
    match ri.err with
    | .dbError (.unavailable _) => (s, .retryNext none)
    | _ => (s, .dontRetry)
  else
    let cl := ri.cl
    match ri.err with
    | .brokenConnection =>                                                   -- :100-106
      (s, if ri.idem then .retryNext none else .dontRetry)
    | .dbError db =>
      match db with
      | .overloaded | .serverError | .truncateError =>                       -- :116-122
        (s, if ri.idem then .retryNext none else .dontRetry)
      | .unavailable alive =>                                                -- :125-132
        if !s.wasRetry then ({ s with wasRetry := true }, maxLikelyToWorkCl alive cl)
        else (s, .dontRetry)
      | .readTimeout received required dataPresent =>                        -- :134-151
        if s.wasRetry then (s, .dontRetry)
        else if received < required then ({ s with wasRetry := true }, maxLikelyToWorkCl received cl)
        else if !dataPresent then ({ s with wasRetry := true }, .retrySame none)
        else (s, .dontRetry)
      | .writeTimeout received writeType =>                                  -- :153-184
        if s.wasRetry || !ri.idem then (s, .dontRetry)
        else
          ({ s with wasRetry := true },
            match writeType with
            | .batch | .simple => if received > 0 then .ignoreWrite else .dontRetry
            | .unloggedBatch => maxLikelyToWorkCl received cl
            | .batchLog => .retrySame none
            | .counter | .cas | .view | .cdc | .other => .dontRetry)
      | .isBootstrapping => (s, .retryNext none)                             -- :186
      | .syntaxError | .invalid | .alreadyExists | .functionFailure | .authenticationError
      | .unauthorized | .configError | .readFailure | .writeFailure | .unprepared | .protocolError
      | .rateLimitReached | .other => (s, .dontRetry)                        -- :188-201
    | .unableToAllocStreamId => (s, .retryNext none)                         -- :204
    | .bodyExtensionsParseError | .cqlErrorParseError | .cqlRequestSerialization
    | .cqlResultParseError | .nonfinishedPagingState | .repreparedIdChanged
    | .repreparedIdMissingInBatch | .serializationError | .unexpectedResponse =>
      (s, .dontRetry)                                                        -- :206-214

/-- `FallthroughRetrySession::decide_should_retry` (`fallthrough.rs:30-32`). -/
def decideFallthrough (s : Sess) (_ri : ReqInfo) : Sess × Decision := (s, .dontRetry)

/-- `RetrySession::decide_should_retry` of the session created by `policy.new_session()`. -/
def decideRetry : Policy → Sess → ReqInfo → Sess × Decision
  | .default => decideDefault
  | .downgrading => decideDowngrading
  | .fallthrough => decideFallthrough

/-- The failures that prove the attempt was not applied, exactly as listed in the property:
unavailable, bootstrapping, no free stream id on the client, read timeout. -/
def proofOfNonApplication : Err → Bool
  | .dbError (.unavailable _) => true
  | .dbError .isBootstrapping => true
  | .unableToAllocStreamId => true
  | .dbError (.readTimeout _ _ _) => true
  | _ => false

/-- How many `RetrySameTarget` decisions the session can still issue: the number of unset one-shot flags
that gate a same-target retry. -/
def budget : Policy → Sess → Nat
  | .default, s => (if s.wasReadTimeoutRetry then 0 else 1) + (if s.wasWriteTimeoutRetry then 0 else 1)
  | .downgrading, s => if s.wasRetry then 0 else 1
  | .fallthrough, _ => 0

/-- The policy's fixed number of same-node retries per request: 2 / 1 / 0. -/
def sameTargetBound (pol : Policy) : Nat := budget pol Sess.init

/-- Feeding a whole history `(error, consistency)` to one session: the decisions it returns.
(This is what the `dec` cases of the correspondence check replay against the real sessions.) -/
def replay (pol : Policy) (idem : Bool) : Sess → List (Err × Consistency) → List Decision
  | _, [] => []
  | s, (e, cl) :: rest =>
    let r := decideRetry pol s ⟨e, idem, cl⟩
    r.2 :: replay pol idem r.1 rest

end ScyllaVerif.Retry

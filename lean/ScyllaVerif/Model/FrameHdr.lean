import ScyllaVerif.Model.Response
/-
C08 — model of the frame layer: `read_response_frame` (`scylla-cql/src/frame/mod.rs:142-191`) over an in-memory
reader, `parse_response_body_extensions` (`:216-272`; decompression is a parameter) and the whole decoding pipeline
`read_response_frame → parse_response_body_extensions → ResponseV2::deserialize → deserialize_metadata → raw rows`.
-/
namespace ScyllaVerif.C08

structure Header where
  flags : Nat
  stream : Int
  opcode : Nat
  body : Bytes
  deriving Repr

def HEADER_SIZE : Nat := 9

/-- `read_response_frame` reading from the byte string `bs` (then EOF). -/
def parseFrame (bs : Bytes) : Except String Header :=
  if bs.length < HEADER_SIZE then .error "hdr.io"
  else
    let version := (bs.getD 0 0).toNat
    if version / 128 ≠ 1 then .error "hdr.fromclient"
    else if version % 128 ≠ 4 then .error "hdr.version"
    else
      let flags := (bs.getD 1 0).toNat
      let stream := toSigned 16 (beNat ((bs.drop 2).take 2))
      let opcode := (bs.getD 4 0).toNat
      if !opcodeKnown opcode then .error "hdr.opcode"
      else
        let length := beNat ((bs.drop 5).take 4)
        let rest := bs.drop HEADER_SIZE
        if rest.length < length then .error "hdr.closed"
        else .ok ⟨flags, stream, opcode, rest.take length⟩

/-- `Buf::get_u8 / get_i16 / get_u8 / get_u32` on the slice of the 9-byte header array: each PANICS when fewer bytes
remain than it needs. -/
def bufGet (n : Nat) (cur : Bytes) : Outcome (Bytes × Bytes) :=
  if cur.length < n then .panic "Buf::get_* (not enough remaining bytes)" else .ok (cur.take n, cur.drop n)

/-- `read_response_frame` with the partial operations of its header parsing (`frame/mod.rs:150-170`): after
`read_exact(&mut raw_header[..])` the fields are taken from `buf = &raw_header[..]` with `get_u8`, `get_u8`,
`get_i16`, `get_u8`, `get_u32` in this order.  `FrameHdrP.parseFrameP_eq`: it is `parseFrame`, never a panic. -/
def parseFrameP (bs : Bytes) : Outcome Header :=
  if bs.length < HEADER_SIZE then .err "hdr.io"
  else
    let hdr := bs.take HEADER_SIZE
    match bufGet 1 hdr with
    | .panic s => .panic s
    | .err k => .err k
    | .ok (v, c1) =>
      let version := beNat v
      if version / 128 ≠ 1 then .err "hdr.fromclient"
      else if version % 128 ≠ 4 then .err "hdr.version"
      else match bufGet 1 c1 with
        | .panic s => .panic s
        | .err k => .err k
        | .ok (fl, c2) =>
          match bufGet 2 c2 with
          | .panic s => .panic s
          | .err k => .err k
          | .ok (st, c3) =>
            match bufGet 1 c3 with
            | .panic s => .panic s
            | .err k => .err k
            | .ok (op, c4) =>
              if !opcodeKnown (beNat op) then .err "hdr.opcode"
              else match bufGet 4 c4 with
                | .panic s => .panic s
                | .err k => .err k
                | .ok (len, _) =>
                  let length := beNat len
                  let rest := bs.drop HEADER_SIZE
                  if rest.length < length then .err "hdr.closed"
                  else .ok ⟨beNat fl, toSigned 16 (beNat st), beNat op, rest.take length⟩

/-! ### reading the body: `Vec::with_capacity(length.min(MAX_BODY_PREALLOCATION)).limit(length)` and the read loop
(`frame/mod.rs:172-195`, after fix b5f5b38) -/

/-- The announced length is not trusted beyond this for the up-front allocation. -/
def MAX_BODY_PREALLOCATION : Nat := 2 ^ 20

/-- `Vec` growth when `read_buf` finds the buffer full (`BufMut::chunk_mut` for `Vec<u8>` reserves 64 bytes, `Vec`
grows to `max(2·cap, len + 64)`). -/
def growCap (cap : Nat) : Nat := max (2 * cap) (cap + 64)

/-- The read loop over an in-memory source of `avail` bytes followed by EOF: `limit` = announced length, `cap` /
`len` = the buffer's capacity / length, `peak` = the largest capacity requested so far (ghost).  Every `read_buf`
copies what fits: `min(spare capacity, limit - len, available)`.  Returns the bytes read, whether the body is
complete, and the peak capacity.  `fuel` only bounds the iterations (each reads at least one byte or stops). -/
def readBodyLoop : Nat → (limit cap len avail peak : Nat) → Nat × Bool × Nat
  | 0, _, _, len, _, peak => (len, false, peak)
  | fuel + 1, limit, cap, len, avail, peak =>
    if len ≥ limit then (len, true, peak)
    else
      let cap' := if len = cap then growCap cap else cap
      let peak' := max peak cap'
      let n := min (min (cap' - len) (limit - len)) avail
      if n = 0 then (len, false, peak')
      else readBodyLoop fuel limit cap' (len + n) (avail - n) peak'

/-- `read_response_frame`'s body read for an announced `length` when `avail` bytes follow the header. -/
def readBody (length avail : Nat) : Nat × Bool × Nat :=
  let c0 := min length MAX_BODY_PREALLOCATION
  readBodyLoop (avail + 2) length c0 0 avail c0

def FLAG_COMPRESSION : Nat := 0x01
def FLAG_TRACING : Nat := 0x02
def FLAG_CUSTOM_PAYLOAD : Nat := 0x04
def FLAG_WARNING : Nat := 0x08

def hasFlag (flags bit : Nat) : Bool := (flags / bit) % 2 = 1

structure Ext where
  trace : Option Bytes
  warnings : List Bytes
  payload : Option (List (Bytes × Bytes))
  deriving Repr

/-- Tracing id: `read_uuid(&mut &*body)` on a copy of the slice, then `body.advance(16)`. -/
def readTrace : M Bytes := do
  let r ← onCopy (tag "ext.trace" readUuid)
  advance 16
  pure r.1

/-- `parse_response_body_extensions` after the (optional) decompression: tracing id, warnings, custom payload. -/
def parseExt (flags : Nat) : M Ext := do
  -- trace id: `read_uuid(&mut &*body)` on a copy, then `body.advance(16)` (frame/mod.rs:231-237)
  let trace ← optRead (hasFlag flags FLAG_TRACING) readTrace
  let warnings ← condRead (hasFlag flags FLAG_WARNING) (readThenAdvance (tag "ext.warnings" readStringList)) []
  let payload ← optRead (hasFlag flags FLAG_CUSTOM_PAYLOAD) (readThenAdvance (tag "ext.payload" readBytesMap))
  pure ⟨trace, warnings, payload⟩

/-- Second stage of a Rows result: `deserialize_metadata`, then the raw rows. -/
structure RowsStage where
  dm : Outcome DeserRows
  rows : List (List (Option Bytes))
  rowErr : Option (Nat × Nat × String)
  deriving Repr

/-- Rows with no column are not bounded by the input (each costs no byte); the harness stops after this many. -/
def ZERO_COL_ROW_CAP : Nat := 1000

def rowsStage (r : RawRows) (cached : Option ResultMeta) (s : St) : RowsStage × St :=
  match deserMetadata r cached s with
  | (.err k, s') => (⟨.err k, [], none⟩, s')
  | (.panic k, s') => (⟨.panic k, [], none⟩, s')
  | (.ok d, s') =>
    let ncols := d.rmeta.cols.length
    let n := if ncols = 0 then min d.rowsCount ZERO_COL_ROW_CAP else d.rowsCount
    let (rows, e) := readRows ncols n 0 d.rawRows
    (⟨.ok d, rows, e⟩, s')

structure Decoded where
  hdr : Header
  ext : Ext
  resp : Response
  rowsStage : Option RowsStage
  deriving Repr

/-- Decoding of an already delimited and decompressed body. -/
def decodeBody (f : Features) (cached : Option ResultMeta) (h : Header) (body : Bytes)
    (uni : List (Bytes × UCls) := []) : Outcome Decoded × St :=
  match parseExt h.flags { buf := body, uni := uni } with
  | (.err k, s) => (.err k, s)
  | (.panic k, s) => (.panic k, s)
  | (.ok ext, s) =>
    match deserResponse f h.opcode s with
    | (.err k, s') => (.err k, s')
    | (.panic k, s') => (.panic k, s')
    | (.ok resp, s') =>
      match resp with
      | .result (.rows r) =>
        let (rs, s'') := rowsStage r cached s'
        (.ok ⟨h, ext, resp, some rs⟩, s'')
      | _ => (.ok ⟨h, ext, resp, none⟩, s')

/-- The guard in front of `lz4_flex::decompress` (`frame/mod.rs` `decompress`, fix bd65dae): the body must carry the
4-byte big-endian uncompressed size, and that size must not exceed `255 * compressed_len + 64`. -/
def lz4Guard (body : Bytes) : Bool :=
  body.length ≥ 4 ∧ beNat (body.take 4) ≤ 255 * (body.length - 4) + 64

/-- `decompress(body, Lz4)` (`frame/mod.rs`): the size guard, then `lz4_flex::decompress(comp_body, uncomp_len)`,
an external crate (`ext` = its block decoder) that decodes into a buffer of `uncomp_len` bytes and truncates it to
what was produced — so it never returns more than the declared size. -/
def lz4Decomp (ext : Bytes → Option Bytes) (body : Bytes) : Option Bytes :=
  if lz4Guard body then (ext (body.drop 4)).filter (fun out => out.length ≤ beNat (body.take 4)) else none

/-- `snap::bytes::read_varu64` (snap 1.1.2 `varint.rs`): little-endian base-128, `(0, 0)` when the input ends inside
the integer or a shift reaches 64 (`checked_shl` tests the shift amount only; shifted-out bits are dropped). -/
def readVaru64 : Bytes → (n shift i : Nat) → Nat × Nat
  | [], _, _, _ => (0, 0)
  | b :: rest, n, shift, i =>
    if b < 0x80 then
      if shift ≥ 64 then (0, 0) else (n ||| ((b.toNat <<< shift) % 2 ^ 64), i + 1)
    else
      if shift ≥ 64 then (0, 0) else readVaru64 rest (n ||| (((b.toNat &&& 0x7f) <<< shift) % 2 ^ 64)) (shift + 7) (i + 1)

/-- `snap::raw::decompress_len`: 0 for an empty input, else the header's varint (at most 5 bytes, at most `u32::MAX`). -/
def snappyLen (body : Bytes) : Option Nat :=
  if body.isEmpty then some 0
  else
    let r := readVaru64 body 0 0 0
    if r.2 = 0 ∨ r.2 > 5 then none
    else if r.1 > 0xFFFFFFFF then none
    else some r.1

/-- The guard in front of `snap::raw::Decoder::decompress_vec` (`frame/mod.rs` `decompress`, fix bd65dae): the declared
size must not exceed `64 * compressed_len + 64` (the length is taken over the WHOLE body, preamble included). -/
def snappyGuard (body : Bytes) : Bool :=
  match snappyLen body with
  | some n => n ≤ 64 * body.length + 64
  | none => false

/-- `decompress(body, Snappy)`: the guard, then `decompress_vec` (external: `ext`), which allocates
`vec![0; decompress_len]`, decodes into it and truncates to what was produced — never more than declared. -/
def snappyDecomp (ext : Bytes → Option Bytes) (body : Bytes) : Option Bytes :=
  if snappyGuard body then (ext body).filter (fun out => out.length ≤ (snappyLen body).getD 0) else none

/-- The whole pipeline on the bytes of one frame.  `decomp` is the negotiated decompressor (LZ4 / Snappy are
external crates: a parameter of the model, fuzzed by the harness), `none` when no compression was negotiated;
`uni` is the class table of non-ASCII scalars (parameter, see TypeParser.lean). -/
def decode (f : Features) (cached : Option ResultMeta) (decomp : Option (Bytes → Option Bytes)) (bs : Bytes)
    (uni : List (Bytes × UCls) := []) : Outcome Decoded × St :=
  match parseFrame bs with
  | .error k => (.err k, { buf := bs })
  | .ok h =>
    if hasFlag h.flags FLAG_COMPRESSION then
      match decomp with
      | none => (.err "ext.nocompression", { buf := h.body })
      | some d =>
        match d h.body with
        | none => (.err "ext.decompress", { buf := h.body })
        | some body => decodeBody f cached h body uni
    else decodeBody f cached h h.body uni

end ScyllaVerif.C08

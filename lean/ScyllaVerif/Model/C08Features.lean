import ScyllaVerif.Model.Response
/-
C08 — model of `ProtocolFeatures::parse_from_supported` (`scylla-cql-core/src/frame/protocol_features.rs`): what the
driver negotiates from the option map of the SUPPORTED response, read when every connection opens.

* `SCYLLA_RATE_LIMIT_ERROR`: the FIRST field of its value list that starts with `ERROR_CODE=`; the rest of that field
  parsed with `str::parse::<i32>` (optional `+` / `-`, at least one ASCII digit, nothing else, in range); a failed
  parse of that first field is "not negotiated" (later fields are not tried).
* `SCYLLA_LWT_ADD_METADATA_MARK`: likewise with `LWT_OPTIMIZATION_META_BIT_MASK=` and `parse::<u32>` (optional `+`,
  no `-`).
* `TABLETS_ROUTING_V1`, `SCYLLA_USE_METADATA_ID`: presence of the key.
* The option map is a `HashMap` filled in wire order: the LAST entry of a repeated key is the one seen.

The code has no partial operation of its own (`strip_prefix` returns an `Option`); `str::strip_prefix` itself is
`starts_with` followed by an unchecked slice at `prefix.len()`.  The model keeps that slice as a panic site behind the
`starts_with` test (`stripPrefixP`): it is the operation a rewrite that slices by hand (`&rest[1..]`,
`&v[key.len() + 1..]`) reaches with a bare key, and what `no_panic_features` shows unreachable here.
-/
namespace ScyllaVerif.C08F
open ScyllaVerif ScyllaVerif.C08

inductive FOut (α : Type) where
  | ok (a : α)
  | panic (site : String)
  deriving Repr

/-- `str::strip_prefix(prefix)`: `None`, or the rest behind the prefix. -/
def stripPrefixP (pre s : Bytes) : FOut (Option Bytes) :=
  if s.take pre.length = pre then
    if pre.length > s.length then .panic "strip_prefix: slice start out of range"
    else .ok (some (s.drop pre.length))
  else .ok none

/-- `v.strip_prefix(key)?.strip_prefix('=')` -/
def fieldRest (key v : Bytes) : FOut (Option Bytes) :=
  match stripPrefixP key v with
  | .panic s => .panic s
  | .ok none => .ok none
  | .ok (some rest) => stripPrefixP [0x3D] rest

/-- `vals.iter().find_map(..)`: the first field that has the form `key=…`. -/
def getField (key : Bytes) : List Bytes → FOut (Option Bytes)
  | [] => .ok none
  | v :: vs =>
    match fieldRest key v with
    | .panic s => .panic s
    | .ok (some r) => .ok (some r)
    | .ok none => getField key vs

def allDigits (bs : Bytes) : Bool := bs.all isDigit
def digitsNat (bs : Bytes) : Nat := bs.foldl (fun acc b => 10 * acc + (b.toNat - 0x30)) 0

/-- `str::parse::<i32>`: `[+-]?[0-9]+`, value in `i32`. -/
def parseI32 (bs : Bytes) : Option Int :=
  let (neg, ds) := match bs with
    | 0x2B :: r => (false, r)
    | 0x2D :: r => (true, r)
    | r => (false, r)
  if ds.isEmpty ∨ !allDigits ds then none
  else
    let v : Int := if neg then - (digitsNat ds : Int) else (digitsNat ds : Int)
    if v < -2147483648 ∨ v > 2147483647 then none else some v

/-- `str::parse::<u32>`: `[+]?[0-9]+`, value in `u32` (a `-` is an invalid digit for an unsigned type). -/
def parseU32 (bs : Bytes) : Option Nat :=
  let ds := match bs with
    | 0x2B :: r => r
    | r => r
  if ds.isEmpty ∨ !allDigits ds then none
  else if digitsNat ds > 4294967295 then none else some (digitsNat ds)

/-- `HashMap::get` after inserting the entries in wire order. -/
def lookupLast (key : Bytes) (opts : List (Bytes × List Bytes)) : Option (List Bytes) :=
  (opts.reverse.find? (fun p => p.1 == key)).map (·.2)

structure Feats where
  rateLimit : Option Int
  lwtMask : Option Nat
  tablets : Bool
  metadataId : Bool
  deriving Repr

def K_RATE : Bytes := asciiBytes "SCYLLA_RATE_LIMIT_ERROR"
def K_LWT : Bytes := asciiBytes "SCYLLA_LWT_ADD_METADATA_MARK"
def K_TABLETS : Bytes := asciiBytes "TABLETS_ROUTING_V1"
def K_MID : Bytes := asciiBytes "SCYLLA_USE_METADATA_ID"
def F_CODE : Bytes := asciiBytes "ERROR_CODE"
def F_MASK : Bytes := asciiBytes "LWT_OPTIMIZATION_META_BIT_MASK"

def extField (ext field : Bytes) (opts : List (Bytes × List Bytes)) : FOut (Option Bytes) :=
  match lookupLast ext opts with
  | none => .ok none
  | some vals => getField field vals

/-- `ProtocolFeatures::parse_from_supported`. -/
def parseFromSupported (opts : List (Bytes × List Bytes)) : FOut Feats :=
  match extField K_RATE F_CODE opts with
  | .panic s => .panic s
  | .ok rl =>
    match extField K_LWT F_MASK opts with
    | .panic s => .panic s
    | .ok lwt =>
      .ok { rateLimit := rl.bind parseI32, lwtMask := lwt.bind parseU32,
            tablets := (lookupLast K_TABLETS opts).isSome, metadataId := (lookupLast K_MID opts).isSome }

end ScyllaVerif.C08F

import ScyllaVerif.Model.Vint
import ScyllaVerif.Model.Cql
/-
The CQL binary protocol v4 encoding of values, written from the protocol text (native_protocol_v4.spec
§3 `[bytes]`/`[value]`, §6 "Data Type Serialization Formats", §6.x of v5 for `duration` and Cassandra's
`VectorType` for vectors) — *independently of the implementation model* `Model/Codec.lean`: no `viewOf`,
no `lookupLast` / `removeName`, no buffer, no error kinds, its own arithmetic vint and zig-zag and its own
fixed-width table.  Core Lean only; imports only the big-endian helper `beBytes` and the value types.

  §3   [bytes]   a 4-byte signed length n, then n bytes if n ≥ 0; n = -1 null, n = -2 not set
  §6.1 ascii / §6.18 varchar  the bytes of the string            §6.3 blob      the bytes
  §6.2 bigint   8-byte two's complement      §6.4 boolean  1 byte 0 / 1      §6.5 date   4-byte unsigned, epoch at 2^31
  §6.6 decimal  4-byte scale ++ varint unscaled value           §6.7 double 8 bytes IEEE 754   §6.8 float 4 bytes
  §6.9 inet     4 or 16 bytes                §6.10 int 4 bytes   §6.11 list  [int n] then n [bytes]
  §6.12 map     [int n] then n × ([bytes] key, [bytes] value)    §6.13 set   as list   §6.14 smallint 2 bytes
  §6.15 time    8-byte nanoseconds           §6.16 timestamp 8-byte millis   §6.17 timeuuid / uuid 16 bytes
  §6.19 varint  two's complement, variable length                §6.20 tinyint 1 byte   counter as bigint
  §6.21 tuple   the fields as [bytes], a prefix of them may be given        UDT   one [bytes] per field, in the
        order of the type's definition (absent ↦ null)
  duration      three signed vints (zig-zag, then unsigned vint): months, days, nanoseconds
  vector        fixed-width element types: the element contents back to back; otherwise per element an
                unsigned vint length followed by the content
  the legacy *empty* value: a zero-length [bytes]
-/
namespace ScyllaVerif.CqlSpec
open ScyllaVerif.Vint ScyllaVerif.Cql

/-- Number of extra bytes of an unsigned vint: 7 payload bits in the first byte, then 8 per extra byte. -/
def uvintExtra (v : Nat) : Nat :=
  if v < 2 ^ 7 then 0 else if v < 2 ^ 14 then 1 else if v < 2 ^ 21 then 2 else if v < 2 ^ 28 then 3
  else if v < 2 ^ 35 then 4 else if v < 2 ^ 42 then 5 else if v < 2 ^ 49 then 6 else if v < 2 ^ 56 then 7 else 8

/-- Unsigned vint: the first byte has `e` leading one bits (`e` = number of extra bytes), a zero bit, then
the high bits of the value; `e` big-endian bytes follow (9-byte form: `0xff` then 8 bytes). -/
def uvintSpec (v : Nat) : Bytes :=
  let e := uvintExtra v
  if e = 0 then [UInt8.ofNat v]
  else if e = 8 then 0xff :: beBytes 8 v
  else UInt8.ofNat (256 - 2 ^ (8 - e) + v / 2 ^ (8 * e)) :: beBytes e v

/-- Zig-zag: 0, -1, 1, -2, 2 … ↦ 0, 1, 2, 3, 4 … -/
def zigzagSpec (x : Int) : Nat := if 0 ≤ x then (2 * x).toNat else (-2 * x - 1).toNat

/-- Signed vint of an `n`-bit two's complement number. -/
def svintSpec {n : Nat} (x : BitVec n) : Bytes := uvintSpec (zigzagSpec x.toInt)

/-- §6: content of a non-null native value (`none`: not a value of that type). -/
def specNative : NativeTy → CqlVal → Option Bytes
  | .ascii, .ascii s => some s
  | .ascii, .text s => some s
  | .text, .text s => some s
  | .text, .ascii s => some s
  | .blob, .blob b => some b
  | .boolean, .boolean b => some [if b then 1 else 0]
  | .tinyint, .tinyint x => some (beBytes 1 x.toNat)
  | .smallint, .smallint x => some (beBytes 2 x.toNat)
  | .int, .int x => some (beBytes 4 x.toNat)
  | .bigint, .bigint x => some (beBytes 8 x.toNat)
  | .counter, .counter x => some (beBytes 8 x.toNat)
  | .float, .float x => some (beBytes 4 x.toNat)
  | .double, .double x => some (beBytes 8 x.toNat)
  | .date, .date x => some (beBytes 4 x.toNat)
  | .time, .time x => some (beBytes 8 x.toNat)
  | .timestamp, .timestamp x => some (beBytes 8 x.toNat)
  | .timeuuid, .timeuuid x => some (beBytes 16 x.toNat)
  | .uuid, .uuid x => some (beBytes 16 x.toNat)
  | .inet, .inet4 a => some (beBytes 4 a.toNat)
  | .inet, .inet6 a => some (beBytes 16 a.toNat)
  | .varint, .varint b => some b
  | .decimal, .decimal scale b => some (beBytes 4 scale.toNat ++ b)
  | .duration, .duration m d n => some (svintSpec m ++ svintSpec d ++ svintSpec n)
  | _, _ => none

/-- Element types stored without a length inside a vector, with their width. -/
def fixedWidth : CqlTy → Option Nat
  | .native .boolean => some 1
  | .native .int => some 4
  | .native .float => some 4
  | .native .bigint => some 8
  | .native .double => some 8
  | .native .timestamp => some 8
  | .native .uuid => some 16
  | .native .timeuuid => some 16
  | .vector t dim => match fixedWidth t with
    | some w => some (w * dim)
    | none => none
  | _ => none

/-- `[bytes]` around a content. -/
def bytesOf (content : Bytes) : Bytes := beBytes 4 content.length ++ content

/-- Concatenation of optional encodings (all must exist). -/
def catOpt {α : Type} (f : α → Option Bytes) : List α → Option Bytes
  | [] => some []
  | x :: xs =>
    match f x, catOpt f xs with
    | some a, some r => some (a ++ r)
    | _, _ => none

/-- One map entry: key `[bytes]` then value `[bytes]`. -/
def pairCell (fk fv : CqlVal → Option Bytes) (kv : CqlVal × CqlVal) : Option Bytes :=
  match fk kv.1, fv kv.2 with
  | some a, some b => some (a ++ b)
  | _, _ => none

/-- Vector content: element contents back to back (fixed width), else each preceded by its vint length. -/
def vectorBody (fb : CqlVal → Option Bytes) (fixed : Bool) (vs : List CqlVal) : Option Bytes :=
  if fixed then catOpt fb vs else catOpt (fun x => (fb x).map (fun b => uvintSpec b.length ++ b)) vs

/-- The value of field `n` of a UDT value: its (last) entry with that name, else null. -/
def fieldOf (n : String) (m : List (String × CqlVal)) : CqlVal :=
  match (m.filter (fun p => p.1 == n)).getLast? with
  | some p => p.2
  | none => .null

/-- The elements of a list / set / vector value (the column type dictates which of the three it is). -/
def elemsOf : CqlVal → Option (List CqlVal)
  | .list vs => some vs
  | .set vs => some vs
  | .vector vs => some vs
  | _ => none

mutual
/-- Content of a non-null value at a type. -/
def specBody : CqlTy → CqlVal → Option Bytes
  | t, v =>
    match v with
    | .null => none
    | .unset => none
    | .empty => some []
    | _ =>
      match t with
      | .native n => specNative n v
      | .list elt => match elemsOf v with
        | some vs => (catOpt (fun x => specCell elt x) vs).map (fun cells => beBytes 4 vs.length ++ cells)
        | none => none
      | .set elt => match elemsOf v with
        | some vs => (catOpt (fun x => specCell elt x) vs).map (fun cells => beBytes 4 vs.length ++ cells)
        | none => none
      | .map kt vt => match v with
        | .map kvs =>
          (catOpt (pairCell (fun k => specCell kt k) (fun x => specCell vt x)) kvs).map
            (fun cells => beBytes 4 kvs.length ++ cells)
        | _ => none
      | .vector elt dim => match elemsOf v with
        | some vs =>
          if vs.length = dim then vectorBody (fun x => specBody elt x) (fixedWidth elt).isSome vs else none
        | none => none
      | .tuple ts => match v with
        | .tuple fs => if fs.length ≤ ts.length then specTuple ts fs else none
        | _ => none
      | .udt _ _ fields => match v with
        | .udt _ _ m => specUdt fields m
        | _ => none
/-- `[bytes]` of a value: `-1` for null, `-2` for not-set, else length and content. -/
def specCell : CqlTy → CqlVal → Option Bytes
  | t, v =>
    match v with
    | .null => some [0xff, 0xff, 0xff, 0xff]
    | .unset => some [0xff, 0xff, 0xff, 0xfe]
    | _ => (specBody t v).map bytesOf
/-- The given fields of a tuple, in order. -/
def specTuple : List CqlTy → List CqlVal → Option Bytes
  | t :: ts, f :: fs =>
    match specCell t f, specTuple ts fs with
    | some a, some r => some (a ++ r)
    | _, _ => none
  | _, _ => some []
/-- One `[bytes]` per field of the type, in the type's order. -/
def specUdt : List (String × CqlTy) → List (String × CqlVal) → Option Bytes
  | [], _ => some []
  | (n, t) :: rest, m =>
    match specCell t (fieldOf n m), specUdt rest m with
    | some a, some r => some (a ++ r)
    | _, _ => none
end

mutual
/-- A type whose UDTs have pairwise distinct field names (every CQL type). -/
def wfTy : CqlTy → Bool
  | .native _ => true
  | .list e => wfTy e
  | .set e => wfTy e
  | .map k v => wfTy k && wfTy v
  | .vector e _ => wfTy e
  | .tuple ts => wfTys ts
  | .udt _ _ fields => decide ((fields.map (·.1)).Nodup) && wfFields fields
def wfTys : List CqlTy → Bool
  | [] => true
  | t :: ts => wfTy t && wfTys ts
def wfFields : List (String × CqlTy) → Bool
  | [] => true
  | (_, t) :: r => wfTy t && wfFields r
end

end ScyllaVerif.CqlSpec

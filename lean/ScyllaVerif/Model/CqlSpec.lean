import ScyllaVerif.Model.Vint
import ScyllaVerif.Model.Cql
/-
The CQL binary protocol v4 encoding of values, written from the protocol text (native_protocol_v4.spec
§3 `[bytes]`/`[value]`, §6 "Data Type Serialization Formats", §6.x of v5 for `duration` and Cassandra's
`VectorType` for vectors) — *independently of the implementation model* `Model/Codec.lean`: no `viewOf`,
no `lookupLast` / `removeName`, no buffer, no error kinds, its own arithmetic vint and zig-zag and its own
fixed-width table.  Provenance: §3 / §6 of the v4 text by reading; `duration` from the v5 text; the vector
format and `fixedWidth` are not in either text — they follow Cassandra's `VectorType` as reflected by the
driver's `type_size_for_vector` (so for vectors this file is only as independent as that table).  Core Lean only; imports only the big-endian helper `beBytes` and the value types.

  §3   [bytes]   a 4-byte signed length n, then n bytes if n ≥ 0; n = -1 null, n = -2 not set
  §6.1 ascii / §6.18 varchar  the bytes of the string            §6.3 blob      the bytes
  §6.2 bigint   8-byte two's complement      §6.4 boolean  1 byte 0 / 1      §6.5 date   4-byte unsigned, epoch at 2^31
  §6.6 decimal  4-byte scale ++ varint unscaled value           §6.7 double 8 bytes IEEE 754   §6.8 float 4 bytes
  §6.9 inet     4 or 16 bytes                §6.10 int 4 bytes   §6.11 list  [int n] then n [bytes]
  §6.12 map     [int n] then n × ([bytes] key, [bytes] value)    §6.13 set   as list   §6.14 smallint 2 bytes
  §6.15 time    8-byte nanoseconds           §6.16 timestamp 8-byte millis   §6.17 timeuuid / uuid 16 bytes
  §6.19 varint  two's complement, variable length                §6.20 tinyint 1 byte   counter as bigint
  §6.21 tuple   the fields as [bytes], a prefix of them may be given        UDT   one [bytes] per field, in the
        order of the type's definition (absent ↦ null)
  duration      three signed vints (zig-zag, then unsigned vint): months, days, nanoseconds
  vector        fixed-width element types: the element contents back to back; otherwise per element an
                unsigned vint length followed by the content
  the legacy *empty* value: a zero-length [bytes]
-/
namespace ScyllaVerif.CqlSpec
open ScyllaVerif.Vint ScyllaVerif.Cql

/-- Number of extra bytes of an unsigned vint: 7 payload bits in the first byte, then 8 per extra byte. -/
def uvintExtra (v : Nat) : Nat :=
  if v < 2 ^ 7 then 0 else if v < 2 ^ 14 then 1 else if v < 2 ^ 21 then 2 else if v < 2 ^ 28 then 3
  else if v < 2 ^ 35 then 4 else if v < 2 ^ 42 then 5 else if v < 2 ^ 49 then 6 else if v < 2 ^ 56 then 7 else 8

/-- Unsigned vint: the first byte has `e` leading one bits (`e` = number of extra bytes), a zero bit, then
the high bits of the value; `e` big-endian bytes follow (9-byte form: `0xff` then 8 bytes). -/
def uvintSpec (v : Nat) : Bytes :=
  let e := uvintExtra v
  if e = 0 then [UInt8.ofNat v]
  else if e = 8 then 0xff :: beBytes 8 v
  else UInt8.ofNat (256 - 2 ^ (8 - e) + v / 2 ^ (8 * e)) :: beBytes e v

/-- Zig-zag: 0, -1, 1, -2, 2 … ↦ 0, 1, 2, 3, 4 … -/
def zigzagSpec (x : Int) : Nat := if 0 ≤ x then (2 * x).toNat else (-2 * x - 1).toNat

/-- Signed vint of an `n`-bit two's complement number. -/
def svintSpec {n : Nat} (x : BitVec n) : Bytes := uvintSpec (zigzagSpec x.toInt)

/-- §6: content of a non-null native value (`none`: not a value of that type). -/
def specNative : NativeTy → CqlVal → Option Bytes
  | .ascii, .ascii s => some s
  | .ascii, .text s => some s
  | .text, .text s => some s
  | .text, .ascii s => some s
  | .blob, .blob b => some b
  | .boolean, .boolean b => some [if b then 1 else 0]
  | .tinyint, .tinyint x => some (beBytes 1 x.toNat)
  | .smallint, .smallint x => some (beBytes 2 x.toNat)
  | .int, .int x => some (beBytes 4 x.toNat)
  | .bigint, .bigint x => some (beBytes 8 x.toNat)
  | .counter, .counter x => some (beBytes 8 x.toNat)
  | .float, .float x => some (beBytes 4 x.toNat)
  | .double, .double x => some (beBytes 8 x.toNat)
  | .date, .date x => some (beBytes 4 x.toNat)
  | .time, .time x => some (beBytes 8 x.toNat)
  | .timestamp, .timestamp x => some (beBytes 8 x.toNat)
  | .timeuuid, .timeuuid x => some (beBytes 16 x.toNat)
  | .uuid, .uuid x => some (beBytes 16 x.toNat)
  | .inet, .inet4 a => some (beBytes 4 a.toNat)
  | .inet, .inet6 a => some (beBytes 16 a.toNat)
  | .varint, .varint b => some b
  | .decimal, .decimal scale b => some (beBytes 4 scale.toNat ++ b)
  | .duration, .duration m d n => some (svintSpec m ++ svintSpec d ++ svintSpec n)
  | _, _ => none

/-- Element types stored without a length inside a vector, with their width. -/
def fixedWidth : CqlTy → Option Nat
  | .native .boolean => some 1
  | .native .int => some 4
  | .native .float => some 4
  | .native .bigint => some 8
  | .native .double => some 8
  | .native .timestamp => some 8
  | .native .uuid => some 16
  | .native .timeuuid => some 16
  | .vector t dim => match fixedWidth t with
    | some w => some (w * dim)
    | none => none
  | _ => none

/-- `[bytes]` around a content. -/
def bytesOf (content : Bytes) : Bytes := beBytes 4 content.length ++ content

/-- Concatenation of optional encodings (all must exist). -/
def catOpt {α : Type} (f : α → Option Bytes) : List α → Option Bytes
  | [] => some []
  | x :: xs =>
    match f x, catOpt f xs with
    | some a, some r => some (a ++ r)
    | _, _ => none

/-- One map entry: key `[bytes]` then value `[bytes]`. -/
def pairCell (fk fv : CqlVal → Option Bytes) (kv : CqlVal × CqlVal) : Option Bytes :=
  match fk kv.1, fv kv.2 with
  | some a, some b => some (a ++ b)
  | _, _ => none

/-- Vector content: element contents back to back (fixed width), else each preceded by its vint length. -/
def vectorBody (fb : CqlVal → Option Bytes) (fixed : Bool) (vs : List CqlVal) : Option Bytes :=
  if fixed then catOpt fb vs else catOpt (fun x => (fb x).map (fun b => uvintSpec b.length ++ b)) vs

/-- The value of field `n` of a UDT value: its (last) entry with that name, else null. -/
def fieldOf (n : String) (m : List (String × CqlVal)) : CqlVal :=
  match (m.filter (fun p => p.1 == n)).getLast? with
  | some p => p.2
  | none => .null

/-- The elements of a list / set / vector value (the column type dictates which of the three it is). -/
def elemsOf : CqlVal → Option (List CqlVal)
  | .list vs => some vs
  | .set vs => some vs
  | .vector vs => some vs
  | _ => none

mutual
/-- Byte layout of the content of a non-null value at a type (which values ARE values of the type is
`valOk` below; the protocol encoding `specCell` is the layout of a value of the type). -/
def layoutBody : CqlTy → CqlVal → Option Bytes
  | t, v =>
    match v with
    | .null => none
    | .unset => none
    | .empty => some []
    | _ =>
      match t with
      | .native n => specNative n v
      | .list elt => match elemsOf v with
        | some vs => (catOpt (fun x => layoutCell elt x) vs).map (fun cells => beBytes 4 vs.length ++ cells)
        | none => none
      | .set elt => match elemsOf v with
        | some vs => (catOpt (fun x => layoutCell elt x) vs).map (fun cells => beBytes 4 vs.length ++ cells)
        | none => none
      | .map kt vt => match v with
        | .map kvs =>
          (catOpt (pairCell (fun k => layoutCell kt k) (fun x => layoutCell vt x)) kvs).map
            (fun cells => beBytes 4 kvs.length ++ cells)
        | _ => none
      | .vector elt dim => match elemsOf v with
        | some vs =>
          if vs.length = dim then vectorBody (fun x => layoutBody elt x) (fixedWidth elt).isSome vs else none
        | none => none
      | .tuple ts => match v with
        | .tuple fs => if fs.length ≤ ts.length then layoutTuple ts fs else none
        | _ => none
      | .udt _ _ fields => match v with
        | .udt _ _ m => layoutUdt fields m
        | _ => none
/-- `[bytes]` of a value: `-1` for null, `-2` for not-set, else length and content. -/
def layoutCell : CqlTy → CqlVal → Option Bytes
  | t, v =>
    match v with
    | .null => some [0xff, 0xff, 0xff, 0xff]
    | .unset => some [0xff, 0xff, 0xff, 0xfe]
    | _ => (layoutBody t v).map bytesOf
/-- The given fields of a tuple, in order. -/
def layoutTuple : List CqlTy → List CqlVal → Option Bytes
  | t :: ts, f :: fs =>
    match layoutCell t f, layoutTuple ts fs with
    | some a, some r => some (a ++ r)
    | _, _ => none
  | _, _ => some []
/-- One `[bytes]` per field of the type, in the type's order. -/
def layoutUdt : List (String × CqlTy) → List (String × CqlVal) → Option Bytes
  | [], _ => some []
  | (n, t) :: rest, m =>
    match layoutCell t (fieldOf n m), layoutUdt rest m with
    | some a, some r => some (a ++ r)
    | _, _ => none
end

/-! ### the value space: which `CqlVal`s are values of a CQL type

The layout above says where the bytes go; this says what the protocol admits.  The legacy *empty*
(zero-length) value exists for the natives other than counter and duration (for ascii / text / blob it is the
empty string); an ascii string is 7-bit; `time` is nanoseconds within one day; a varint has at least one
byte; a fixed-width vector element has exactly the width of its type (so it cannot be *empty*) and no vector
element is null / not-set; a tuple value gives at least one and at most all of the fields (a zero-field tuple
value would be the zero-length cell, i.e. the *empty* value); a UDT value names only fields of the type. -/

def canBeEmpty : CqlTy → Bool
  | .native .counter => false
  | .native .duration => false
  | .native _ => true
  | _ => false

def nativeOk : NativeTy → CqlVal → Bool
  | .ascii, .ascii s => s.all (fun b => b < 128)
  | .ascii, .text s => s.all (fun b => b < 128)
  | .time, .time x => decide (x.toNat ≤ 86399999999999)
  | .varint, .varint b => !b.isEmpty
  | n, v => (specNative n v).isSome

def isNullish : CqlVal → Bool
  | .null => true
  | .unset => true
  | _ => false

mutual
/-- `v` is a (non-null) value of type `t`. -/
def valOk : CqlTy → CqlVal → Bool
  | t, v =>
    match v with
    | .null => false
    | .unset => false
    | .empty => canBeEmpty t
    | _ =>
      match t with
      | .native n => nativeOk n v
      | .list elt => match elemsOf v with
        | some vs => vs.all (fun x => isNullish x || valOk elt x)
        | none => false
      | .set elt => match elemsOf v with
        | some vs => vs.all (fun x => isNullish x || valOk elt x)
        | none => false
      | .map kt vt => match v with
        | .map kvs => kvs.all (fun kv => (isNullish kv.1 || valOk kt kv.1) && (isNullish kv.2 || valOk vt kv.2))
        | _ => false
      | .vector elt dim => match elemsOf v with
        | some vs =>
          decide (vs.length = dim) && vs.all (fun x => valOk elt x) &&
            (match fixedWidth elt with
             | some w => vs.all (fun x => match layoutBody elt x with
                 | some b => decide (b.length = w)
                 | none => false)
             | none => true)
        | none => false
      | .tuple ts => match v with
        | .tuple fs => !fs.isEmpty && decide (fs.length ≤ ts.length) && tupleOk ts fs
        | _ => false
      | .udt _ _ fields => match v with
        | .udt _ _ m => m.all (fun p => fields.any (fun f => f.1 == p.1)) && udtOk fields m
        | _ => false
def tupleOk : List CqlTy → List CqlVal → Bool
  | t :: ts, f :: fs => (isNullish f || valOk t f) && tupleOk ts fs
  | _, _ => true
def udtOk : List (String × CqlTy) → List (String × CqlVal) → Bool
  | [], _ => true
  | (n, t) :: rest, m => (isNullish (fieldOf n m) || valOk t (fieldOf n m)) && udtOk rest m
end

/-- `v` may stand in a `[bytes]` position of type `t`: null, not-set, or a value of the type. -/
def cellOk (t : CqlTy) (v : CqlVal) : Bool := isNullish v || valOk t v

/-- **The CQL v4 encoding** of `v` at type `t` as a `[bytes]`: defined exactly for null, not-set and the
values of the type. -/
def specCell (t : CqlTy) (v : CqlVal) : Option Bytes := if cellOk t v then layoutCell t v else none

/-- The content of a value of the type. -/
def specBody (t : CqlTy) (v : CqlVal) : Option Bytes := if valOk t v then layoutBody t v else none

mutual
/-- A type whose UDTs have pairwise distinct field names (every CQL type). -/
def wfTy : CqlTy → Bool
  | .native _ => true
  | .list e => wfTy e
  | .set e => wfTy e
  | .map k v => wfTy k && wfTy v
  | .vector e _ => wfTy e
  | .tuple ts => wfTys ts
  | .udt _ _ fields => decide ((fields.map (·.1)).Nodup) && wfFields fields
def wfTys : List CqlTy → Bool
  | [] => true
  | t :: ts => wfTy t && wfTys ts
def wfFields : List (String × CqlTy) → Bool
  | [] => true
  | (_, t) :: r => wfTy t && wfFields r
end

end ScyllaVerif.CqlSpec

import ScyllaVerif.Model.PartitionKey
/-
C03: the serialized form of the bound values and the iterator `PartitionKey::new` walks.

* `encodeCell` / `encodeValues` ← `SerializedValues` buffer (`scylla-cql-core/src/serialize/row.rs`): per value a
  `[value]` = `i32` length + bytes, `-1` = NULL, `-2` = "not set".
* `readInt`, `readValue` ← `frame/types.rs` `read_int`, `read_value` (242-253).
* `next`       ← `SerializedValuesIterator::next` (row.rs:655-661): `None` on an empty buffer, else
  `read_value(..).expect("badly encoded value")` (a malformed buffer is a panic).
* `nth`        ← `Iterator::nth` (the default: `n` times `next()?`, then `next()`), which `PartitionKey::new` calls.
* `extractBufLoop` / `extractBuf` ← `PartitionKey::new` (`prepared.rs:782-814`) on the buffer, with `values_iter.nth(..)`
  in place of the list model's `iter.drop (..)`.
-/
namespace ScyllaVerif.SerializedValuesC03
open ScyllaVerif.PartitionKey

/-- Big-endian `i32` of a natural below `2^32` (the bit pattern). -/
def be32 (n : Nat) : List UInt8 :=
  [UInt8.ofNat (n / 16777216 % 256), UInt8.ofNat (n / 65536 % 256), UInt8.ofNat (n / 256 % 256), UInt8.ofNat (n % 256)]

def encodeCell : RawValue → List UInt8
  | .null => be32 4294967295          -- -1
  | .unset => be32 4294967294         -- -2
  | .value bs => be32 bs.length ++ bs

def encodeValues (vs : List RawValue) : List UInt8 := (vs.map encodeCell).flatten

/-- `read_int`: the `u32` bit pattern of the next 4 bytes. -/
def readInt : List UInt8 → Option (Nat × List UInt8)
  | a :: b :: c :: d :: rest => some (a.toNat * 16777216 + b.toNat * 65536 + c.toNat * 256 + d.toNat, rest)
  | _ => none

inductive Next where
  /-- `None` -/
  | done
  | item (v : RawValue) (rest : List UInt8)
  /-- `.expect("badly encoded value")` -/
  | panic
  deriving Repr, DecidableEq

/-- `read_value` under `expect`. -/
def readValue (buf : List UInt8) : Next :=
  match readInt buf with
  | none => .panic
  | some (len, rest) =>
    if len = 4294967294 then .item .unset rest
    else if len = 4294967295 then .item .null rest
    else if len < 2147483648 then
      (if len ≤ rest.length then .item (.value (rest.take len)) (rest.drop len) else .panic)
    else .panic

/-- `SerializedValuesIterator::next`. -/
def next (buf : List UInt8) : Next :=
  if buf.isEmpty then .done else readValue buf

/-- `Iterator::nth(n)`: skip `n` items, return the next one. -/
def nth : Nat → List UInt8 → Next
  | 0, buf => next buf
  | n + 1, buf =>
    match next buf with
    | .item _ rest => nth n rest
    | .done => .done
    | .panic => .panic

/-- The loop of `PartitionKey::new` on the serialized buffer. -/
def extractBufLoop (count : Nat) :
    List PkIndex → List UInt8 → Nat → List (Option (List UInt8)) → Except ExtractErr (List (Option (List UInt8)))
  | [], _, _, acc => .ok acc
  | p :: ps, buf, off, acc =>
    if p.index < off then .error .panic
    else
      match nth (p.index - off) buf with
      | .done => .error (.noPkIndexValue p.index count)
      | .panic => .error .panic
      | .item v rest =>
        match store acc p.sequence v with
        | none => .error .panic
        | some acc' =>
          if p.index + 1 > 65535 then .error .panic
          else extractBufLoop count ps rest (p.index + 1) acc'

def extractBuf (pk : List PkIndex) (count : Nat) (buf : List UInt8) :
    Except ExtractErr (List (Option (List UInt8))) :=
  extractBufLoop count pk buf 0 (List.replicate pk.length none)

end ScyllaVerif.SerializedValuesC03

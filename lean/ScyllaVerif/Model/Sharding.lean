/-
Model of `scylla/src/routing/sharding.rs` (C11).

* `shardOfImpl`  ← `Sharder::shard_of` (lines 121-130): `u64` wrapping add, `checked_shl(msb_ignore).unwrap_or(0)`
  (a shift by 64 or more bits - `msb_ignore` is a `u8` the server supplies - leaves 0), 128-bit multiply, high word.
* `shardOfSpec`  — the algorithm as the property states it, on unbounded naturals.
* `lowestPort`   ← `calculate_lowest_port_for_shard_in_range` (144-160), incl. the `checked_add` on `u16`.
* `validPorts`   ← `(first_valid_port..=range_end).step_by(nr_shards)`.
* `drawPort`     ← `draw_source_port_for_shard_from_range` (165-188) with the random index as an argument.
* `iterPorts`    ← `iter_source_ports_for_shard_from_range` (207-237) with the random pivot as an argument.
* `parseShardInfo` ← `ShardInfo::try_from` / `ShardInfo::new` (85-103, 286-320) after string → number parsing;
  `parseShardOptions` is the whole `try_from`, key presence and empty value lists included.
-/
namespace ScyllaVerif.Sharding

/-- `Token::new` (`routing/mod.rs:38-43`): `i64::MIN` is normalised to `i64::MAX`. -/
def tokenNew (v : Int64) : Int64 := if v = Int64.minValue then Int64.maxValue else v

/-- `Sharder::shard_of`: the token is an `i64`; everything else is `u64` machine arithmetic, the product
is taken in `u128` (modelled as `Nat`; it cannot overflow 128 bits, see `Props.C11.product_fits_u128`). -/
def shardOfImpl (nrShards : Nat) (msbIgnore : UInt8) (tok : Int64) : Nat :=
  let biased : UInt64 := tok.toUInt64 + ((1 : UInt64) <<< (63 : UInt64))
  -- `checked_shl(msb_ignore as u32).unwrap_or(0)`: `None` exactly when the shift amount is >= 64
  let shifted : UInt64 := if msbIgnore.toNat < 64 then biased <<< msbIgnore.toUInt64 else 0
  (shifted.toNat * nrShards) / 2 ^ 64

/-- ScyllaDB's algorithm as stated in the property: bias by 2^63, shift left by the ignored bits
(dropping what leaves the 64-bit word), multiply by the shard count, take the high 64 bits. -/
def shardOfSpec (nrShards msbIgnore : Nat) (tok : Int) : Nat :=
  (((tok + 2 ^ 63).toNat * 2 ^ msbIgnore) % 2 ^ 64 * nrShards) / 2 ^ 64

/-- `shard_of_source_port`. -/
def shardOfPort (nrShards port : Nat) : Nat := port % nrShards

/-- `calculate_lowest_port_for_shard_in_range`; ports are `u16`, so `lo + offset` above 65535 is `None`. -/
def lowestPort (n s lo hi : Nat) : Option Nat :=
  let shardForFirst := lo % n
  let offset := (n - shardForFirst + s) % n
  let first := lo + offset
  if first > 65535 then none
  else if first ≤ hi then some first else none

/-- `(first..=hi).step_by(n)` as a list (`ExactSizeIterator::len` is its length). -/
def validPorts (first hi n : Nat) : List Nat :=
  (List.range ((hi - first) / n + 1)).map (fun i => first + i * n)

/-- All ports the driver may use for shard `s` in `[lo, hi]`, ascending. -/
def ports (n s lo hi : Nat) : List Nat :=
  match lowestPort n s lo hi with
  | none => []
  | some first => validPorts first hi n

/-- `draw_source_port_for_shard_from_range` with the random index `idx < count` made explicit. -/
def drawPort (n s lo hi idx : Nat) : Option Nat :=
  match lowestPort n s lo hi with
  | none => none
  | some first => (validPorts first hi n)[idx]?

/-- `iter_source_ports_for_shard_from_range` with the random pivot made explicit. -/
def iterPorts (n s lo hi pivot : Nat) : List Nat :=
  let ps := ports n s lo hi
  ps.drop pivot ++ ps.take pivot

inductive ShardInfoErr where
  | parse
  | zeroShards
  | shardOutOfRange
  deriving Repr, DecidableEq

structure ShardInfo where
  shard : Nat
  nrShards : Nat
  msbIgnore : Nat
  deriving Repr, DecidableEq

/-- `ShardInfo::try_from` for three decimal entries (`u16`, `u16`, `u8` parses in the code's order:
shard, nr_shards, zero test, msb_ignore, range test). -/
def parseShardInfo (shard nrShards msb : Nat) : Except ShardInfoErr ShardInfo :=
  if shard > 65535 then .error .parse
  else if nrShards > 65535 then .error .parse
  else if nrShards = 0 then .error .zeroShards
  else if msb > 255 then .error .parse
  else if shard ≥ nrShards then .error .shardOutOfRange
  else .ok ⟨shard, nrShards, msb⟩

/-- One of the three SUPPORTED entries as `ShardInfo::try_from` sees it: the key may be absent, its value list may be
empty, or its first value is a string that either is a decimal number or is not (`none`). -/
inductive Entry where
  | absent
  | empty
  | val (n : Option Nat)
  deriving Repr, DecidableEq

inductive OptionsErr where
  | noShardInfo              -- all three keys absent: most likely a Cassandra node
  | missingSome              -- some, but not all, keys present
  | missingValues            -- a key is present with an empty value list
  | info (e : ShardInfoErr)  -- the three first values are there: parse + range checks
  deriving Repr, DecidableEq

/-- `ShardInfo::try_from(&HashMap<String, Vec<String>>)` (`sharding.rs:286-320`): presence of the three keys first,
then of their first values, then the parses in the code's order (shard, nr_shards, zero test, msb_ignore, range test;
a first value that is not a number is a parse error at ITS position in that order). -/
def parseShardOptions (shard nrShards msb : Entry) : Except OptionsErr ShardInfo :=
  match shard, nrShards, msb with
  | .absent, .absent, .absent => .error .noShardInfo
  | .absent, _, _ => .error .missingSome
  | _, .absent, _ => .error .missingSome
  | _, _, .absent => .error .missingSome
  | .empty, _, _ => .error .missingValues
  | _, .empty, _ => .error .missingValues
  | _, _, .empty => .error .missingValues
  | .val s, .val n, .val m =>
    match s with
    | none => .error (.info .parse)
    | some s =>
      if s > 65535 then .error (.info .parse) else
      match n with
      | none => .error (.info .parse)
      | some n =>
        if n > 65535 then .error (.info .parse)
        else if n = 0 then .error (.info .zeroShards)
        else match m with
          | none => .error (.info .parse)
          | some m =>
            if m > 255 then .error (.info .parse)
            else if s ≥ n then .error (.info .shardOutOfRange)
            else .ok ⟨s, n, m⟩

end ScyllaVerif.Sharding

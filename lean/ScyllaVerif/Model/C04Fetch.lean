import ScyllaVerif.Model.Ring
import ScyllaVerif.Model.Replicas
/-
Model of the metadata glue in front of replica placement (C04): `system.local` / `system.peers` rows → `Peer`s →
ring, and the `replication` option map of `system_schema.keyspaces` → `Strategy`.

* `parseI64`            ← `Token::from_str` = `i64::from_str` (`routing/sharding.rs:78-83`; NO normalisation of
                          `i64::MIN`, unlike `Token::new`): an optional single `+` or `-`, then one or more ASCII digits,
                          value within `i64`; nothing else (no blanks, no `_`, not empty, not a bare sign).
* `parseUsize`          ← `usize::from_str` (64-bit): an optional `+`, one or more ASCII digits, value `< 2^64`;
                          a `-` is rejected even for `-0`.
* `Row`, `peerFromRow`  ← `NodeInfoRow`, `ControlConnection::create_peer_from_row` (`cluster/metadata/fetching.rs:374-435`):
                          a null host id skips the node; a null `tokens` column means NO tokens (`unwrap_or_default`);
                          if ANY token string is unparseable the peer gets exactly ONE dummy token `Token::new(random)`
                          (the random value is an explicit argument).
* `validatePeers`       ← `ControlConnection::validate_peers` (`fetching.rs:228-240`).
* `strategyFromOptions` ← `strategy_from_string_map` (`fetching.rs:1781-1829`): the option map is an association list
                          with distinct keys; NTS collects every remaining option as `datacenter → usize`.
* `peersToTopology`, `nameToDc` — how the fetched `Peer`s and strategy enter the placement model: datacenter / rack
                          names are abstracted to numbers (`dc<n>` ↔ `n`, `r<n>` ↔ `n`, as everywhere in C04).
-/
namespace ScyllaVerif.C04Fetch
open ScyllaVerif.Ring ScyllaVerif.Replicas

def digitVal (c : Char) : Option Nat :=
  if '0' ≤ c ∧ c ≤ '9' then some (c.toNat - 48) else none

/-- One or more ASCII digits as a natural number. -/
def parseDigits (cs : List Char) : Option Nat :=
  if cs.isEmpty then none
  else cs.foldl (fun acc c => match acc, digitVal c with
    | some a, some d => some (10 * a + d)
    | _, _ => none) (some 0)

/-- `i64::from_str`. -/
def parseI64 (s : String) : Option Int :=
  let v : Option Int :=
    match s.toList with
    | '-' :: rest => (parseDigits rest).map (fun n => -(n : Int))
    | '+' :: rest => (parseDigits rest).map (fun n => (n : Int))
    | cs => (parseDigits cs).map (fun n => (n : Int))
  match v with
  | some x => if -9223372036854775808 ≤ x ∧ x ≤ 9223372036854775807 then some x else none
  | none => none

/-- `usize::from_str` on a 64-bit target. -/
def parseUsize (s : String) : Option Nat :=
  let v : Option Nat :=
    match s.toList with
    | '+' :: rest => parseDigits rest
    | cs => parseDigits cs
  match v with
  | some x => if x < 18446744073709551616 then some x else none
  | none => none

/-- A row of `system.local` / `system.peers` (address omitted: it does not influence placement). -/
structure Row where
  hostId : Option Nat
  dc : Option Nat
  rack : Option Nat
  tokens : Option (List String)
  deriving Repr

/-- The `Peer` built from a row; `tokens` are raw `i64` values. -/
structure FPeer where
  id : Nat
  dc : Option Nat
  rack : Option Nat
  tokens : List Int
  deriving Repr, DecidableEq

/-- `tokens_str.iter().map(Token::from_str).collect::<Result<Vec<_>, _>>()`. -/
def parseTokens (ts : List String) : Option (List Int) := ts.mapM parseI64

/-- `create_peer_from_row`; `dummy` is the `rand::rng().random::<i64>()` drawn when parsing fails. -/
def peerFromRow (row : Row) (dummy : Int) : Option FPeer :=
  match row.hostId with
  | none => none
  | some id =>
    let tokens := match parseTokens (row.tokens.getD []) with
      | some parsed => parsed
      | none => [tokenNew dummy]
    some ⟨id, row.dc, row.rack, tokens⟩

/-- Does this row make the driver draw a dummy token? -/
def needsDummy (row : Row) : Bool := row.hostId.isSome && (parseTokens (row.tokens.getD [])).isNone

inductive PeersError where
  | emptyPeers
  | emptyTokenLists
  deriving Repr, DecidableEq

/-- `validate_peers`. -/
def validatePeers (peers : List FPeer) : Except PeersError Unit :=
  if peers.isEmpty then .error .emptyPeers
  else if peers.all (fun p => p.tokens.isEmpty) then .error .emptyTokenLists
  else .ok ()

/-- `Strategy` as fetched: datacenters by NAME. -/
inductive FStrategy where
  | simple (rf : Nat)
  | nts (repf : List (String × Nat))
  | localStrategy
  | other (name : String) (data : List (String × String))
  deriving Repr, DecidableEq

inductive StrategyError where
  | missingClass
  | missingReplicationFactor
  | replicationFactorParse
  | unexpectedNtsOption (key : String)
  deriving Repr, DecidableEq

/-- `HashMap::remove`. -/
def removeKey (k : String) (m : List (String × String)) : List (String × String) := m.filter (fun e => e.1 != k)

/-- The NTS loop over the remaining options (`strategy_map.drain()`): every value must be a `usize`. The map's
iteration order is arbitrary, so which offending key an error names is not determined when there are several. -/
def ntsOptions : List (String × String) → Except StrategyError (List (String × Nat))
  | [] => .ok []
  | (k, v) :: rest =>
    match parseUsize v with
    | none => .error (.unexpectedNtsOption k)
    | some rf =>
      match ntsOptions rest with
      | .ok l => .ok ((k, rf) :: l)
      | .error e => .error e

/-- `strategy_from_string_map`. -/
def strategyFromOptions (m : List (String × String)) : Except StrategyError FStrategy :=
  match m.lookup "class" with
  | none => .error .missingClass
  | some cls =>
    let m := removeKey "class" m
    if cls == "org.apache.cassandra.locator.SimpleStrategy" || cls == "SimpleStrategy" then
      match m.lookup "replication_factor" with
      | none => .error .missingReplicationFactor
      | some v => match parseUsize v with
        | none => .error .replicationFactorParse
        | some rf => .ok (.simple rf)
    else if cls == "org.apache.cassandra.locator.NetworkTopologyStrategy" || cls == "NetworkTopologyStrategy" then
      match ntsOptions m with
      | .ok l => .ok (.nts l)
      | .error e => .error e
    else if cls == "org.apache.cassandra.locator.LocalStrategy" || cls == "LocalStrategy" then .ok .localStrategy
    else .ok (.other cls m)

/-! ### into the placement model -/

/-- The datacenter number of a name `dc<n>` (exactly as `dc_name` spells it: `dc01`, `dc1_0`, `dc+1` are OTHER
names); any other name gets a number no ring node has (≥ 1000000, by position),
so that it stays a distinct key which matches no datacenter of the ring. -/
def nameToDc (pos : Nat) (name : String) : Nat :=
  let digits := (name.drop 2).toString.toList
  -- exactly the names `dc_name` produces: "dc" + canonical decimal (ASCII digits, no leading zero, no `_`)
  let canonical := !digits.isEmpty && digits.all (fun c => '0' ≤ c && c ≤ '9') && (digits.length == 1 || digits.head? != some '0')
  match (if name.startsWith "dc" && canonical then parseDigits digits else none) with
  | some n => if n < 1000000 then n else 1000000 + pos
  | none => 1000000 + pos

def toStrategy : FStrategy → Strategy
  | .simple rf => .simple rf
  | .nts repf => .nts (repf.zipIdx.map (fun (e, i) => (nameToDc i e.1, e.2)))
  | .localStrategy => .localStrategy
  | .other _ _ => .other

/-- The peers as the topology `ClusterState::new` starts from. -/
def peersToTopology (peers : List FPeer) : Topology := peers.map (fun p => ⟨⟨p.id, p.dc, p.rack⟩, p.tokens⟩)

/-- All rows of a fetch (dummy tokens supplied per row position), null-host-id rows skipped
(`query_peers`' fold over the created peers). -/
def peersFromRows (rows : List Row) (dummies : List Int) : List FPeer :=
  (rows.zip dummies).filterMap (fun (r, d) => peerFromRow r d)

end ScyllaVerif.C04Fetch

import ScyllaVerif.Model.Retry
import ScyllaVerif.Model.Exec
/-
C06, frame level: what ONE attempt (`run_request_once` = one call of `Connection::query_raw_with_consistency` /
`execute_raw_with_consistency` / `batch_with_consistency`) puts on the wire, and the client-side request timeout.
Import-free (core only).

  * QUERY without values (`scylla/src/network/connection.rs:882-…`): one QUERY frame; its answer is the attempt's outcome.
  * QUERY WITH values (`scylla/src/client/session.rs:1424-1438`, `query_unpaged` / `query_single_page` only - `query_iter`
    with values prepares ONCE on the session, `session.rs:1543`, and then pages with EXECUTE like `execute_iter`): per attempt
    `connection.prepare(statement)` (one PREPARE frame; error ⇒ the attempt fails with it, nothing else is sent) and
    then `execute_raw_with_consistency` — the EXECUTE arm below.
  * EXECUTE (`connection.rs:1046-1147`): one EXECUTE frame; if it is answered `DbError::Unprepared` (`:1102-1105`) the
    statement is re-prepared (`reprepare`, `:695-745`: one PREPARE frame; error ⇒ the attempt fails with it; a different
    id ⇒ `RepreparedIdChanged`) and EXECUTE is sent ONCE more (`:1118-1133`); that answer is the outcome (a second
    `Unprepared` is returned as the error).
  * BATCH (`connection.rs:1177-1246`): `prepare_batch` may first send PREPARE frames (`:1184`, error ⇒ attempt fails);
    then `loop { send BATCH; Unprepared{id} ⇒ (id not in the batch ⇒ RepreparedIdMissingInBatch) reprepare; continue }`
    (`:1207-1235`) — no bound on the number of rounds.
  * request timeout (`scylla/src/client/execution.rs:486-502`): `tokio::time::timeout(timeout, runner)` — the runner
    (the fiber) is dropped at the deadline, whatever it is doing.
-/
namespace ScyllaVerif.RetryFrames
open ScyllaVerif.Retry ScyllaVerif.Exec

/-- The kind of request; `batch pre`: `prepare_batch` sends `pre` PREPARE frames before the BATCH frame. -/
inductive StmtKind where
  | query
  /-- an unprepared statement with values: PREPARE then EXECUTE, in every attempt -/
  | queryValues
  | execute
  | batch (pre : Nat)
  deriving DecidableEq, Repr, Inhabited

/-- Answer to a PREPARE frame. -/
inductive PrepAnswer where
  | ok
  | idChanged
  | err (e : Err)
  deriving DecidableEq, Repr, Inhabited

/-- The server / network as seen by ONE attempt. -/
structure Answers where
  /-- answer to the `j`-th statement frame (QUERY / EXECUTE / BATCH) of the attempt (`fail e`: an ERROR response or a
  connection-level failure of `send_request`) -/
  stmt : Nat → Outcome
  /-- answer to the `j`-th PREPARE frame of the attempt -/
  prep : Nat → PrepAnswer
  /-- BATCH: the id named by the `j`-th `Unprepared` answer belongs to a prepared statement of the batch -/
  idKnown : Nat → Bool

inductive Frame where
  | stmt (answer : Outcome)
  | prepare (answer : PrepAnswer)
  deriving DecidableEq, Repr, Inhabited

/-- Frames of one attempt and what `run_request_once` returns (`none`: the BATCH loop is still going round after
the given number of rounds — the code has no bound). -/
structure AttemptFrames where
  frames : List Frame
  outcome : Option Outcome
  deriving DecidableEq, Repr, Inhabited

def isUnprepared : Outcome → Bool
  | .fail (.dbError .unprepared) => true
  | _ => false

def AttemptFrames.push (fs : List Frame) (r : AttemptFrames) : AttemptFrames := ⟨fs ++ r.frames, r.outcome⟩

/-- `prepare_batch` (`connection.rs:1248-…`): PREPARE frames `j, j+1, …`; the first error aborts the attempt. -/
def prepareBatch (a : Answers) : (n j : Nat) → List Frame × Option Err
  | 0, _ => ([], none)
  | n + 1, j =>
    match a.prep j with
    | .err e => ([.prepare (.err e)], some e)
    | p => let r := prepareBatch a n (j + 1); (.prepare p :: r.1, r.2)

/-- The BATCH send / re-prepare loop (`connection.rs:1207-1243`), `rounds` = fuel. -/
def batchLoop (a : Answers) (pre : Nat) : (rounds j : Nat) → AttemptFrames
  | 0, _ => ⟨[], none⟩
  | r + 1, j =>
    let ans := a.stmt j
    if isUnprepared ans then
      if a.idKnown j then
        match a.prep (pre + j) with
        | .ok => (batchLoop a pre r (j + 1)).push [.stmt ans, .prepare .ok]
        | .idChanged => ⟨[.stmt ans, .prepare .idChanged], some (.fail .repreparedIdChanged)⟩
        | .err e => ⟨[.stmt ans, .prepare (.err e)], some (.fail e)⟩
      else ⟨[.stmt ans], some (.fail .repreparedIdMissingInBatch)⟩
    else ⟨[.stmt ans], some ans⟩

/-- `execute_raw_with_consistency` (`connection.rs:1046-1147`): EXECUTE; after UNPREPARED the re-prepare (its PREPARE
frame is answered by `a.prep p0`) and EXECUTE once more. -/
def executeArm (a : Answers) (p0 : Nat) : AttemptFrames :=
  let a0 := a.stmt 0
  if isUnprepared a0 then
    match a.prep p0 with
    | .ok => ⟨[.stmt a0, .prepare .ok, .stmt (a.stmt 1)], some (a.stmt 1)⟩
    | .idChanged => ⟨[.stmt a0, .prepare .idChanged], some (.fail .repreparedIdChanged)⟩
    | .err e => ⟨[.stmt a0, .prepare (.err e)], some (.fail e)⟩
  else ⟨[.stmt a0], some a0⟩

/-- One attempt. -/
def attempt (kind : StmtKind) (a : Answers) (rounds : Nat) : AttemptFrames :=
  match kind with
  | .query => ⟨[.stmt (a.stmt 0)], some (a.stmt 0)⟩
  | .execute => executeArm a 0
  | .queryValues =>
    -- `connection.prepare` compares no id: any successful answer is taken
    match a.prep 0 with
    | .err e => ⟨[.prepare (.err e)], some (.fail e)⟩
    | p => (executeArm a 1).push [.prepare p]
  | .batch pre =>
    let p := prepareBatch a pre 0
    match p.2 with
    | some e => ⟨p.1, some (.fail e)⟩
    | none => (batchLoop a pre rounds 0).push p.1

/-- The answers to the statement frames, in order. -/
def stmtAnswers : List Frame → List Outcome
  | [] => []
  | .stmt o :: fs => o :: stmtAnswers fs
  | .prepare _ :: fs => stmtAnswers fs

/-- What the execution loop sees of attempt `k` (an attempt whose BATCH loop never ends does not return; the loop
ends there — it is represented as the last attempt). -/
def outcomeOf (kind : StmtKind) (answers : Nat → Answers) (rounds : Nat) (k : Nat) : Outcome :=
  (attempt kind (answers k) rounds).outcome.getD .ok

/-- One request at frame level: the execution loop (`Exec.run`) in which the `k`-th `run_request_once` call is
`attempt kind (answers k)`.  Result: the loop's trace and the frames of every attempt, in order. -/
structure WireTrace where
  trace : Trace
  frames : List (List Frame)
  /-- the last attempt never returned (BATCH loop still running after `rounds` rounds) -/
  hung : Bool

def runWire (pol : Policy) (idem : Bool) (cl0 : Consistency) (plan : List Target) (kind : StmtKind)
    (answers : Nat → Answers) (rounds : Nat) : WireTrace :=
  let tr := run pol idem cl0 plan (outcomeOf kind answers rounds)
  let fr := (List.range tr.attempts.length).map (fun k => (attempt kind (answers k) rounds).frames)
  ⟨tr, fr, (List.range tr.attempts.length).any (fun k => (attempt kind (answers k) rounds).outcome.isNone)⟩

/-- All statement-frame answers of the request, in wire order. -/
def WireTrace.stmtAnswers (w : WireTrace) : List Outcome := (w.frames.map RetryFrames.stmtAnswers).flatten

/-- An answer that proves the statement of that frame was not applied: the property's four errors, or UNPREPARED. -/
def frameProof : Outcome → Bool
  | .fail e => proofOfNonApplication e || isUnprepared (.fail e)
  | .ok => false

/-! ### client-side request timeout -/

/-- Time at which attempt `k` starts when attempt `i` takes `dur i` (everything else takes no time). -/
def startTime (dur : Nat → Nat) : Nat → Nat
  | 0 => 0
  | k + 1 => startTime dur k + dur k

/-- Number of attempts among the first `n` that return by the deadline `t` (tokio's `Timeout` polls the runner before
the timer, so an attempt ending exactly at the deadline still returns). -/
def returnedBy (dur : Nat → Nat) (t : Nat) : Nat → Nat
  | 0 => 0
  | n + 1 => if startTime dur (n + 1) ≤ t then n + 1 else returnedBy dur t n

inductive TimedFinal where
  | finished (f : Final)
  | timedOut
  deriving DecidableEq, Repr, Inhabited

structure TimedTrace where
  attempts : List Attempt
  decisions : List Decision
  final : TimedFinal
  deriving DecidableEq, Repr, Inhabited

/-- `tokio::time::timeout(t, runner)` (`execution.rs:486-502`): the runner does not know about the deadline; it is
dropped at time `t`.  All attempts that return by `t` and the decisions taken on them happen; if that is not the
whole run, one more attempt has been started (and is cancelled in flight) and the caller gets `RequestTimeout`. -/
def runTimed (pol : Policy) (idem : Bool) (cl0 : Consistency) (plan : List Target) (outcomes : Nat → Outcome)
    (dur : Nat → Nat) (t : Nat) : TimedTrace :=
  let tr := run pol idem cl0 plan outcomes
  let c := returnedBy dur t tr.attempts.length
  if c = tr.attempts.length then ⟨tr.attempts, tr.decisions, .finished tr.final⟩
  else ⟨tr.attempts.take (c + 1), tr.decisions.take c, .timedOut⟩

end ScyllaVerif.RetryFrames

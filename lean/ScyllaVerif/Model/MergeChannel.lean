/-
Model of `scylla/src/cluster/metadata/merge_channel.rs` (C19): the single-producer single-consumer,
capacity-one, merge-on-send channel between the metadata worker (producer) and the cluster worker (consumer).

The model is a labelled transition system over the *atomic steps* of the code, one program counter per
endpoint, so that theorems quantify over every interleaving (two OS threads under sequential consistency):

* `Shared` part ← `struct Shared` (merge_channel.rs:45-54): `slot : Mutex<Option<T>>`, `notify : Notify`
  (modelled by `permit` + `waiter`, see the contract below), `sender_dropped`, `receiver_dropped`.
* sender steps  ← `Sender::modify` (102-120): load `receiver_dropped` (106) | lock, `f`, `is_some` (110-114) |
  `notify_one` if `has_value` (116-118);  `Drop for Sender` (123-129): store flag (127) | `notify_one` (128).
  `f` is the hook's closure `slot.get_or_insert_with(Vec::new).push(x)` (verif_hooks.rs `MergeSender::merge`);
  every real caller (`MetadataUpdate::merge_*`) likewise leaves the slot `Some`.
* receiver steps ← `Receiver::recv` (149-175): create `notified` (157) | `enable()` (160) | `take()` (162) |
  load `sender_dropped` (166) | second `take()` (170) | `notified.await` (173: poll → Ready / Pending = parked) |
  return (drops the pinned `Notified`);  dropping a suspended `recv` future (cancellation by `select!`,
  cluster/worker.rs:294-360);  `Drop for Receiver` (178-182).

### The `tokio::sync::Notify` contract assumed (tokio 1.53.1 `src/sync/notify.rs`; single waiter)

N1. `Notify` holds at most ONE stored permit (`state` EMPTY/NOTIFIED) and a list of waiters (here: at most the
    one `Notified` future of the single receiver, `waiter`). Each operation below is atomic (linearizable:
    `SeqCst` state word + the `waiters` mutex).
N2. `notify_one()` (657-738, `notify_locked` 841-900): if a waiter is linked in the list it is unlinked and marked
    notified, and its stored waker (if it has one) is woken; otherwise the permit is set (idempotent).
N3. `Notified::enable()` (1003, `poll_notified(None)` 1105-1217, state `Init`): consumes the stored permit if there
    is one (future becomes `Done`), otherwise links the future in the waiter list with no waker (`Waiting`).
N4. polling `Notified` with a waker (1218-1320): `Done` → `Ready`; `Waiting` and marked notified → `Ready`
    (becomes `Done`); `Waiting` and not notified → stores the waker, `Pending`.
N5. dropping a `Notified` (`drop_notified` 1329-1370): if `Waiting` it is unlinked; if it had been marked notified by
    `notify_one` but never observed that by a poll, the notification is passed on - with no other waiter that means
    the permit is stored again. A `Done` (or never enabled) future drops silently.
-/
namespace ScyllaVerif.MergeChannel

/-- Local state of the receiver's `Notified` future (`notify.rs` `State::{Init, Waiting, Done}`);
`absent` = no such future exists. -/
inductive Fut where
  | absent | init | waiting | done
  deriving DecidableEq, Repr

/-- The receiver's entry in `Notify`'s waiter list: not linked | linked (with/without a stored waker) |
unlinked by `notify_one` and marked notified (N2), not yet observed by a poll. -/
inductive Waiter where
  | none
  | registered (hasWaker : Bool)
  | notified
  deriving DecidableEq, Repr

/-- Program counter of the producer. -/
inductive SPc where
  | idle                      -- between calls
  | modStart (x : Nat)        -- `modify` entered; next: load `receiver_dropped` (106)
  | modLock (x : Nat)         -- flag was false; next: lock, apply `f`, compute `has_value` (110-114)
  | modNotify (has : Bool)    -- next: `if has_value { notify_one() }`, return `Ok` (116-119)
  | dropStart                 -- `Drop for Sender` entered; next: store `sender_dropped` (127)
  | dropNotify                -- next: `notify_one()` (128)
  | gone
  deriving DecidableEq, Repr

/-- Program counter of the consumer. -/
inductive RPc where
  | idle                      -- receiver alive, no `recv` future
  | created                   -- `recv()` future created but never polled (an `async fn` body has not started)
  | loopTop                   -- next: `shared.notify.notified()` (157)
  | enable                    -- next: `notified.enable()` (160)
  | take1                     -- next: first `take()` (162)
  | loadFlag                  -- next: load `sender_dropped` (166)
  | take2                     -- next: second `take()` (170)
  | ret (v : Option (List Nat)) -- next: drop `notified`, return `v` (163 / 170)
  | await                     -- next: first poll of `notified` in this iteration (173)
  | parked                    -- `recv` returned `Pending` at 173; the next poll re-polls `notified`
  | gone
  deriving DecidableEq, Repr

structure State where
  slot : Option (List Nat) := none
  permit : Bool := false
  waiter : Waiter := .none
  senderDropped : Bool := false
  receiverDropped : Bool := false
  spc : SPc := .idle
  rpc : RPc := .idle
  fut : Fut := .absent
  /-- number of `Waker::wake` calls made by `notify_one` (observable through a counting waker). -/
  wakes : Nat := 0
  /-- ghost: the waker stored by the last `Pending` has been woken since. -/
  woken : Bool := false
  /-- ghost: every update applied by `f`, in order. -/
  merged : List Nat := []
  /-- every value returned by `recv`, oldest first. -/
  received : List (Option (List Nat)) := []
  /-- results of the completed `modify` calls, oldest first (`false` = `SendError`). -/
  sends : List Bool := []
  deriving Repr

def init : State := {}

/-- N2. -/
def notifyOne (s : State) : State :=
  match s.waiter with
  | .registered w =>
    { s with waiter := .notified, wakes := if w then s.wakes + 1 else s.wakes, woken := s.woken || w }
  | .none => { s with permit := true }
  | .notified => { s with permit := true }

/-- N3 (also the `Init` arm of a poll with a waker: then the waker is stored on registration). -/
def enableFut (withWaker : Bool) (s : State) : State :=
  if s.permit then { s with permit := false, fut := .done }
  else { s with waiter := .registered withWaker, fut := .waiting }

/-- N4: would a poll of the `Notified` future return `Ready`? -/
def pollReady (s : State) : Bool :=
  match s.fut with
  | .done => true
  | .waiting =>
    match s.waiter with
    | .notified => true
    | _ => false
  | .init => s.permit
  | .absent => false                         -- not reachable

/-- N4: the effect of polling the `Notified` future with the task's waker. -/
def pollNotified (s : State) : State :=
  match s.fut with
  | .done => s
  | .waiting =>
    match s.waiter with
    | .notified => { s with waiter := .none, fut := .done }
    | .registered _ => { s with waiter := .registered true }
    | .none => s                             -- not reachable (`Inv.tie`)
  | .init => enableFut true s                -- not reachable in `recv` (`enable()` comes first)
  | .absent => s                             -- not reachable

/-- N5. -/
def dropNotified (s : State) : State :=
  match s.fut with
  | .waiting =>
    match s.waiter with
    | .notified => { s with waiter := .none, fut := .absent, permit := true }
    | _ => { s with waiter := .none, fut := .absent }
  | _ => { s with fut := .absent }

/-- The hook's `f`: `slot.get_or_insert_with(Vec::new).push(x)`. -/
def applyPush (slot : Option (List Nat)) (x : Nat) : Option (List Nat) :=
  match slot with
  | none => some [x]
  | some v => some (v ++ [x])

/-- One atomic step of the producer thread. -/
def sStep (s : State) : State :=
  match s.spc with
  | .modStart x =>
    if s.receiverDropped then { s with spc := .idle, sends := s.sends ++ [false] }
    else { s with spc := .modLock x }
  | .modLock x =>
    let slot' := applyPush s.slot x
    { s with slot := slot', merged := s.merged ++ [x], spc := .modNotify slot'.isSome }
  | .modNotify has =>
    let s' := if has then notifyOne s else s
    { s' with spc := .idle, sends := s'.sends ++ [true] }
  | .dropStart => { s with senderDropped := true, spc := .dropNotify }
  | .dropNotify => { notifyOne s with spc := .gone }
  | .idle => s
  | .gone => s

/-- The poll of `notified` at line 173 (first poll or re-poll after `Pending`). -/
def awaitStep (s : State) : State :=
  if pollReady s then { dropNotified (pollNotified s) with rpc := .loopTop }  -- end of the loop body: `notified` dropped
  else { pollNotified s with rpc := .parked, woken := false }

/-- One atomic step of the consumer task (it is being polled). -/
def rStep (s : State) : State :=
  match s.rpc with
  | .created => { s with rpc := .enable, fut := .init }
  | .loopTop => { s with rpc := .enable, fut := .init }
  | .enable => { enableFut false s with rpc := .take1 }
  | .take1 =>                                 -- `shared.slot.lock().unwrap().take()`
    match s.slot with
    | some v => { s with slot := none, rpc := .ret (some v) }
    | none => { s with rpc := .loadFlag }
  | .loadFlag => if s.senderDropped then { s with rpc := .take2 } else { s with rpc := .await }
  | .take2 => { s with slot := none, rpc := .ret s.slot }
  | .ret v => { dropNotified s with rpc := .idle, received := s.received ++ [v] }
  | .await => awaitStep s
  | .parked => awaitStep s
  | .idle => s
  | .gone => s

/-- The consumer drops its `recv` future. Only a suspended future can be dropped: never polled, or parked at 173. -/
def cancel (s : State) : State :=
  match s.rpc with
  | .created => { s with rpc := .idle }
  | .parked => { dropNotified s with rpc := .idle }
  | _ => s

inductive Act where
  | callModify (x : Nat)     -- the producer calls `modify` (enabled when it is idle)
  | callDropSender           -- the producer drops the `Sender`
  | sStep                    -- the producer thread runs its next atomic step
  | callRecv                 -- the consumer creates a `recv()` future (enabled when it has none)
  | rStep                    -- the consumer task runs its next atomic step (a parked task: is polled again)
  | cancel                   -- the consumer drops a suspended `recv()` future
  | callDropReceiver         -- the consumer drops the `Receiver` (it has no `recv` future then: `&mut self` borrow)
  deriving DecidableEq, Repr

/-- Disabled actions stutter, so `run` over ALL action lists covers exactly all interleavings. -/
def step (s : State) (a : Act) : State :=
  match a with
  | .callModify x => if s.spc = .idle then { s with spc := .modStart x } else s
  | .callDropSender => if s.spc = .idle then { s with spc := .dropStart } else s
  | .sStep => sStep s
  | .callRecv => if s.rpc = .idle then { s with rpc := .created } else s
  | .rStep => rStep s
  | .cancel => cancel s
  | .callDropReceiver => if s.rpc = .idle then { s with receiverDropped := true, rpc := .gone } else s

def run (s : State) (acts : List Act) : State := acts.foldl step s

/-- Concatenation of the `Some` values returned by `recv`. -/
def flat : List (Option (List Nat)) → List Nat
  | [] => []
  | none :: r => flat r
  | some v :: r => v ++ flat r

/-- The value `recv` has taken out of the slot but not yet returned. -/
def inflight (s : State) : List Nat :=
  match s.rpc with
  | .ret (some v) => v
  | _ => []

def slotContents (s : State) : List Nat := s.slot.getD []

/-! ### Poll granularity (what the harness can drive): each operation runs one endpoint to its next await point -/

/-- Runs the producer's current call to completion. -/
def settleSender : Nat → State → State
  | 0, s => s
  | n + 1, s => if s.spc = .idle ∨ s.spc = .gone then s else settleSender n (sStep s)

def isSuspended (s : State) : Bool :=
  match s.rpc with
  | .idle | .parked | .gone => true
  | _ => false

/-- Runs the consumer until `recv` returns (`idle`) or parks. -/
def settleReceiver : Nat → State → State
  | 0, s => s
  | n + 1, s => if isSuspended s then s else settleReceiver n (rStep s)

/-- One `Future::poll` of the `recv` future: at least one step (a parked future is re-polled). -/
def pollRecv (s : State) : State := settleReceiver 32 (rStep s)

def opMerge (x : Nat) (s : State) : State := settleSender 8 (step s (.callModify x))
def opDropSender (s : State) : State := settleSender 8 (step s .callDropSender)
def opDropReceiver (s : State) : State := step (cancel s) .callDropReceiver

end ScyllaVerif.MergeChannel

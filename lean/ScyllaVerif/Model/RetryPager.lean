import ScyllaVerif.Model.Retry
import ScyllaVerif.Model.Exec
import ScyllaVerif.Model.RetryFrames
/-
C06: WHICH idempotence flag / retry policy / consistency / request timeout a request is executed with, and the
transparent pager's own copy of them.  Import-free (core only).

  * `RequestExecutionParams::new_for_session_apis` (`scylla/src/client/execution.rs:122-160`): idempotence is the
    statement's; consistency, retry policy and request timeout are the statement's if set, else the execution profile's.
  * the execution profile is the statement's `execution_profile_handle` if set, else the session's default
    (`session.rs` `execute`/`query`/`batch`; `PagingExecutor::new`, `scylla/src/client/pager.rs:147-152`).
  * `PagingExecutor::new` (`pager.rs:146-186`) makes the SAME selection once per iteration and stores the results;
    `fetch_one_page` (`pager.rs:303-326`) builds the `RequestExecutionParams` of EVERY page from the stored fields —
    the same flag, policy, consistency and timeout for the first page and for every later one (`stable_coordinator`,
    set after the first page, only goes into the plan, `:337-365`).
  * every page fetch is one run of the execution core (`run_request_no_side_effects`, `:367`) with a fresh retry session.
-/
namespace ScyllaVerif.RetryPager
open ScyllaVerif.Retry ScyllaVerif.Exec ScyllaVerif.RetryFrames

/-- The fields of an execution profile that the retry machinery uses. -/
structure Profile where
  cl : Consistency
  policy : Policy
  timeout : Option Nat
  deriving DecidableEq, Repr, Inhabited

/-- `StatementConfig`: what can be set on a statement / batch. -/
structure StmtCfg where
  idem : Bool
  cl : Option Consistency
  policy : Option Policy
  timeout : Option Nat
  /-- `execution_profile_handle` -/
  profile : Option Profile
  deriving DecidableEq, Repr, Inhabited

/-- What the execution core is given. -/
structure ExecParams where
  idem : Bool
  cl : Consistency
  policy : Policy
  timeout : Option Nat
  deriving DecidableEq, Repr, Inhabited

/-- statement-level profile handle, else the session's default profile -/
def chosenProfile (stmt : StmtCfg) (sessionDefault : Profile) : Profile := stmt.profile.getD sessionDefault

/-- `RequestExecutionParams::new_for_session_apis` (`execution.rs:122-160`). -/
def newForSessionApis (stmt : StmtCfg) (prof : Profile) : ExecParams :=
  ⟨stmt.idem, stmt.cl.getD prof.cl, stmt.policy.getD prof.policy, match stmt.timeout with | some t => some t | none => prof.timeout⟩

/-- Unpaged / single-page session APIs. -/
def sessionParams (stmt : StmtCfg) (sessionDefault : Profile) : ExecParams :=
  newForSessionApis stmt (chosenProfile stmt sessionDefault)

/-- `PagingExecutor::new` (`pager.rs:146-186`): the fields it stores. -/
def pagingExecutorNew (stmt : StmtCfg) (sessionDefault : Profile) : ExecParams :=
  let prof := stmt.profile.getD sessionDefault
  { idem := stmt.idem
    cl := stmt.cl.getD prof.cl
    policy := stmt.policy.getD prof.policy
    timeout := match stmt.timeout with | some t => some t | none => prof.timeout }

/-- `fetch_one_page` (`pager.rs:313-326`): the parameters of the request for page `page` when `coord` is the
coordinator that served the previous page (`stable_coordinator`). -/
def pageParams (ex : ExecParams) (_page : Nat) (_coord : Option Nat) : ExecParams :=
  { idem := ex.idem, cl := ex.cl, policy := ex.policy, timeout := ex.timeout }

/-- `SingleConnectionPagingExecutor` (`pager.rs:535-600`; `Connection::execute_iter`, used for the control connection's
queries): the third `RequestExecutionParams` literal.  The retry policy is hard-coded `FallthroughRetryPolicy` (`:557`),
the idempotence flag is the prepared statement's, the consistency is the statement's or the connection's default
(`connection.rs:1161-1163`); the plan is the one connection. -/
def singleConnectionPagerParams (preparedIdem : Bool) (cl : Consistency) (timeout : Option Nat) : ExecParams :=
  { idem := preparedIdem, cl := cl, policy := .fallthrough, timeout := timeout }

/-- A paged iteration at frame level: page `j` is one run of the execution core (`runWire`) with `pageParams`, over
the plan `plans j` (previous coordinator first), with the answers `answers j`; the iteration goes on to the next
page only when the fetch completed. -/
def pagedRun (ex : ExecParams) (plans : Nat → List Target) (kind : StmtKind) (answers : Nat → Nat → Answers)
    (rounds : Nat) : (pages j : Nat) → Option Nat → List WireTrace
  | 0, _, _ => []
  | p + 1, j, coord =>
    let pp := pageParams ex j coord
    let w := runWire pp.policy pp.idem pp.cl (plans j) kind (answers j) rounds
    w :: (match w.trace.final with
          | .completed t => pagedRun ex plans kind answers rounds p (j + 1) (some t)
          | _ => [])

end ScyllaVerif.RetryPager

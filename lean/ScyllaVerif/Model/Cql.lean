/-
CQL column types and values (shared by C01 — value codec — and C17 — type-check matrix).  Import-free.

* `NativeTy`  ← `NativeType`  (`scylla-cql-core/src/frame/response/result.rs:118-159`), the 20 natives.
* `CqlTy`     ← `ColumnType`  (`result.rs:72-113`).  The `frozen` flags are dropped (they are never
  consulted by the value (de)serializers).  `vector`'s dimension is a `u16` in Rust: `0 ≤ dim < 65536`.
* `CqlVal`    ← what a Rust value writes into one CQL cell.  It is `CqlValue` (`value.rs:1047-1115`)
  plus the two cell-level pseudo values `null` (`Option::None`) and `unset` (`Unset`/`MaybeUnset::Unset`),
  so that typed Rust carriers such as `Vec<Option<i32>>` or `(i32, MaybeUnset<String>)` embed into it:
    - `CqlValue::Tuple(vec![None, Some(x)])`           ↦ `.tuple [.null, x]`
    - `CqlValue::UserDefinedType{fields: [(n, None)]}` ↦ `.udt ks name [(n, .null)]`
    - `None : Option<CqlValue>` bound at the top level ↦ `.null`
  `isDyn v` says that `v` is the image of an `Option<CqlValue>` (nulls only at the top or directly in
  tuple / UDT fields, no `unset`).
  Numerics are bit patterns (`BitVec n`): floats are *not* interpreted, so NaN payloads are ordinary values;
  strings, blobs, varints and the unscaled part of decimals are byte lists (a Rust `String` is always
  valid UTF-8: that is the `utf8ok` side condition of `Codec.wfVal`, not of the type).
* `typeSizeForVector` ← `NativeType::type_size_for_vector` + `ColumnType::type_size_for_vector` (`result.rs:167-190, 267-277`).
* `supportsEmpty`     ← `ColumnType::supports_special_empty_value` (`result.rs:287-297`).
-/
namespace ScyllaVerif.Cql

inductive NativeTy where
  | ascii | boolean | blob | counter | date | decimal | double | duration | float | int | bigint
  | text | timestamp | inet | smallint | tinyint | time | timeuuid | uuid | varint
  deriving Repr, DecidableEq, Inhabited

/-- `ColumnType`.  Nested inductive: proofs go by mutual structural recursion over
`CqlTy` / `List CqlTy` / `List (String × CqlTy)` (see `Props/C01.lean`). -/
inductive CqlTy where
  | native (n : NativeTy)
  | list (elt : CqlTy)
  | set (elt : CqlTy)
  | map (k v : CqlTy)
  | tuple (ts : List CqlTy)
  | udt (ks name : String) (fields : List (String × CqlTy))
  | vector (elt : CqlTy) (dim : Nat)
  deriving Repr, Inhabited

/-- One cell's worth of Rust value (see the header). -/
inductive CqlVal where
  | null
  | unset
  | empty
  | ascii (s : List UInt8)
  | text (s : List UInt8)
  | blob (b : List UInt8)
  | boolean (b : Bool)
  | tinyint (x : BitVec 8)
  | smallint (x : BitVec 16)
  | int (x : BitVec 32)
  | bigint (x : BitVec 64)
  | counter (x : BitVec 64)
  | float (bits : BitVec 32)
  | double (bits : BitVec 64)
  | date (x : BitVec 32)
  | time (x : BitVec 64)
  | timestamp (x : BitVec 64)
  | timeuuid (x : BitVec 128)
  | uuid (x : BitVec 128)
  | inet4 (a : BitVec 32)
  | inet6 (a : BitVec 128)
  | varint (b : List UInt8)
  | decimal (scale : BitVec 32) (b : List UInt8)
  | duration (months days : BitVec 32) (nanos : BitVec 64)
  | list (vs : List CqlVal)
  | set (vs : List CqlVal)
  | vector (vs : List CqlVal)
  | map (kvs : List (CqlVal × CqlVal))
  | tuple (fs : List CqlVal)
  | udt (ks name : String) (fs : List (String × CqlVal))
  deriving Repr, Inhabited

/-- `NativeType::type_size_for_vector`. -/
def NativeTy.sizeForVector : NativeTy → Option Nat
  | .ascii => none | .boolean => some 1 | .blob => none | .counter => none | .date => none
  | .decimal => none | .double => some 8 | .duration => none | .float => some 4 | .int => some 4
  | .bigint => some 8 | .text => none | .timestamp => some 8 | .inet => none | .smallint => none
  | .tinyint => none | .time => none | .timeuuid => some 16 | .uuid => some 16 | .varint => none

/-- `ColumnType::type_size_for_vector` (`usize` product; no overflow below `65535^k · 16`). -/
def CqlTy.sizeForVector : CqlTy → Option Nat
  | .native n => n.sizeForVector
  | .tuple _ => none
  | .list _ => none
  | .set _ => none
  | .map _ _ => none
  | .vector t dim => match t.sizeForVector with
    | some s => some (s * dim)
    | none => none
  | .udt _ _ _ => none

/-- `ColumnType::supports_special_empty_value`: everything except counter, duration, collections and UDTs
(so tuples and vectors *do* "support" it). -/
def CqlTy.supportsEmpty : CqlTy → Bool
  | .native .counter => false
  | .native .duration => false
  | .list _ => false
  | .set _ => false
  | .map _ _ => false
  | .udt _ _ _ => false
  | _ => true

/-- The three natives whose zero-length cell is an ordinary value (the empty string / blob) rather than
the legacy *empty* value (`deserialize/value.rs:82-88`). -/
def CqlTy.isStringLike : CqlTy → Bool
  | .native .ascii => true
  | .native .blob => true
  | .native .text => true
  | _ => false

mutual
/-- `v` is the image of a (non-null) `CqlValue`: nulls only directly in tuple / UDT fields, no `unset`. -/
def CqlVal.isDynVal : CqlVal → Bool
  | .null => false
  | .unset => false
  | .list vs => isDynVals vs
  | .set vs => isDynVals vs
  | .vector vs => isDynVals vs
  | .map kvs => isDynPairs kvs
  | .tuple fs => isDynCells fs
  | .udt _ _ fs => isDynFields fs
  | _ => true
def isDynVals : List CqlVal → Bool
  | [] => true
  | v :: vs => v.isDynVal && isDynVals vs
def isDynPairs : List (CqlVal × CqlVal) → Bool
  | [] => true
  | (k, v) :: r => k.isDynVal && v.isDynVal && isDynPairs r
def isDynCells : List CqlVal → Bool
  | [] => true
  | .null :: r => isDynCells r
  | v :: r => v.isDynVal && isDynCells r
def isDynFields : List (String × CqlVal) → Bool
  | [] => true
  | (_, .null) :: r => isDynFields r
  | (_, v) :: r => v.isDynVal && isDynFields r
end

/-- `v` is the image of an `Option<CqlValue>`. -/
def CqlVal.isDyn : CqlVal → Bool
  | .null => true
  | v => v.isDynVal

end ScyllaVerif.Cql

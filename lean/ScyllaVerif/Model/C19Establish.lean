import ScyllaVerif.Model.RefreshFlow
/-
C19: (re-)establishment of the control connection over several candidates -
`ControlConnectionEstablisher::establish_cc_and_fetch_metadata` / `try_establish_on_nodes`
(scylla/src/cluster/metadata/cc_establisher.rs:166-349) and what `MetadataWorker::work_without_cc` does with its result
(metadata/worker.rs:537-566).

* `Outcome`        what happens on one candidate: `make_control_connection` fails (274-292); the connection is up but the
                   fetch fails (294-321); the fetch succeeds with metadata `m`, and the node hosting the connection is /
                   is not rejected by the host filter IN THE METADATA IT RETURNED (`is_cc_endpoint_rejected`, 326-333:
                   only a `Peer` endpoint can be rejected - a contact point never is).
* `tryOnNodes`     `try_establish_on_nodes`: candidates in the given order; `rejected` = `rejected_metadata` (valid
                   cluster-wide metadata fetched on a rejected node, kept as fallback while looking for an accepted node).
                   A failing fetch ends an INITIAL establishment at once (rejected metadata, else dummy metadata, no
                   connection kept); on re-establishment it only moves on to the next candidate.
* `establish`      `establish_cc_and_fetch_metadata`: the (shuffled) known peers first; if that is `Err` and this is not the
                   initial establishment, the initial contact points (fresh `rejected_metadata`).
* `flowEvent`      `work_without_cc` (542-565): `Ok((kept, metadata))` → `publish_metadata(metadata)` (the pending refresh
                   request rides on it: RefreshFlow `fetchOk`); `Err` → the pending request is answered with the error
                   (RefreshFlow `fetchErrNoCc`).
Metadata is represented by a number (which fetch it came from).
-/
namespace ScyllaVerif.C19Establish
open ScyllaVerif.MetaUpdate ScyllaVerif.RefreshFlow

inductive Outcome where
  | connectFail
  | fetchFail
  | fetched (m : Nat) (rejected : Bool)
  deriving DecidableEq, Repr

inductive Result where
  | kept (m : Nat)        -- `Ok((Some(cc), metadata))`
  | noCc (m : Nat)        -- `Ok((None, metadata))`: metadata of a rejected node, no connection kept
  | dummy                 -- `Ok((None, Metadata::new_dummy(..)))` (initial establishment only)
  | err                   -- `Err(last_err)` / `Err(no_nodes_available)`
  deriving DecidableEq, Repr

def tryOnNodes (initial : Bool) : List Outcome → Option Nat → Result
  | [], rejected => match rejected with | some m => .noCc m | none => .err
  | .connectFail :: rest, rejected => tryOnNodes initial rest rejected
  | .fetchFail :: rest, rejected =>
    if initial then (match rejected with | some m => .noCc m | none => .dummy)
    else tryOnNodes initial rest rejected
  | .fetched m false :: _, _ => .kept m
  | .fetched m true :: rest, _ => tryOnNodes initial rest (some m)

def establish (initial : Bool) (knownPeers contactPoints : List Outcome) : Result :=
  match tryOnNodes initial knownPeers none with
  | .err => if initial then .err else tryOnNodes initial contactPoints none
  | r => r

/-- The metadata a result carries. -/
def Result.metadata : Result → Option Nat
  | .kept m => some m
  | .noCc m => some m
  | _ => none

/-- What `work_without_cc` turns the result of a RE-establishment into, as an event of the request-flow model. -/
def flowEvent (topoOf : Nat → Topo) : Result → Ev
  | .kept m => .fetchOk { peers := topoOf m }
  | .noCc m => .fetchOk { peers := topoOf m }
  | .dummy => .fetchOk { peers := topoOf 0 }
  | .err => .fetchErrNoCc

/-- Did some candidate's fetch succeed? -/
def anyFetched : List Outcome → Bool
  | [] => false
  | .fetched _ _ :: _ => true
  | _ :: rest => anyFetched rest

/-- The first accepted fetch, else the last rejected one (what a correct search must return). -/
def expected : List Outcome → Option Nat → Option Nat
  | [], rejected => rejected
  | .fetched m false :: _, _ => some m
  | .fetched m true :: rest, _ => expected rest (some m)
  | _ :: rest, rejected => expected rest rejected

end ScyllaVerif.C19Establish

import ScyllaVerif.Model.Murmur3
/-
Model of partition-key extraction and token calculation (C03).

* `pkIndexesOfWire` ← `deser_prepared_metadata` (`scylla-cql/src/frame/response/result.rs:976-984`): the PREPARED
  frame lists, per partition-key column *in partition-key order*, the index of its bind marker; the driver records
  `sequence = position in that list (as u16)` and then sorts by marker `index`.
* `extract`         ← `PartitionKey::new` (`scylla/src/statement/prepared.rs:782-814`): walks the bound values once
  with a running iterator offset (`u16` arithmetic; the harness is built with overflow checks, so an underflow of
  `index - offset` or an overflow of `index + 1` is a panic), stores each non-null value at `pk_values[sequence]`.
* `encodeChunks`    ← `write_encoded_partition_key` (822-848): the chunks handed to the writer.
* `calculateToken`  ← `PartitionKey::calculate_token` (850-860) with `PartitionerName::build_hasher`
  (= `calculate_token_untyped` on already serialized values); `boundCalculateToken` / `boundComputePartitionKey` add the
  `serialize_values` guard of the public entry points.
* `computePartitionKey` ← `PreparedStatement::compute_partition_key` (348-360).
* `tokenForPartitionKey` ← `calculate_token_for_partition_key` (`partitioner.rs:396-423`).
* `batchFirstToken` ← `batch_values::peek_first_token` (`statement/batch.rs:307-343`) as called by `Session::batch`.
* `clusterComputeTokenPreserialized` ← `compute_token_preserialized` (`cluster/state.rs:756-764`).
* `clusterComputeToken` ← `ClusterState::compute_token` / `do_compute_token` / `lookup_table_meta` (`cluster/state.rs:457-501`).
-/
namespace ScyllaVerif.PartitionKey
open ScyllaVerif.Murmur3

structure PkIndex where
  /-- index of the bind marker -/
  index : Nat
  /-- position within the partition key -/
  sequence : Nat
  deriving Repr, DecidableEq

/-- `RawValue` of `SerializedValues::iter()`. -/
inductive RawValue where
  | null
  | unset
  | value (bs : List UInt8)
  deriving Repr, DecidableEq

def RawValue.asValue : RawValue → Option (List UInt8)
  | .value bs => some bs
  | _ => none

def pkLe (a b : PkIndex) : Bool := a.index ≤ b.index

/-- Pairs `(index, sequence = i as u16)` in wire order, starting at position `i`. -/
def wirePairs : Nat → List Nat → List PkIndex
  | _, [] => []
  | i, ix :: rest => ⟨ix, i % 65536⟩ :: wirePairs (i + 1) rest

/-- `deser_prepared_metadata`: wire order gives `sequence`, then `sort_unstable_by_key(|pki| pki.index)`.
(The Rust sort is unstable; it is determined whenever the indices are distinct. The model uses a stable sort and the
driver checks duplicates up to the order of equal keys.) -/
def pkIndexesOfWire (wire : List Nat) : List PkIndex :=
  (wirePairs 0 wire).mergeSort pkLe

inductive ExtractErr where
  /-- `PartitionKeyExtractionError::NoPkIndexValue(pk_index.index, bound_values.element_count())` -/
  | noPkIndexValue (index count : Nat)
  /-- arithmetic overflow / index out of bounds (only on pk_indexes no server sends) -/
  | panic
  deriving Repr, DecidableEq

/-- `if let RawValue::Value(v) = next_val { pk_values[sequence] = Some(v) }`; `none` = index out of bounds. -/
def store (acc : List (Option (List UInt8))) (seq : Nat) : RawValue → Option (List (Option (List UInt8)))
  | .value bs => if seq < acc.length then some (acc.set seq (some bs)) else none
  | _ => some acc

/-- The loop of `PartitionKey::new`. `iter` is `values_iter` (the values not yet consumed), `off` is
`values_iter_offset`, `acc` is `pk_values`. `count` = `bound_values.element_count()`. -/
def extractLoop (count : Nat) :
    List PkIndex → List RawValue → Nat → List (Option (List UInt8)) → Except ExtractErr (List (Option (List UInt8)))
  | [], _, _, acc => .ok acc
  | p :: ps, iter, off, acc =>
    if p.index < off then .error .panic                       -- `pk_index.index - values_iter_offset` underflows
    else
      match iter.drop (p.index - off) with                    -- `values_iter.nth(index - offset)`
      | [] => .error (.noPkIndexValue p.index count)
      | v :: rest =>
        match store acc p.sequence v with
        | none => .error .panic                                 -- `pk_values[sequence]` out of bounds
        | some acc' =>
          if p.index + 1 > 65535 then .error .panic             -- `pk_index.index + 1` overflows `u16`
          else extractLoop count ps rest (p.index + 1) acc'

/-- `PartitionKey::new`. -/
def extract (pk : List PkIndex) (values : List RawValue) : Except ExtractErr (List (Option (List UInt8))) :=
  extractLoop values.length pk values 0 (List.replicate pk.length none)

/-- `u16::to_be_bytes`. -/
def be16 (n : Nat) : List UInt8 := [UInt8.ofNat (n / 256), UInt8.ofNat (n % 256)]

/-- Composite loop of `write_encoded_partition_key`: chunks written so far or `ValueTooLong(len)`. -/
def compositeChunks : List (List UInt8) → Except Nat (List (List UInt8))
  | [] => .ok []
  | v :: vs =>
    if v.length > 65535 then .error v.length
    else match compositeChunks vs with
      | .error e => .error e
      | .ok cs => .ok (be16 v.length :: v :: [0] :: cs)

/-- `write_encoded_partition_key`: `pk_values.iter().flatten()` (null / unset components are skipped), then
nothing / the single value / the composite encoding. -/
def encodeChunks (pkValues : List (Option (List UInt8))) : Except Nat (List (List UInt8)) :=
  match pkValues.filterMap id with
  | [] => .ok []
  | [v] => .ok [v]
  | vs => compositeChunks vs

inductive TokenErr where
  | extraction (e : ExtractErr)
  | valueTooLong (len : Nat)
  /-- `PartitionKeyError::Serialization`: `serialize_values` failed (`SerializedValues` counts its elements in a
  `u16`: the 65536th value is `TooManyValues`) -/
  | serialization
  deriving Repr, DecidableEq

/-- Feeding a chunk list to the hasher selected by the partitioner name. -/
def hashChunks (cdc : Bool) (chunks : List (List UInt8)) : Int64 :=
  if cdc then cdcFinish (chunks.foldl cdcWrite cdcInit) else finish (chunks.foldl write init)

/-- `extract_partition_key_and_calculate_token`: `None` when the statement has no pk indexes. -/
def calculateToken (cdc : Bool) (pk : List PkIndex) (values : List RawValue) : Except TokenErr (Option Int64) :=
  if pk.isEmpty then .ok none
  else match extract pk values with
    | .error e => .error (.extraction e)
    | .ok pkValues =>
      match encodeChunks pkValues with
      | .error n => .error (.valueTooLong n)
      | .ok chunks => .ok (some (hashChunks cdc chunks))

/-- `compute_partition_key`: the concatenation of the chunks. -/
def computePartitionKey (pk : List PkIndex) (values : List RawValue) : Except TokenErr (List UInt8) :=
  match extract pk values with
  | .error e => .error (.extraction e)
  | .ok pkValues =>
    match encodeChunks pkValues with
    | .error n => .error (.valueTooLong n)
    | .ok chunks => .ok chunks.flatten

/-- `PreparedStatement::calculate_token(values)` (394-399) = `calculate_token_untyped(&self.serialize_values(values)?)`:
binding more than 65535 values fails in `serialize_values` before the partition key is looked at. -/
def boundCalculateToken (cdc : Bool) (pk : List PkIndex) (values : List RawValue) : Except TokenErr (Option Int64) :=
  if values.length > 65535 then .error .serialization else calculateToken cdc pk values

/-- `PreparedStatement::compute_partition_key(values)` (348-360), with the same `serialize_values` guard. -/
def boundComputePartitionKey (pk : List PkIndex) (values : List RawValue) : Except TokenErr (List UInt8) :=
  if values.length > 65535 then .error .serialization else computePartitionKey pk values

/-- `calculate_token_for_partition_key` (`partitioner.rs:396-423`): values already in partition-key order.
One element: written iff it is a value. Otherwise every *value* gets the composite framing. -/
def tokenForPartitionKey (cdc : Bool) (values : List RawValue) : Except Nat Int64 :=
  match values with
  | [v] =>
    match v with
    | .value bs => .ok (hashChunks cdc [bs])
    | _ => .ok (hashChunks cdc [])
  | vs =>
    match compositeChunks (vs.filterMap RawValue.asValue) with
    | .error n => .error n
    | .ok chunks => .ok (hashChunks cdc chunks)

/-! ### `ClusterState::compute_token` (`cluster/state.rs:457-501`): the token path that bypasses `PreparedStatement` -/

/-- What `compute_token` reads of a `Table`: the number of partition-key columns (`pk_column_specs.len()`) and the
partitioner string. -/
structure TableInfo where
  pkColumns : Nat
  partitioner : Option (List UInt8)
  deriving Repr

/-- `ClusterState::keyspaces`: keyspace name ↦ table name ↦ table (names as UTF-8 bytes). -/
abbrev TableSnapshot := List (List UInt8 × List (List UInt8 × TableInfo))

inductive ClusterTokenErr where
  /-- `ClusterStateTokenError::UnknownTable` -/
  | unknownTable
  /-- `ClusterStateTokenError::Serialization`: the key does not have one value per partition-key column -/
  | serialization
  /-- `ClusterStateTokenError::TokenCalculation(ValueTooLong(n))` -/
  | valueTooLong (n : Nat)
  deriving Repr, DecidableEq

/-- `compute_token(keyspace, table, partition_key)`: `lookup_table_meta`, serialize the key against
`pk_column_specs` (one value per column), partitioner = `table.partitioner.and_then(from_str).unwrap_or_default()`,
`calculate_token_for_partition_key`. The key's values are given in partition-key order. -/
def clusterComputeToken (schema : TableSnapshot) (ks table : List UInt8) (key : List RawValue) :
    Except ClusterTokenErr Int64 :=
  match schema.lookup ks with
  | none => .error .unknownTable
  | some tables =>
    match tables.lookup table with
    | none => .error .unknownTable
    | some t =>
      if key.length ≠ t.pkColumns ∨ 65535 < key.length then .error .serialization
      else
        match tokenForPartitionKey (selectPartitioner t.partitioner == .cdc) key with
        | .error n => .error (.valueTooLong n)
        | .ok tok => .ok tok

/-- `compute_token` with the Rust-side type check of `SerializedValues::from_serializable` made explicit:
`typesOk = false` (a value whose Rust type its column does not accept — C17's subject) is a `Serialization` error,
after the table lookup. -/
def clusterComputeTokenChecked (typesOk : Bool) (schema : TableSnapshot) (ks table : List UInt8)
    (key : List RawValue) : Except ClusterTokenErr Int64 :=
  match clusterComputeToken schema ks table key with
  | .error .unknownTable => .error .unknownTable
  | r => if typesOk then r else .error .serialization

/-- `compute_token_preserialized` (`state.rs:756-764`): `lookup_table_meta` + `do_compute_token` on values the caller
serialized himself — no column-count and no type check. (`compute_token_preserialized_with_partitioner`, 778-785, is
`tokenForPartitionKey` itself.) -/
def clusterComputeTokenPreserialized (schema : TableSnapshot) (ks table : List UInt8) (key : List RawValue) :
    Except ClusterTokenErr Int64 :=
  match schema.lookup ks with
  | none => .error .unknownTable
  | some tables =>
    match tables.lookup table with
    | none => .error .unknownTable
    | some t =>
      match tokenForPartitionKey (selectPartitioner t.partitioner == .cdc) key with
      | .error n => .error (.valueTooLong n)
      | .ok tok => .ok tok

/-! ### the routing token of a BATCH (`batch_values::peek_first_token`, `statement/batch.rs:307-343`) -/

/-- What `peek_first_token` looks at in `batch.statements.first()`. -/
inductive BatchStmt where
  /-- `BatchStatement::Query` -/
  | unprepared
  /-- `BatchStatement::PreparedStatement`: its partitioner, pk index table and number of bind markers -/
  | prepared (cdc : Bool) (pk : List PkIndex) (ncols : Nat)
  deriving Repr

/-- `peek_first_token(values, batch.statements.first())` as `Session::batch` calls it (`session.rs:1062-1063`):
only a PREPARED first statement gives a token; the FIRST row of the batch values is serialized against it
(`serialize_next`: one value per bind marker, at most 65535 — else a serialization error; no row at all: no token) and
`calculate_token_untyped` is applied. Later statements and later rows are never looked at. -/
def batchFirstToken (stmts : List BatchStmt) (rows : List (List RawValue)) : Except TokenErr (Option Int64) :=
  match stmts with
  | .prepared cdc pk ncols :: _ =>
    match rows with
    | [] => .ok none
    | row :: _ =>
      if row.length ≠ ncols ∨ 65535 < row.length then .error .serialization
      else calculateToken cdc pk row
  | _ => .ok none

/-! ### The specification side -/

/-- The serialized partition key as the server hashes it: the single component's bytes, or for a composite key
each component as `be16 len ++ bytes ++ [0]`. -/
def encodeKey : List (List UInt8) → List UInt8
  | [v] => v
  | vs => (vs.map (fun v => be16 v.length ++ v ++ [0])).flatten

end ScyllaVerif.PartitionKey

import ScyllaVerif.Model.MetaUpdate
/-
Model of the life of an explicit refresh request (C19, "a metadata refresh that was requested is eventually
answered"): requester → `MetadataWorker` (producer) → merge-channel slot → `ClusterWorker` (consumer) → reply.

* `request`        ← `Cluster::refresh_metadata` (cluster/worker.rs:197-211): a fresh oneshot reply channel (here: a fresh
                     id) is sent over the bounded `refresh_channel`.
* `recvRequest`    ← `self.refresh_channel.recv()` + `set_pending_request` (metadata/worker.rs:574-577, 700-704,
                     866-871): at most one request is pending; the others wait in the channel (FIFO).
* `fetchOk m`      ← a full fetch succeeded: `publish_metadata` (853-862) takes the pending request and runs
                     `send_update(|slot| MetadataUpdate::merge_metadata(slot, metadata, response_chan))`. If the cluster
                     worker is gone `modify` returns `SendError` WITHOUT running the closure, which drops the reply
                     channel it owns (merge_channel.rs:106-108).
* `fetchErrNoCc`   ← `work_without_cc`: establishing a control connection failed; the error goes to the requester
                     (556-563).
* `fetchErrOnCc`   ← `work_on_cc`: the full fetch failed; the request stays pending and is retried while a new control
                     connection is established (653-662).
* `merge op`       ← the other `send_update` calls (topology / client routes / status hints: 666, 679, 806, 823).
* `consumerTake`   ← `maybe_metadata_update = self.metadata_updates.recv()` (cluster/worker.rs:325) followed by
                     `apply_metadata_update` up to its awaits (392-468): the update has left the slot, its reply channels
                     are held by the running handler (a `select!` branch body runs to completion before the next `recv`).
* `consumerFinish` ← the end of `apply_metadata_update` (471-476): EVERY entry of `refresh_responses` is answered `Ok(())`
                     after the new state was published. A partial update carries no reply channel (424-443).
* `consumerGone`   ← the cluster worker returns (its other `select!` branches, 299, 330, 342, 357) or is dropped at an
                     await of the handler: the receiver, the slot's contents and the handler's channels are dropped.
* `producerGone`   ← the metadata worker stops with a request pending (e.g. `ControlConnectionEvent::Shutdown`, 712-721,
                     the code's own "known issue"): the pending reply channel is dropped.
-/
namespace ScyllaVerif.RefreshFlow
open ScyllaVerif.MetaUpdate

structure Flow where
  /-- number of refresh requests issued so far; request ids are `0 .. next-1`. -/
  next : Nat := 0
  /-- requests waiting in `refresh_channel`, oldest first. -/
  waiting : List Nat := []
  /-- `MetadataWorker::pending_request`. -/
  pending : Option Nat := none
  /-- the merge channel's slot. -/
  slot : Option Update := none
  /-- reply channels held by the running `apply_metadata_update`. -/
  applying : List Nat := []
  /-- handler running (between `consumerTake` and `consumerFinish`). -/
  busy : Bool := false
  answeredOk : List Nat := []
  answeredErr : List Nat := []
  /-- reply channels dropped unanswered (the requester's `.expect` fires). -/
  dropped : List Nat := []
  consumerGone : Bool := false
  producerGone : Bool := false
  deriving Repr

def init : Flow := {}

inductive Ev where
  | request
  | recvRequest
  | fetchOk (m : Meta)
  | fetchErrNoCc
  | fetchErrOnCc
  | merge (op : Op)
  | consumerTake
  | consumerFinish
  | consumerGone
  | producerGone
  deriving Repr

/-- An operation as sent by the non-refresh `send_update` calls: never carries a reply channel. -/
def stripRefresh : Op → Op
  | .metadata m _ => .metadata m none
  | op => op

def step (s : Flow) : Ev → Flow
  | .request => { s with next := s.next + 1, waiting := s.waiting ++ [s.next] }
  | .recvRequest =>
    if s.producerGone then s else
    match s.pending, s.waiting with
    | none, r :: rest => { s with pending := some r, waiting := rest }
    | _, _ => s
  | .fetchOk m =>
    if s.producerGone then s
    else if s.consumerGone then
      -- SendError: the closure (owning the reply channel) is dropped unrun
      { s with pending := none, dropped := s.dropped ++ s.pending.toList }
    else { s with slot := mergeMetadata s.slot m s.pending, pending := none }
  | .fetchErrNoCc =>
    if s.producerGone then s else
    { s with pending := none, answeredErr := s.answeredErr ++ s.pending.toList }
  | .fetchErrOnCc => s
  | .merge op =>
    if s.producerGone || s.consumerGone then s else { s with slot := apply s.slot (stripRefresh op) }
  | .consumerTake =>
    if s.consumerGone || s.busy then s else
    match s.slot with
    | none => s
    | some u => { s with slot := none, applying := refreshIds (some u), busy := true }
  | .consumerFinish =>
    if s.consumerGone || !s.busy then s else
    { s with answeredOk := s.answeredOk ++ s.applying, applying := [], busy := false }
  | .consumerGone =>
    if s.consumerGone then s else
    { s with consumerGone := true, busy := false, slot := none, applying := [],
             dropped := s.dropped ++ s.applying ++ refreshIds s.slot }
  | .producerGone =>
    if s.producerGone then s else
    { s with producerGone := true, pending := none, dropped := s.dropped ++ s.pending.toList }

def run (s : Flow) (evs : List Ev) : Flow := evs.foldl step s

/-- How many times request `id` occurs in all the places a reply channel can be. -/
def places (s : Flow) (id : Nat) : Nat :=
  s.waiting.count id + s.pending.toList.count id + (refreshIds s.slot).count id + s.applying.count id +
  s.answeredOk.count id + s.answeredErr.count id + s.dropped.count id

/-- Neither worker stopped. -/
def isAlive : Ev → Bool
  | .consumerGone | .producerGone => false
  | _ => true

end ScyllaVerif.RefreshFlow

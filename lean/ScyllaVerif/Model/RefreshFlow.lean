import ScyllaVerif.Model.MetaUpdate
/-
Model of the life of an explicit refresh request (C19, "a metadata refresh that was requested is eventually
answered"): requester → `MetadataWorker` (producer) → merge-channel slot → `ClusterWorker` (consumer) → reply.

* `request`        ← `Cluster::refresh_metadata` (cluster/worker.rs:197-211): a fresh oneshot reply channel (here: a fresh
                     id) is sent over the bounded `refresh_channel`. If the metadata worker is gone the mpsc receiver is
                     dead: `send` fails and the `.expect` at 205 panics - the request dies with its requester (`dropped`).
* `recvRequest`    ← `self.refresh_channel.recv()` + `set_pending_request` (metadata/worker.rs:574-577, 700-704,
                     866-871). The Rust receives a request only when no full fetch / establishment attempt is running
                     (`if !full_fetch_in_flight`, 700; in `work_without_cc` the `select!` at 571 runs between attempts) and
                     then starts one right away (`plan.note_full_needed()` + `start_due_fetches` at the loop top, 636;
                     the next loop iteration of `work_without_cc`). `set_pending_request` only `debug_assert`s that nothing
                     is pending and OVERWRITES: the model does the same (an overwritten request is `dropped`); that this never
                     happens is a theorem (`Props.C19.pending_never_overwritten`), not a guard.
* `periodicFetch`  ← a full fetch started with no request pending (refresh interval / server events / repair cadence).
* `fetchOk m`      ← the running full fetch / establishment succeeded: `publish_metadata` (853-862) takes the pending
                     request and runs `send_update(|slot| merge_metadata(slot, metadata, response_chan))`. If the cluster
                     worker is gone `modify` returns `SendError` WITHOUT running the closure, which drops the reply channel
                     it owns (merge_channel.rs:106-108), and `publish_metadata` returns `Break`: the metadata worker stops.
* `fetchErrNoCc`   ← `work_without_cc`: the attempt failed; the error goes to the requester (556-563).
* `fetchErrOnCc`   ← `work_on_cc`: the full fetch failed (653-662); the request stays pending and an establishment attempt
                     (which fetches, too) follows at once - still `fetching`.
* `merge op`       ← the other `send_update` calls (topology / client routes / status hints: 666, 679, 806, 823); a
                     `SendError` stops the metadata worker (`return ControlFlow::Break(())`).
* `mergeEstab op`  ← the same sends made while an establishment attempt is running (`fetch_on_candidate` drains server
                     events, 461-480): there the `Break` is deliberately ignored - a `SendError` applies nothing and the
                     producer continues (a failing attempt then still answers the pending request with the error).
* `consumerTake`   ← `self.metadata_updates.recv()` (cluster/worker.rs:325) + `apply_metadata_update` up to its awaits
                     (392-468): the update has left the slot, its reply channels are held by the running handler (a `select!`
                     branch body runs to completion before the next `recv`).
* `consumerFinish` ← the end of `apply_metadata_update` (471-476): EVERY entry of `refresh_responses` is answered `Ok(())`.
* `consumerGone`   ← the cluster worker returns (299, 330, 342, 357) or its task is dropped at an await of the handler:
                     the handler's channels are dropped; `Drop for Receiver` only sets `receiver_dropped`
                     (merge_channel.rs:178-182) - the slot's contents live on in the shared `Arc` until the sender goes too.
* `producerGone`   ← the metadata worker stops (e.g. `ControlConnectionEvent::Shutdown`, 712-721, the code's own "known
                     issue"; or a `SendError`): the pending reply channel, the `refresh_channel` receiver with every
                     request still queued in it, and the merge-channel `Sender` are dropped.
When both endpoints are gone the shared slot is freed and the reply channels in it are dropped.
-/
namespace ScyllaVerif.RefreshFlow
open ScyllaVerif.MetaUpdate

structure Flow where
  /-- number of refresh requests issued so far; request ids are `0 .. next-1`. -/
  next : Nat := 0
  /-- requests waiting in `refresh_channel`, oldest first. -/
  waiting : List Nat := []
  /-- `MetadataWorker::pending_request`. -/
  pending : Option Nat := none
  /-- a full fetch / establishment attempt is running (`full_fetch_in_flight`, or inside `establish`). -/
  fetching : Bool := false
  /-- the merge channel's slot. -/
  slot : Option Update := none
  /-- reply channels held by the running `apply_metadata_update`. -/
  applying : List Nat := []
  /-- handler running (between `consumerTake` and `consumerFinish`). -/
  busy : Bool := false
  answeredOk : List Nat := []
  answeredErr : List Nat := []
  /-- reply channels dropped unanswered (the requester's `.expect` fires). -/
  dropped : List Nat := []
  consumerGone : Bool := false
  producerGone : Bool := false
  deriving Repr

def init : Flow := {}

inductive Ev where
  | request
  | recvRequest
  | periodicFetch
  | fetchOk (m : Meta)
  | fetchErrNoCc
  | fetchErrOnCc
  | merge (op : Op)
  | mergeEstab (op : Op)
  | consumerTake
  | consumerFinish
  | consumerGone
  | producerGone
  deriving Repr

/-- An operation as sent by the non-refresh `send_update` calls: never carries a reply channel. -/
def stripRefresh : Op → Op
  | .metadata m _ => .metadata m none
  | op => op

/-- Full metadata reaches the slot only through `publish_metadata` (the `fetchOk` event): the other `send_update` calls
merge a peer list, a client-routes snapshot or a status hint (metadata/worker.rs:666, 679, 806, 823), so a `merge` /
`mergeEstab` event carrying `.metadata` is not an event of the system and stutters. -/
def carriesMetadata : Op → Bool
  | .metadata _ _ => true
  | _ => false

/-- The metadata worker's task ends: pending request, queued requests and the `Sender` are dropped; if the receiver is
gone as well the shared slot is freed. -/
def stopProducer (s : Flow) : Flow :=
  let s' := { s with producerGone := true, fetching := false, pending := none, waiting := [],
                     dropped := s.dropped ++ s.pending.toList ++ s.waiting }
  if s'.consumerGone then { s' with slot := none, dropped := s'.dropped ++ refreshIds s'.slot } else s'

def step (s : Flow) : Ev → Flow
  | .request =>
    if s.producerGone then { s with next := s.next + 1, dropped := s.dropped ++ [s.next] }
    else { s with next := s.next + 1, waiting := s.waiting ++ [s.next] }
  | .recvRequest =>
    if s.producerGone || s.fetching then s else
    match s.waiting with
    | r :: rest =>
      { s with pending := some r, waiting := rest, fetching := true, dropped := s.dropped ++ s.pending.toList }
    | [] => s
  | .periodicFetch => if s.producerGone || s.fetching then s else { s with fetching := true }
  | .fetchOk m =>
    if s.producerGone || !s.fetching then s
    else if s.consumerGone then
      -- SendError: the closure (owning the reply channel) is dropped unrun; `Break`: the worker stops
      stopProducer s
    else { s with slot := mergeMetadata s.slot m s.pending, pending := none, fetching := false }
  | .fetchErrNoCc =>
    if s.producerGone || !s.fetching then s else
    { s with pending := none, fetching := false, answeredErr := s.answeredErr ++ s.pending.toList }
  | .fetchErrOnCc => s
  | .merge op =>
    if s.producerGone || carriesMetadata op then s
    else if s.consumerGone then stopProducer s
    else { s with slot := apply s.slot (stripRefresh op) }
  | .mergeEstab op =>
    -- a server event handled DURING establishment: `fetch_on_candidate` ignores the `Break` of `handle_server_event`
    -- (metadata/worker.rs:469-477) - after a `SendError` nothing is applied and the producer goes on
    if s.producerGone || s.consumerGone || carriesMetadata op then s
    else { s with slot := apply s.slot (stripRefresh op) }
  | .consumerTake =>
    if s.consumerGone || s.busy then s else
    match s.slot with
    | none => s
    | some u => { s with slot := none, applying := refreshIds (some u), busy := true }
  | .consumerFinish =>
    if s.consumerGone || !s.busy then s else
    { s with answeredOk := s.answeredOk ++ s.applying, applying := [], busy := false }
  | .consumerGone =>
    if s.consumerGone then s else
    let s' := { s with consumerGone := true, busy := false, applying := [], dropped := s.dropped ++ s.applying }
    if s'.producerGone then { s' with slot := none, dropped := s'.dropped ++ refreshIds s'.slot } else s'
  | .producerGone => if s.producerGone then s else stopProducer s

def run (s : Flow) (evs : List Ev) : Flow := evs.foldl step s

/-- How many times request `id` occurs in all the places a reply channel can be. -/
def places (s : Flow) (id : Nat) : Nat :=
  s.waiting.count id + s.pending.toList.count id + (refreshIds s.slot).count id + s.applying.count id +
  s.answeredOk.count id + s.answeredErr.count id + s.dropped.count id

/-- Neither worker stopped. -/
def isAlive : Ev → Bool
  | .consumerGone | .producerGone => false
  | _ => true

/-- Nothing is in flight: every issued request has been answered or dropped. -/
def Quiet (s : Flow) : Prop :=
  s.waiting = [] ∧ s.pending = none ∧ refreshIds s.slot = [] ∧ s.applying = []

/-! ### ghost time: which fetch served which request

`Timed` wraps a `Flow` with a logical clock that ticks when a request is made and when a full fetch / establishment
attempt STARTS. `issued` records when each request was made, `fetchStart` when the running fetch was started, `served`
which fetch (by its start time) produced the outcome handed to a request: the successful fetch whose metadata carried
its reply channel into the slot (`publish_metadata`), or the failed attempt whose error it was answered with. -/

structure Timed where
  flow : Flow := {}
  clock : Nat := 0
  issued : List (Nat × Nat) := []
  fetchStart : Nat := 0
  served : List (Nat × Nat) := []
  deriving Repr

def tinit : Timed := {}

def tstep (t : Timed) (e : Ev) : Timed :=
  let f := t.flow
  let t' := { t with flow := step f e }
  match e with
  | .request => { t' with issued := t.issued ++ [(f.next, t.clock)], clock := t.clock + 1 }
  | .recvRequest =>
    if !f.producerGone && !f.fetching && !f.waiting.isEmpty then { t' with fetchStart := t.clock, clock := t.clock + 1 }
    else t'
  | .periodicFetch =>
    if !f.producerGone && !f.fetching then { t' with fetchStart := t.clock, clock := t.clock + 1 } else t'
  | .fetchOk _ =>
    if !f.producerGone && f.fetching && !f.consumerGone then
      { t' with served := t.served ++ f.pending.toList.map (fun r => (r, t.fetchStart)) }
    else t'
  | .fetchErrNoCc =>
    if !f.producerGone && f.fetching then
      { t' with served := t.served ++ f.pending.toList.map (fun r => (r, t.fetchStart)) }
    else t'
  | _ => t'

def trun (t : Timed) (evs : List Ev) : Timed := evs.foldl tstep t

end ScyllaVerif.RefreshFlow

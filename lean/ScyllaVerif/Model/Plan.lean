import ScyllaVerif.Model.Ring
import ScyllaVerif.Model.Replicas
/-
Model of the default load-balancing policy and of `Plan` (C05).  Builds on the C04 model (`Model/Ring.lean`,
`Model/Replicas.lean`).  Latency awareness is OFF (`latency_awareness = None`, `pick_predicate = is_alive`): not modelled.

* `Pref`                 ← `NodeLocationPreference` (`routing/mod.rs:66-97`) and the private `NodeLocationCriteria`
                           (`default.rs:24-37`) - the same three shapes; datacenter / rack names are numbers as in C04.
* `Cluster`              ← what the policy reads of `ClusterState`: the replica locator, `get_keyspace(name).strategy`
                           (keyspace `k<i>` ↦ `keyspaces[i]`), per node `is_enabled()` / `is_connected()`
                           (`cluster/node.rs:225-255`; a node without a pool is not connected, so
                           `alive = enabled ∧ connected`), and `with_computed_shard` (`locator/mod.rs:272-278`) as `sh`.
* `Config`               ← `DefaultPolicy { preferences, is_token_aware, permit_dc_failover }` (`default.rs:95-130`);
                           `fixed_seed` only decides where the random choices come from, here they are arguments.
* `Request`              ← `RoutingInfo` (`mod.rs:24-99`): `serial_consistency` is never read by the policy and is
                           therefore absent; `routeAsLwt` ← `should_route_as_lwt`.
* `tokenWithStrategy`, `preference`, `failoverPossible` ← `TokenWithStrategy::new`, `ProcessedRoutingInfo::new`,
                           `DefaultPolicy::routing_info`, `is_datacenter_failover_possible` (`default.rs:580-592, 904-906, 1141-1172`).
* `filteredReplicas`, `pickFirstReplica`, `chooseFiltered`, `pickRandomReplica`, `replicaTargets` ←
                           `filtered_replicas`, `pick_first_replica`, `ReplicaSet::choose_filtered` (`locator/mod.rs:316-331`),
                           `pick_random_replica`, `maybe_shuffled_replicas` (`default.rs:664-838`).
* `rotated`, `pickNode`, `roundRobin` ← `randomly_rotated_nodes`, `pick_node`, `round_robin_nodes` (`default.rs:841-875`).
* `shuffleWith`          ← `SliceRandom::shuffle` (`default.rs:878-892`): some permutation of the input, selected by `ρ`.
* `pick`                 ← `DefaultPolicy::pick` (`default.rs:145-316`), `fallbackGroups` / `fallback` ← `DefaultPolicy::fallback`
                           (`default.rs:318-541`): the chained iterators and `unique_by(DefaultPolicyTargetComparator)`.
* `PlanState`, `planNext`, `planRun`, `plan` ← `plan.rs:8-157` (`Plan::next`); `plan` is the closed form.

All random choices are explicit arguments: `RhoPick` (index draws of `choose_filtered`, rotation offsets of `pick_node`),
`RhoFb` (one shuffle per replica group, one rotation offset per round-robin group).
-/
namespace ScyllaVerif.Plan
open ScyllaVerif.Ring ScyllaVerif.Replicas

/-- `NodeLocationPreference` / `NodeLocationCriteria`. -/
inductive Pref where
  | any
  | dc (d : Nat)
  | dcRack (d r : Nat)
  deriving DecidableEq, Repr

/-- `NodeLocationPreference::datacenter` / `NodeLocationCriteria::datacenter`. -/
def Pref.datacenter : Pref → Option Nat
  | .any => none
  | .dc d => some d
  | .dcRack d _ => some d

/-- `frame::types::Consistency`. -/
inductive Consistency where
  | any | one | two | three | quorum | all | localQuorum | eachQuorum | localOne | serial | localSerial
  deriving DecidableEq, Repr

/-- The part of `ClusterState` the policy reads. -/
structure Cluster where
  loc : Locator
  /-- `get_keyspace("k<i>")` = `keyspaces[i]` (absent = unknown keyspace). -/
  keyspaces : List Strategy
  /-- host ids of the nodes rejected by the host filter (`!is_enabled()`). -/
  disabled : List Nat
  /-- host ids of the nodes without a usable connection. -/
  down : List Nat
  /-- `with_computed_shard`: shard of the request's token on the node with this host id. -/
  sh : Nat → Nat

/-- `Node::is_enabled`. -/
def Cluster.enabled (cl : Cluster) (n : Node) : Bool := decide (n.id ∉ cl.disabled)

/-- `DefaultPolicy::is_alive` = `Node::is_connected` (false for a disabled node: it has no pool). -/
def Cluster.alive (cl : Cluster) (n : Node) : Bool := cl.enabled n && decide (n.id ∉ cl.down)

/-- `DefaultPolicy` configuration (latency awareness off). -/
structure Config where
  /-- `preferences`: `none` = inherit the preference carried by the request. -/
  pref : Option Pref
  tokenAware : Bool
  failover : Bool
  deriving Repr

/-- `RoutingInfo`. -/
structure Request where
  consistency : Consistency
  /-- already normalised by `Token::new`. -/
  token : Option Int
  /-- `table.ks_name()` = `k<i>`. -/
  table : Option Nat
  confirmedLwt : Bool
  /-- `node_location_preference` (session level). -/
  pref : Pref
  deriving Repr

/-- `RoutingInfo::should_route_as_lwt`. -/
def Request.routeAsLwt (rq : Request) : Bool :=
  rq.confirmedLwt || rq.consistency == .serial || rq.consistency == .localSerial

/-- `TokenWithStrategy::new` followed by `if !self.is_token_aware { token_with_strategy = None }`. -/
def tokenWithStrategy (cl : Cluster) (cfg : Config) (rq : Request) : Option (Strategy × Int) :=
  if !cfg.tokenAware then none
  else match rq.token, rq.table with
    | some tok, some ks => (cl.keyspaces[ks]?).map (fun s => (s, tok))
    | _, _ => none

/-- `policy_preference.unwrap_or(query.node_location_preference)`. -/
def preference (cfg : Config) (rq : Request) : Pref := cfg.pref.getD rq.pref

/-- `is_datacenter_failover_possible`. -/
def failoverPossible (cfg : Config) (rq : Request) : Bool :=
  (preference cfg rq).datacenter.isSome && cfg.failover

/-- A plan element: node and optional shard. -/
abbrev Target := Node × Option Nat

/-! ### node lists -/

/-- `unique_nodes_in_global_ring()`. -/
def allNodes (cl : Cluster) : List Node := uniqueNodes cl.loc.ring

/-- `preferred_node_set`: the preferred datacenter's nodes (`&[]` when it is not in the ring), else all nodes. -/
def localNodes (cl : Cluster) (pref : Pref) : List Node :=
  match pref.datacenter with
  | some d => uniqueNodes (dcRing cl.loc.ring d)
  | none => allNodes cl

/-- `randomly_rotated_nodes` with `index = rng().random_range(0..len)` as `rot % len`. -/
def rotated (nodes : List Node) (rot : Nat) : List Node :=
  if nodes.length > 0 then rotateAt nodes (rot % nodes.length) else []

/-- `pick_node`. -/
def pickNode (nodes : List Node) (pred : Node → Bool) (rot : Nat) : Option Node := (rotated nodes rot).find? pred

/-- `round_robin_nodes`. -/
def roundRobin (nodes : List Node) (pred : Node → Bool) (rot : Nat) : List Node := (rotated nodes rot).filter pred

/-- Insert at position `k` (at the end when `k` is too large). -/
def insertAt {α : Type} (a : α) : Nat → List α → List α
  | 0, l => a :: l
  | _ + 1, [] => [a]
  | k + 1, b :: l => b :: insertAt a k l

/-- `vec.shuffle(rng)`: a permutation of the input selected by the draws `ks` (every permutation is reachable). -/
def shuffleWith {α : Type} : List Nat → List α → List α
  | _, [] => []
  | [], l => l
  | k :: ks, a :: l => insertAt a k (shuffleWith ks l)

/-! ### replicas -/

/-- `make_rack_predicate` / `make_sharded_rack_predicate`: the rack requirement of the criteria. -/
def rackOk (crit : Pref) (n : Node) : Bool :=
  match crit with
  | .dcRack _ r => n.rack == some r
  | _ => true

/-- `nonfiltered_replica_set`. -/
def replicaSet (cl : Cluster) (ts : Strategy × Int) (crit : Pref) : ReplicaSet :=
  replicasForToken cl.loc ts.2 ts.1 crit.datacenter

/-- `filtered_replicas` with the predicate `is_alive`: ring-ordered view for `ReplicaOrder::Deterministic`,
plain iteration otherwise; then `predicate(node, shard) && rack matches`. -/
def filteredReplicas (cl : Cluster) (ts : Strategy × Int) (crit : Pref) (deterministic : Bool) : List Node :=
  let rs := replicaSet cl ts crit
  (if deterministic then rs.ordered cl.loc else rs.iter cl.loc).filter (fun n => cl.alive n && rackOk crit n)

/-- `PickedReplica`. -/
inductive Picked where
  | computed (n : Node)
  | toBeComputedInFallback
  deriving Repr

/-- `pick_first_replica`. -/
def pickFirstReplica (cl : Cluster) (ts : Strategy × Int) (crit : Pref) : Option Picked :=
  match crit with
  | .any =>
    (((replicaSet cl ts crit).ordered cl.loc).head?).map
      (fun primary => if cl.alive primary then .computed primary else .toBeComputedInFallback)
  | _ => ((filteredReplicas cl ts crit true).head?).map .computed

/-- `ReplicaSet::choose_filtered`: `i` = the index drawn by `choose`, `j` = the draw of `IteratorRandom::choose`. -/
def chooseFiltered (loc : Locator) (rs : ReplicaSet) (pred : Node → Bool) (i j : Nat) : Option Node :=
  match rs.choose loc (i % rs.len loc) with
  | none => none
  | some happy =>
    if pred happy then some happy
    else
      let cands := (rs.iter loc).filter pred
      cands[j % cands.length]?

/-- `pick_random_replica`. -/
def pickRandomReplica (cl : Cluster) (ts : Strategy × Int) (crit : Pref) (i j : Nat) : Option Node :=
  chooseFiltered cl.loc (replicaSet cl ts crit) (fun n => cl.alive n && rackOk crit n) i j

/-- `pick_replica`. -/
def pickReplica (cl : Cluster) (ts : Strategy × Int) (crit : Pref) (lwt : Bool) (i j : Nat) : Option Picked :=
  if lwt then pickFirstReplica cl ts crit else (pickRandomReplica cl ts crit i j).map .computed

/-- Replica with its shard: `(node, Some(shard))`. -/
def sharded (cl : Cluster) (n : Node) : Target := (n, some (cl.sh n.id))

/-- Node without shard: `(node, None)`. -/
def shardless (n : Node) : Target := (n, none)

/-- `maybe_shuffled_replicas(..).map(|(node, shard)| (node, Some(shard)))`. -/
def replicaTargets (cl : Cluster) (ts : Strategy × Int) (crit : Pref) (lwt : Bool) (shuf : List Nat) : List Target :=
  let l := filteredReplicas cl ts crit lwt
  (if lwt then l else shuffleWith shuf l).map (sharded cl)

/-! ### `pick` -/

/-- Random choices of one `pick` call. -/
structure RhoPick where
  (rackI rackJ dcI dcJ anyI anyJ : Nat)
  (rotRack rotLocal rotAll rotDownLocal rotDownAll : Nat)
  deriving Repr

/-- `return match picked { Computed((n, shard)) => Some((n, Some(shard))), ToBeComputedInFallback => None }`. -/
def retPicked (cl : Cluster) : Picked → Option Target
  | .computed n => some (sharded cl n)
  | .toBeComputedInFallback => none

/-- First step that returns (`some r` = `return r`, `none` = fall through). -/
def firstReturn {α : Type} : List (Option α) → Option α
  | [] => none
  | some r :: _ => some r
  | none :: rest => firstReturn rest

/-- The steps of `pick` in order; each either returns (`some result`) or falls through (`none`). -/
def pickSteps (cl : Cluster) (cfg : Config) (rq : Request) (ρ : RhoPick) : List (Option (Option Target)) :=
  let pref := preference cfg rq
  let lwt := rq.routeAsLwt
  let fp := failoverPossible cfg rq
  let ts := tokenWithStrategy cl cfg rq
  let locals := localNodes cl pref
  let all := allNodes cl
  [ -- token-aware part (`if let (Some(ts), Some(table_spec)) = ..`: `table` is `Some` whenever `ts` is)
    (match ts, pref with
      | some ts, .dcRack d r => (pickReplica cl ts (.dcRack d r) lwt ρ.rackI ρ.rackJ).map (retPicked cl)
      | _, _ => none),
    (match ts, pref.datacenter with
      | some ts, some d => (pickReplica cl ts (.dc d) lwt ρ.dcI ρ.dcJ).map (retPicked cl)
      | _, _ => none),
    (match ts with
      | some ts =>
        if pref.datacenter.isNone || fp then (pickReplica cl ts .any lwt ρ.anyI ρ.anyJ).map (retPicked cl) else none
      | none => none),
    -- token-unaware part
    (match pref with
      | .dcRack _ r => (pickNode locals (fun n => cl.alive n && n.rack == some r) ρ.rotRack).map (fun n => some (shardless n))
      | _ => none),
    (pickNode locals cl.alive ρ.rotLocal).map (fun n => some (shardless n)),
    (if fp then (pickNode all cl.alive ρ.rotAll).map (fun n => some (shardless n)) else none),
    (pickNode locals cl.enabled ρ.rotDownLocal).map (fun n => some (shardless n)),
    (if fp then (pickNode all cl.enabled ρ.rotDownAll).map (fun n => some (shardless n)) else none) ]

/-- `DefaultPolicy::pick`. -/
def pick (cl : Cluster) (cfg : Config) (rq : Request) (ρ : RhoPick) : Option Target :=
  (firstReturn (pickSteps cl cfg rq ρ)).getD none

/-! ### `fallback` -/

/-- Random choices of one `fallback` call. -/
structure RhoFb where
  (shufRack shufDc shufAny : List Nat)
  (rotRack rotLocal rotAll : Nat)
  deriving Repr

/-- `DefaultPolicyTargetComparator::eq`: same host id, and same shard unless one of the two has none. -/
def targetEq (a b : Target) : Bool :=
  a.1.id == b.1.id &&
    (match a.2, b.2 with
     | some x, some y => x == y
     | _, _ => true)

/-- `itertools::unique_by(key)` with a set of keys already seen: an element is dropped iff its key equals a kept one. -/
def uniqueByFrom (seen : List Target) : List Target → List Target
  | [] => []
  | a :: l => if seen.any (fun s => targetEq s a) then uniqueByFrom seen l else a :: uniqueByFrom (a :: seen) l

/-- `unique_by(|(node, shard)| DefaultPolicyTargetComparator { host_id, shard })`. -/
def uniqueBy (l : List Target) : List Target := uniqueByFrom [] l

/-- `impl Hash for DefaultPolicyTargetComparator` (`default.rs:508-512`): the host id only - never the shard, because
a target without shard must land in the bucket of every target of the same node. -/
def targetHash (t : Target) : Nat := t.1.id

/-- `itertools::unique_by` literally: the keys kept so far live in a `HashMap`; a probe is compared (`Eq`) only with
the stored keys whose hash equals its own (`hash` = the `Hash` impl composed with the map's hasher). -/
def uniqueByHashedFrom (hash : Target → Nat) (seen : List Target) : List Target → List Target
  | [] => []
  | a :: l =>
    if seen.any (fun s => hash s == hash a && targetEq s a) then uniqueByHashedFrom hash seen l
    else a :: uniqueByHashedFrom hash (a :: seen) l

/-- `unique_by` over a hash map whose keys hash by `hash`.  With `hash = targetHash` this is `uniqueBy`
(`Props.C05.uniqueByHashed_targetHash`: the `Hash`/`Eq` contract holds); with a hash that reads the shard it is not. -/
def uniqueByHashed (hash : Target → Nat) (l : List Target) : List Target := uniqueByHashedFrom hash [] l

/-- The eight chained iterators of `fallback`, in order. -/
def fallbackGroups (cl : Cluster) (cfg : Config) (rq : Request) (ρ : RhoFb) : List (List Target) :=
  let pref := preference cfg rq
  let lwt := rq.routeAsLwt
  let fp := failoverPossible cfg rq
  let ts := tokenWithStrategy cl cfg rq
  let locals := localNodes cl pref
  let all := allNodes cl
  [ -- maybe_replicas = local rack replicas ++ local replicas ++ (remote) replicas
    (match ts, pref with
      | some ts, .dcRack d r => replicaTargets cl ts (.dcRack d r) lwt ρ.shufRack
      | _, _ => []),
    (match ts, pref.datacenter with
      | some ts, some d => replicaTargets cl ts (.dc d) lwt ρ.shufDc
      | _, _ => []),
    (match ts with
      | some ts => if pref.datacenter.isNone || fp then replicaTargets cl ts .any lwt ρ.shufAny else []
      | none => []),
    -- robinned_local_rack_nodes, robinned_local_nodes, maybe_remote_nodes
    (match pref with
      | .dcRack _ r => (roundRobin locals (fun n => cl.alive n && n.rack == some r) ρ.rotRack).map shardless
      | _ => []),
    (roundRobin locals cl.alive ρ.rotLocal).map shardless,
    (if fp then (roundRobin all cl.alive ρ.rotAll).map shardless else []),
    -- maybe_down_local_nodes, maybe_down_nodes
    (locals.filter cl.enabled).map shardless,
    (if fp then (all.filter cl.enabled).map shardless else []) ]

/-- `DefaultPolicy::fallback` collected. -/
def fallback (cl : Cluster) (cfg : Config) (rq : Request) (ρ : RhoFb) : List Target :=
  uniqueBy (fallbackGroups cl cfg rq ρ).flatten

/-! ### `Plan` -/

/-- `node == *node_to_filter_out` on `(NodeRef, Option<Shard>)`: `Node` equality is by host id, the shard literally. -/
def litEq (a b : Target) : Bool := a.1.id == b.1.id && a.2 == b.2

/-- `PlanState`; the `FallbackPlan` iterator is the list of targets it has not yielded yet. -/
inductive PlanState where
  | created
  | pickedNone
  | picked (t : Target)
  | fallback (rest : List Target) (out : Target)
  deriving Repr

/-- The `for node in iter` loop of the `Fallback` state. -/
def skipOut (out : Target) : List Target → Option Target × PlanState
  | [] => (none, .fallback [] out)
  | u :: rest => if litEq u out then skipOut out rest else (some u, .fallback rest out)

/-- `Plan::next` (`pk` = what `policy.pick` answers, `fb` = what `policy.fallback` yields when it is called). -/
def planNext (pk : Option Target) (fb : List Target) : PlanState → Option Target × PlanState
  | .created =>
    match pk with
    | some t => (some t, .picked t)
    | none =>
      match fb with
      | [] => (none, .pickedNone)
      | t :: rest => (some t, .fallback rest t)
  | .picked t => skipOut t fb
  | .fallback rest out => skipOut out rest
  | .pickedNone => (none, .pickedNone)

/-- Iterate `Plan::next` until it answers `None` (at most `fuel` times). -/
def planRun (pk : Option Target) (fb : List Target) : Nat → PlanState → List Target
  | 0, _ => []
  | fuel + 1, st =>
    match planNext pk fb st with
    | (none, _) => []
    | (some t, st') => t :: planRun pk fb fuel st'

/-- Closed form of the iteration: the picked target, then the fallback without it. -/
def planOf (pk : Option Target) (fb : List Target) : List Target :=
  match pk with
  | some t => t :: fb.filter (fun u => !litEq u t)
  | none =>
    match fb with
    | [] => []
    | t :: rest => t :: rest.filter (fun u => !litEq u t)

/-- The plan of the default policy for the random choices `ρp` (of `pick`) and `ρf` (of `fallback`), before
`with_random_shard_if_unknown` replaces a missing shard by a random one. -/
def plan (cl : Cluster) (cfg : Config) (rq : Request) (ρp : RhoPick) (ρf : RhoFb) : List Target :=
  planOf (pick cl cfg rq ρp) (fallback cl cfg rq ρf)

end ScyllaVerif.Plan

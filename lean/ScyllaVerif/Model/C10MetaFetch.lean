import ScyllaVerif.Model.Retry
/-
C10, one layer ABOVE the connection: what the metadata fetch of the control connection does with the outcome of each of
its requests. A request that was in flight when the connection died completes with an error (Props/C10.lean,
`break_errors_are_broken_connection`); THIS layer decides whether that error reaches the caller of the fetch or is
turned into an (empty) answer - "a partial response handed on as a complete one".

Transcribes `scylla/src/cluster/metadata/fetching.rs`:
  * 1700-1738 `ControlConnection::query_table_partitioners` and 1749-1789 `query_keyspaces_tablets`: the rows are
    `try_collect`ed; the ONE error pattern
      `MetadataFetchErrorKind::NextRowError(NextRowError::NextPageError(NextPageError::RequestFailure(
         RequestError::LastAttemptError(RequestAttemptError::DbError(DbError::Invalid, _)))))`
    becomes `Ok(empty)` (the table does not exist: Cassandra / old ScyllaDB); every other result is returned as is;
  * 680-760 `query_keyspaces`, level `Full`: `query_user_defined_types` (system_schema.types), `query_tables_schema`
    (system_schema.columns, then `query_table_partitioners`), `query_tables`, `query_views`, concurrently
    `query_keyspaces_tablets`, all joined by `try_join!` / `?`, then the rows of system_schema.keyspaces; level
    `Minimal`: `query_table_partitioners`, `query_tables`, `query_views`;
  * 169-203 `query_metadata`: `try_join!(peers_query, client_routes_query, keyspaces_query)?`.
  * the error wrappers: `errors.rs` 361-377 `MetadataFetchErrorKind`, 907-931 `RequestError`, 955-1023
    `RequestAttemptError` (= `Retry.Err`), `client/pager.rs` 1346-1375 `NextPageError`, `NextRowError`;
    `cluster/control_connection.rs` 196-222 `query_iter`: a failed PREPARE is wrapped exactly like a failed page
    (`NextRowError::NextPageError(NextPageError::RequestFailure(attempt_err.into()))`).

The rows themselves are abstract (`α`): this model is about WHICH outcomes are swallowed.
-/
namespace ScyllaVerif.C10MetaFetch
open ScyllaVerif.Retry

/-- `RequestError` (`errors.rs:907-931`). -/
inductive ReqErr where
  | emptyPlan | connectionPoolError | requestTimeout
  | lastAttemptError (e : Retry.Err)
  deriving DecidableEq, Repr, Inhabited

/-- `NextPageError` (`pager.rs:1346-1362`). -/
inductive PageErr where
  | partitionKeyError
  | requestFailure (e : ReqErr)
  | resultMetadataParseError | typeCheckError
  deriving DecidableEq, Repr, Inhabited

/-- `NextRowError` (`pager.rs:1367-1375`). -/
inductive RowErr where
  | nextPageError (e : PageErr)
  | rowDeserializationError
  deriving DecidableEq, Repr, Inhabited

/-- `MetadataFetchErrorKind` (`errors.rs:361-377`). -/
inductive FetchErr where
  | invalidColumnType
  | prepareError (e : Retry.Err)
  | serializationError
  | nextRowError (e : RowErr)
  deriving DecidableEq, Repr, Inhabited

/-- The outcome of one metadata query: the collected rows or the first error of the row stream. -/
abbrev QueryResult (α : Type) := Except FetchErr α

/-- How a failed ATTEMPT (PREPARE, first page or a later page of the statement) surfaces in the row stream
(`control_connection.rs:202-207`, `pager.rs` worker: `RequestError::LastAttemptError` → `NextPageError::RequestFailure`). -/
def attemptFailure (e : Retry.Err) : FetchErr :=
  .nextRowError (.nextPageError (.requestFailure (.lastAttemptError e)))

/-- The pattern of `fetching.rs:1727-1735` / `1779-1787`. -/
def isMissingTable : FetchErr → Bool
  | .nextRowError (.nextPageError (.requestFailure (.lastAttemptError (.dbError .invalid)))) => true
  | _ => false

/-- `match result { Err(<the pattern>) => Ok(empty), result => result }`. -/
def tolerateMissingTable {α : Type} (empty : α) (r : QueryResult α) : QueryResult α :=
  match r with
  | .error e => if isMissingTable e then .ok empty else .error e
  | .ok v => .ok v

/-- The metadata queries of one full fetch. -/
inductive Table where
  | peers | local_ | keyspaces | types | tables | views | columns | scyllaTables | scyllaKeyspaces
  deriving DecidableEq, Repr, Inhabited

def Table.all : List Table :=
  [.peers, .local_, .keyspaces, .types, .tables, .views, .columns, .scyllaTables, .scyllaKeyspaces]

/-- The two queries whose result goes through `tolerateMissingTable`. -/
def Table.tolerant : Table → Bool
  | .scyllaTables | .scyllaKeyspaces => true
  | _ => false

/-- What the fetch makes of the outcome of the query on table `t` (rows abstracted to `Unit`): the error it
propagates, if any. `none` = the fetch goes on. -/
def queryVerdict (t : Table) (r : QueryResult Unit) : Option FetchErr :=
  match (if t.tolerant then tolerateMissingTable () r else r) with
  | .error e => some e
  | .ok _ => none

/-- One full fetch (`query_metadata`, schema level `Full`): every query has an outcome (`out`); `try_join!` / `?`
fail the fetch with the error of SOME failed query (which one depends on the schedule; the model picks the first in
`Table.all`). `none` = the fetch returns `Ok(Metadata)`. -/
def fetchVerdict (out : Table → QueryResult Unit) : Option FetchErr :=
  Table.all.findSome? (fun t => queryVerdict t (out t))

/-- The partitioner the fetched metadata reports for a table whose `scylla_tables` row carries `p`: the row's value
if the query was answered, `none` ("default partitioner") if it was tolerated as missing
(`query_tables_schema`: `partitioners.get(..).cloned().flatten()` / `Table { partitioner, .. }`). -/
def publishedPartitioner (p : Option String) (r : QueryResult Unit) : Option (Option String) :=
  match tolerateMissingTable () r with
  | .error _ => none          -- nothing is published by this fetch
  | .ok _ => some (match r with | .ok _ => p | .error _ => none)

/-! ### the harness's `metaf` cases: one scripted fault on one query of a fetch, everything else answered -/

/-- The scripted faults. `db code` = an ERROR response; `badBody` = a RESULT frame whose body cannot be parsed;
`badErr` = an ERROR frame whose body cannot be parsed; `connection` = FIN / RST / garbage header / frame on an
unowned stream / silence until the keep-alive timeout: the connection dies with the request in flight. -/
inductive Fault where
  | db (code : Nat)
  | badBody | badErr
  | connection
  deriving DecidableEq, Repr, Inhabited

/-- `DbError` by protocol error code, as far as the fetch distinguishes (0x2200 = Invalid). -/
def dbOfCode (code : Nat) : DbErr :=
  if code = 0x2200 then .invalid
  else if code = 0x0000 then .serverError
  else if code = 0x000A then .protocolError
  else if code = 0x0100 then .authenticationError
  else if code = 0x1001 then .overloaded
  else if code = 0x1002 then .isBootstrapping
  else if code = 0x1003 then .truncateError
  else if code = 0x2000 then .syntaxError
  else if code = 0x2100 then .unauthorized
  else if code = 0x2300 then .configError
  else .other

/-- The attempt error the faulted request completes with (`connection`: Props/C10 `break_errors_are_broken_connection`). -/
def faultErr : Fault → Retry.Err
  | .db code => .dbError (dbOfCode code)
  | .badBody => .cqlResultParseError
  | .badErr => .cqlErrorParseError
  | .connection => .brokenConnection

/-- The outcomes of a fetch in which the query on `t` meets `f` and every other query is answered. -/
def faulted (t : Table) (f : Fault) : Table → QueryResult Unit :=
  fun t' => if t' = t then .error (attemptFailure (faultErr f)) else .ok ()

/-- The fetch with the scripted fault returns `Ok`. -/
def faultTolerated (t : Table) (f : Fault) : Bool := (fetchVerdict (faulted t f)).isNone

end ScyllaVerif.C10MetaFetch

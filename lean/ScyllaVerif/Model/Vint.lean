/-
Model of the variable-length integer codec of `scylla-cql-core/src/frame/types.rs:255-305`
(used by `duration` cells and by the length prefix of variable-width `vector` elements) and of the
big-endian fixed-width integer helpers (`to_be_bytes`, `from_be_bytes`, `put_uint`, `read_uint`).

* `zigzagEnc` / `zigzagDec`  ← `zig_zag_encode` / `zig_zag_decode` (255-261), on `BitVec 64`
  (`>>` on `i64` is the arithmetic shift `sshiftRight`, on `u64` the logical one).
* `uvintEnc`  ← `unsigned_vint_encode` (263-279) with the `(639 - 9·lz) >> 6` byte-count trick,
  the sign-extended `!(0xff >> extra)` length bits and the 9-byte `0xff` case.
* `uvintDec`  ← `unsigned_vint_decode` (281-297): leading ones of the first byte = number of extra bytes.
* `vintEnc` / `vintDec` ← `vint_encode` / `vint_decode` (299-305).

Intrinsics are modelled by their meaning: `u64::leading_zeros` = `64 - bit length` (`Nat.log2`),
`u8::leading_ones` by the comparison chain `leadingOnes8` (validated against the bitwise definition by
`decide` over all 256 bytes in `Props/C01.lean`).  Import-free.
-/
namespace ScyllaVerif.Vint

abbrev Bytes := List UInt8

/-- The `n` low-order bytes of `v`, most significant first (`to_be_bytes` of an `n`-byte integer,
`BufMut::put_uint(v, n)`). -/
def beBytes : Nat → Nat → Bytes
  | 0, _ => []
  | n + 1, v => UInt8.ofNat (v / 256 ^ n % 256) :: beBytes n v

/-- Big-endian bytes to a natural number (`from_be_bytes`, `read_uint`). -/
def beNat (bs : Bytes) : Nat := bs.foldl (fun a b => a * 256 + b.toNat) 0

/-- `u64::leading_zeros`. -/
def leadingZeros64 (v : BitVec 64) : Nat := if v.toNat = 0 then 64 else 63 - v.toNat.log2

/-- `u8::leading_ones`. -/
def leadingOnes8 (b : UInt8) : Nat :=
  if b < 0x80 then 0 else if b < 0xc0 then 1 else if b < 0xe0 then 2 else if b < 0xf0 then 3
  else if b < 0xf8 then 4 else if b < 0xfc then 5 else if b < 0xfe then 6 else if b < 0xff then 7 else 8

/-- `zig_zag_encode`: `((v >> 63) ^ (v << 1)) as u64` with `v : i64`. -/
def zigzagEnc (v : BitVec 64) : BitVec 64 := (v.sshiftRight 63) ^^^ (v <<< 1)

/-- `zig_zag_decode`: `((v >> 1) as i64) ^ -((v & 1) as i64)` with `v : u64`. -/
def zigzagDec (v : BitVec 64) : BitVec 64 := (v >>> 1) ^^^ (-(v &&& 1))

/-- `unsigned_vint_encode`. -/
def uvintEnc (v : BitVec 64) : Bytes :=
  let n := (639 - 9 * leadingZeros64 v) >>> 6
  if n ≤ 1 then [UInt8.ofNat v.toNat]
  else if n ≠ 9 then
    let extra := n - 1
    -- `!(0xff >> extra)` is computed on `i32` and sign-extended by `as u64`: all high bits are ones
    let lengthBits : BitVec 64 := ~~~ ((0xff : BitVec 64) >>> extra)
    let v' := v ||| (lengthBits <<< (8 * extra))
    beBytes n v'.toNat
  else 0xff :: beBytes 8 v.toNat

inductive VintErr where
  | eof
  deriving Repr, DecidableEq

/-- `unsigned_vint_decode`: returns the value and the unread rest. -/
def uvintDec (bs : Bytes) : Except VintErr (BitVec 64 × Bytes) :=
  match bs with
  | [] => .error .eof
  | first :: rest =>
    let extra := leadingOnes8 first
    let v : Nat := if extra ≠ 8 then (first &&& ((0xff : UInt8) >>> UInt8.ofNat extra)).toNat <<< (8 * extra) else 0
    if extra = 0 then .ok (BitVec.ofNat 64 v, rest)
    else if rest.length < extra then .error .eof
    else .ok (BitVec.ofNat 64 (v + beNat (rest.take extra)), rest.drop extra)

/-- `vint_encode`. -/
def vintEnc (v : BitVec 64) : Bytes := uvintEnc (zigzagEnc v)

/-- `vint_decode`. -/
def vintDec (bs : Bytes) : Except VintErr (BitVec 64 × Bytes) :=
  match uvintDec bs with
  | .error e => .error e
  | .ok (v, rest) => .ok (zigzagDec v, rest)

end ScyllaVerif.Vint

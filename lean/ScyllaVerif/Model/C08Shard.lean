import ScyllaVerif.Model.C08Features
/-
C08 — the rest of what `open_connection` reads from the server-supplied SUPPORTED option map
(`scylla/src/network/connection.rs:2079-2117`): `ShardInfo::try_from(&options)` (`scylla/src/routing/sharding.rs:286-320`)
and the first thing every routed request does with its result, `Sharder::shard_of` (`sharding.rs:121-130`, after fix
949cc99: `checked_shl(msb_ignore).unwrap_or(0)`; before it, an announced `SCYLLA_SHARDING_IGNORE_MSB` of 64..255
overflowed the shift on every routed request).

A second, small transcription next to C11's `Model/Sharding.lean` (which models the same code for its VALUE); this one
starts from the raw option map as `Supported::deserialize` delivers it (any bytes in the fields, repeated keys, empty
value lists) and is compared with the real code on every `s` case.
`str::parse::<u16>` / `<u8>` are written from the std documentation: `[+]?[0-9]+`, value in range.
-/
namespace ScyllaVerif.C08Sh
open ScyllaVerif ScyllaVerif.C08 ScyllaVerif.C08F

def K_SHARD : Bytes := asciiBytes "SCYLLA_SHARD"
def K_NR : Bytes := asciiBytes "SCYLLA_NR_SHARDS"
def K_MSB : Bytes := asciiBytes "SCYLLA_SHARDING_IGNORE_MSB"

/-- `str::parse::<uN>` with `bound = 2^N`. -/
def parseUBelow (bound : Nat) (bs : Bytes) : Option Nat :=
  let ds := match bs with
    | 0x2B :: r => r
    | r => r
  if ds.isEmpty ∨ !allDigits ds then none
  else if digitsNat ds ≥ bound then none else some (digitsNat ds)

inductive ShErr where
  | noShardInfo | missingSome | missingValues | zeroShards | shardOutOfRange | parse
  deriving Repr, DecidableEq

structure ShardInfo where
  shard : Nat
  nr : Nat
  msb : Nat
  deriving Repr

/-- `ShardInfo::try_from(&HashMap<String, Vec<String>>)`: presence of the three keys, their FIRST values, then the
parses in the code's order (shard, nr_shards, zero test, msb_ignore, `ShardInfo::new`'s range test). -/
def shardInfoOfSupported (opts : List (Bytes × List Bytes)) : Except ShErr ShardInfo :=
  match lookupLast K_SHARD opts, lookupLast K_NR opts, lookupLast K_MSB opts with
  | some a, some b, some c =>
    match a.head?, b.head?, c.head? with
    | some a, some b, some c =>
      match parseUBelow 65536 a with
      | none => .error .parse
      | some shard =>
        match parseUBelow 65536 b with
        | none => .error .parse
        | some nr =>
          if nr = 0 then .error .zeroShards
          else match parseUBelow 256 c with
            | none => .error .parse
            | some msb => if shard ≥ nr then .error .shardOutOfRange else .ok ⟨shard, nr, msb⟩
    | _, _, _ => .error .missingValues
  | none, none, none => .error .noShardInfo
  | _, _, _ => .error .missingSome

/-- `u64::checked_shl(k)`: `None` exactly when `k >= 64`. -/
def checkedShl (x k : Nat) : Option Nat := if k < 64 then some ((x * 2 ^ k) % 2 ^ 64) else none

/-- `Sharder::shard_of`: `(token as u64).wrapping_add(1 << 63)`, `checked_shl(msb_ignore).unwrap_or(0)`, high word of
the 128-bit product with `nr_shards`. -/
def shardOf (nr msb : Nat) (tok : Int) : Nat :=
  let biased := ((tok + 2 ^ 63) % 2 ^ 64).toNat
  let shifted := (checkedShl biased msb).getD 0
  (shifted * nr) / 2 ^ 64

/-- `Token::new` (`scylla/src/routing/mod.rs:39-43`): `i64::MIN` is normalised to `i64::MAX`. -/
def tokenNew (v : Int) : Int := if v = -9223372036854775808 then 9223372036854775807 else v

/-- the tokens the harness asks the resulting sharder about (each through `Token::new`) -/
def PROBE_TOKENS : List Int :=
  [-9223372036854775808, -1, 0, 1, 9223372036854775807, 81985529216486895, -6510615555426900571]

end ScyllaVerif.C08Sh

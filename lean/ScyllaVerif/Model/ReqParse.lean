/-
Independent parser of CQL **request** frames, written from the text of the CQL binary protocol v4
(`native_protocol_v4.spec`, sections 2 "Frame header", 3 "Notations", 4.1 "Requests") plus ScyllaDB's
`SCYLLA_USE_METADATA_ID` extension of EXECUTE.  It is NOT derived from the driver's encoder and does not
import it (nor the constants regenerated from the Rust source): every opcode, flag bit and code below is
the literal from the specification.  `Model/Request.lean` (the model of the driver) imports this file only
for the *view* types; `Props/C09.lean` proves `parseReq (encodeReq r) = view r`.

Strings are kept as their UTF-8 bytes (`Bytes`); the parser does not validate UTF-8 (the harness-side
oracle does).  Import-free.
-/
namespace ScyllaVerif.ReqParse

abbrev Bytes := List UInt8

/-! ### what a request says (the view) -/

/-- §3 `[consistency]`. -/
inductive Consistency where
  | any | one | two | three | quorum | all | localQuorum | eachQuorum | serial | localSerial | localOne
  deriving Repr, DecidableEq

inductive SerialConsistency where
  | serial | localSerial
  deriving Repr, DecidableEq

/-- §4.1.7 batch `<type>`. -/
inductive BatchType where
  | logged | unlogged | counter
  deriving Repr, DecidableEq

/-- §3 `[value]`: `n ≥ 0` bytes, `-1` null, `-2` not set. -/
inductive RawVal where
  | null
  | unset
  | val (bytes : Bytes)
  deriving Repr, DecidableEq

/-- §4.1.4 `<query_parameters>` as the server understands them. -/
structure ParamsView where
  consistency : Consistency
  skipMetadata : Bool
  values : List RawVal
  pageSize : Option Int
  pagingState : Option Bytes
  serialConsistency : Option SerialConsistency
  timestamp : Option Int
  deriving Repr, DecidableEq

inductive BatchStmtView where
  | query (text : Bytes)
  | prepared (id : Bytes)
  deriving Repr, DecidableEq

inductive ReqView where
  | startup (options : List (Bytes × Bytes))
  | options
  | query (text : Bytes) (params : ParamsView)
  | prepare (text : Bytes)
  | execute (id : Bytes) (resultMetadataId : Option Bytes) (params : ParamsView)
  | register (events : List Bytes)
  | batch (type : BatchType) (statements : List (BatchStmtView × List RawVal)) (consistency : Consistency)
      (serialConsistency : Option SerialConsistency) (timestamp : Option Int)
  | authResponse (token : Option Bytes)
  deriving Repr, DecidableEq

/-- §2: header fields that are not the body. -/
structure FrameView where
  compressed : Bool
  tracing : Bool
  stream : Nat
  req : ReqView
  deriving Repr, DecidableEq

/-! ### §3 notations: readers (`bytes → value × rest`) -/

def rdU8 : Bytes → Option (Nat × Bytes)
  | a :: rest => some (a.toNat, rest)
  | _ => none

/-- `[short]`: 2 bytes unsigned big-endian. -/
def rdU16 : Bytes → Option (Nat × Bytes)
  | a :: b :: rest => some (a.toNat * 256 + b.toNat, rest)
  | _ => none

def rdU32 : Bytes → Option (Nat × Bytes)
  | a :: b :: c :: d :: rest => some (((a.toNat * 256 + b.toNat) * 256 + c.toNat) * 256 + d.toNat, rest)
  | _ => none

def rdU64 : Bytes → Option (Nat × Bytes)
  | a :: b :: c :: d :: e :: f :: g :: h :: rest =>
    some (((((((a.toNat * 256 + b.toNat) * 256 + c.toNat) * 256 + d.toNat) * 256 + e.toNat) * 256
      + f.toNat) * 256 + g.toNat) * 256 + h.toNat, rest)
  | _ => none

/-- `[int]`: 4 bytes two's complement. -/
def rdI32 (bs : Bytes) : Option (Int × Bytes) :=
  match rdU32 bs with
  | some (n, rest) => some (if n < 2 ^ 31 then (n : Int) else (n : Int) - 2 ^ 32, rest)
  | none => none

/-- `[long]`: 8 bytes two's complement. -/
def rdI64 (bs : Bytes) : Option (Int × Bytes) :=
  match rdU64 bs with
  | some (n, rest) => some (if n < 2 ^ 63 then (n : Int) else (n : Int) - 2 ^ 64, rest)
  | none => none

def rdTake (n : Nat) (bs : Bytes) : Option (Bytes × Bytes) :=
  if n ≤ bs.length then some (bs.take n, bs.drop n) else none

/-- `[string]`: `[short]` n, n bytes. -/
def rdString (bs : Bytes) : Option (Bytes × Bytes) :=
  match rdU16 bs with
  | some (n, rest) => rdTake n rest
  | none => none

/-- `[long string]`: `[int]` n, n bytes (a negative n is not a string). -/
def rdLongString (bs : Bytes) : Option (Bytes × Bytes) :=
  match rdI32 bs with
  | some (n, rest) => if n < 0 then none else rdTake n.toNat rest
  | none => none

/-- `[short bytes]`: `[short]` n, n bytes. -/
def rdShortBytes (bs : Bytes) : Option (Bytes × Bytes) := rdString bs

/-- `[bytes]`: `[int]` n, n bytes; `n < 0` is null. -/
def rdBytes (bs : Bytes) : Option (Option Bytes × Bytes) :=
  match rdI32 bs with
  | some (n, rest) =>
    if n < 0 then some (none, rest)
    else match rdTake n.toNat rest with
      | some (b, rest') => some (some b, rest')
      | none => none
  | none => none

/-- `[value]`: `[int]` n; `n ≥ 0`: n bytes, `-1`: null, `-2`: not set, below: invalid. -/
def rdValue (bs : Bytes) : Option (RawVal × Bytes) :=
  match rdI32 bs with
  | some (n, rest) =>
    if n = -1 then some (.null, rest)
    else if n = -2 then some (.unset, rest)
    else if n < 0 then none
    else match rdTake n.toNat rest with
      | some (b, rest') => some (.val b, rest')
      | none => none
  | none => none

/-- `n` consecutive items. -/
def rdMany {α : Type} (rd : Bytes → Option (α × Bytes)) : Nat → Bytes → Option (List α × Bytes)
  | 0, bs => some ([], bs)
  | n + 1, bs =>
    match rd bs with
    | none => none
    | some (x, rest) =>
      match rdMany rd n rest with
      | none => none
      | some (xs, rest') => some (x :: xs, rest')

/-- `[string list]`: `[short]` n, n `[string]`s. -/
def rdStringList (bs : Bytes) : Option (List Bytes × Bytes) :=
  match rdU16 bs with
  | some (n, rest) => rdMany rdString n rest
  | none => none

def rdStringPair (bs : Bytes) : Option ((Bytes × Bytes) × Bytes) :=
  match rdString bs with
  | some (k, rest) =>
    match rdString rest with
    | some (v, rest') => some ((k, v), rest')
    | none => none
  | none => none

/-- `[string map]`: `[short]` n, n pairs `<k><v>` of `[string]`s. -/
def rdStringMap (bs : Bytes) : Option (List (Bytes × Bytes) × Bytes) :=
  match rdU16 bs with
  | some (n, rest) => rdMany rdStringPair n rest
  | none => none

/-- `<n><value_1>…<value_n>` (names for values are not supported by this parser: flag 0x40 is refused). -/
def rdValueList (bs : Bytes) : Option (List RawVal × Bytes) :=
  match rdU16 bs with
  | some (n, rest) => rdMany rdValue n rest
  | none => none

/-- §3 `[consistency]` codes. -/
def consistencyOfCode : Nat → Option Consistency
  | 0x0000 => some .any
  | 0x0001 => some .one
  | 0x0002 => some .two
  | 0x0003 => some .three
  | 0x0004 => some .quorum
  | 0x0005 => some .all
  | 0x0006 => some .localQuorum
  | 0x0007 => some .eachQuorum
  | 0x0008 => some .serial
  | 0x0009 => some .localSerial
  | 0x000A => some .localOne
  | _ => none

def rdConsistency (bs : Bytes) : Option (Consistency × Bytes) :=
  match rdU16 bs with
  | some (n, rest) =>
    match consistencyOfCode n with
    | some c => some (c, rest)
    | none => none
  | none => none

/-- `<serial_consistency>`: "can only be either SERIAL or LOCAL_SERIAL". -/
def rdSerialConsistency (bs : Bytes) : Option (SerialConsistency × Bytes) :=
  match rdConsistency bs with
  | some (.serial, rest) => some (.serial, rest)
  | some (.localSerial, rest) => some (.localSerial, rest)
  | _ => none

/-- An optional field, present iff its flag bit is set. -/
def rdOpt {α : Type} (present : Bool) (rd : Bytes → Option (α × Bytes)) (bs : Bytes) :
    Option (Option α × Bytes) :=
  if present then
    match rd bs with
    | some (x, rest) => some (some x, rest)
    | none => none
  else some (none, bs)

def hasBit (flags mask : Nat) : Bool := flags &&& mask != 0

/-! ### §4.1.4 `<query_parameters>`

`<consistency><flags>[<n>[name_1]<value_1>...][<result_page_size>][<paging_state>][<serial_consistency>][<timestamp>]`
flags: 0x01 values, 0x02 skip_metadata, 0x04 page_size, 0x08 with_paging_state, 0x10 with_serial_consistency,
0x20 with_default_timestamp, 0x40 with_names_for_values. -/
def rdParams (bs : Bytes) : Option (ParamsView × Bytes) :=
  match rdConsistency bs with
  | none => none
  | some (c, bs) =>
    match rdU8 bs with
    | none => none
    | some (flags, bs) =>
      if flags &&& 0x80 != 0 || hasBit flags 0x40 then none
      else
        match rdOpt (hasBit flags 0x01) rdValueList bs with
        | none => none
        | some (vals, bs) =>
          match rdOpt (hasBit flags 0x04) rdI32 bs with
          | none => none
          | some (pageSize, bs) =>
            match rdOpt (hasBit flags 0x08) rdBytes bs with
            | none => none
            | some (some none, _) => none   -- a null paging state is not a paging state
            | some (pagingState, bs) =>
              match rdOpt (hasBit flags 0x10) rdSerialConsistency bs with
              | none => none
              | some (serial, bs) =>
                match rdOpt (hasBit flags 0x20) rdI64 bs with
                | none => none
                | some (ts, bs) =>
                  some ({ consistency := c
                          skipMetadata := hasBit flags 0x02
                          values := vals.getD []
                          pageSize := pageSize
                          pagingState := pagingState.join
                          serialConsistency := serial
                          timestamp := ts }, bs)

/-! ### §4.1.7 BATCH

`<type><n><query_1>...<query_n><consistency><flags>[<serial_consistency>][<timestamp>]`, each query
`<kind><string_or_id><n>[<name_1>]<value_1>...`; kind 0: `[long string]`, kind 1: `[short bytes]`;
flags: 0x10 with_serial_consistency, 0x20 with_default_timestamp, 0x40 with_names_for_values. -/
def batchTypeOfCode : Nat → Option BatchType
  | 0 => some .logged
  | 1 => some .unlogged
  | 2 => some .counter
  | _ => none

def rdBatchStmt (bs : Bytes) : Option ((BatchStmtView × List RawVal) × Bytes) :=
  match rdU8 bs with
  | none => none
  | some (kind, bs) =>
    let stmt : Option (BatchStmtView × Bytes) :=
      if kind = 0 then
        match rdLongString bs with
        | some (t, rest) => some (.query t, rest)
        | none => none
      else if kind = 1 then
        match rdShortBytes bs with
        | some (i, rest) => some (.prepared i, rest)
        | none => none
      else none
    match stmt with
    | none => none
    | some (s, bs) =>
      match rdValueList bs with
      | none => none
      | some (vals, bs) => some ((s, vals), bs)

def rdBatch (bs : Bytes) : Option (ReqView × Bytes) :=
  match rdU8 bs with
  | none => none
  | some (ty, bs) =>
    match batchTypeOfCode ty with
    | none => none
    | some ty =>
      match rdU16 bs with
      | none => none
      | some (n, bs) =>
        match rdMany rdBatchStmt n bs with
        | none => none
        | some (stmts, bs) =>
          match rdConsistency bs with
          | none => none
          | some (c, bs) =>
            match rdU8 bs with
            | none => none
            | some (flags, bs) =>
              if flags &&& (0xFF - 0x30) != 0 then none
              else
                match rdOpt (hasBit flags 0x10) rdSerialConsistency bs with
                | none => none
                | some (serial, bs) =>
                  match rdOpt (hasBit flags 0x20) rdI64 bs with
                  | none => none
                  | some (ts, bs) => some (.batch ty stmts c serial ts, bs)

/-! ### bodies by opcode (§4.1): STARTUP 0x01, OPTIONS 0x05, QUERY 0x07, PREPARE 0x09, EXECUTE 0x0A,
REGISTER 0x0B, BATCH 0x0D, AUTH_RESPONSE 0x0F.  `metadataIdExt`: ScyllaDB's extension — EXECUTE carries
a `[short bytes]` result-metadata id right after the statement id. -/
def rdBody (metadataIdExt : Bool) (opcode : Nat) (bs : Bytes) : Option (ReqView × Bytes) :=
  if opcode = 0x01 then
    match rdStringMap bs with
    | some (m, rest) => some (.startup m, rest)
    | none => none
  else if opcode = 0x05 then some (.options, bs)
  else if opcode = 0x07 then
    match rdLongString bs with
    | none => none
    | some (text, bs) =>
      match rdParams bs with
      | some (p, rest) => some (.query text p, rest)
      | none => none
  else if opcode = 0x09 then
    match rdLongString bs with
    | some (text, rest) => some (.prepare text, rest)
    | none => none
  else if opcode = 0x0A then
    match rdShortBytes bs with
    | none => none
    | some (id, bs) =>
      match rdOpt metadataIdExt rdShortBytes bs with
      | none => none
      | some (mid, bs) =>
        match rdParams bs with
        | some (p, rest) => some (.execute id mid p, rest)
        | none => none
  else if opcode = 0x0B then
    match rdStringList bs with
    | some (evs, rest) => some (.register evs, rest)
    | none => none
  else if opcode = 0x0D then rdBatch bs
  else if opcode = 0x0F then
    match rdBytes bs with
    | some (tok, rest) => some (.authResponse tok, rest)
    | none => none
  else none

/-- A whole body: the message must fill the body exactly. -/
def parseBody (metadataIdExt : Bool) (opcode : Nat) (body : Bytes) : Option ReqView :=
  match rdBody metadataIdExt opcode body with
  | some (v, []) => some v
  | _ => none

/-- §2 header: `version(1) flags(1) stream(2) opcode(1) length(4)`; a request has version 0x04 (direction bit
clear); flags 0x01 compression, 0x02 tracing (0x04 custom payload / 0x08 warning are not used by requests
of this driver and are refused); `length` is the size of the body. -/
structure Header where
  compressed : Bool
  tracing : Bool
  stream : Nat
  opcode : Nat
  length : Nat
  deriving Repr, DecidableEq

def parseHeader (f : Bytes) : Option (Header × Bytes) :=
  match rdU8 f with
  | none => none
  | some (version, bs) =>
    if version != 0x04 then none
    else
      match rdU8 bs with
      | none => none
      | some (flags, bs) =>
        if flags &&& (0xFF - 0x03) != 0 then none
        else
          match rdU16 bs with
          | none => none
          | some (stream, bs) =>
            match rdU8 bs with
            | none => none
            | some (opcode, bs) =>
              match rdU32 bs with
              | none => none
              | some (len, body) =>
                if len = body.length then
                  some ({ compressed := hasBit flags 0x01, tracing := hasBit flags 0x02,
                          stream := stream, opcode := opcode, length := len }, body)
                else none

/-- An uncompressed request frame. -/
def parseReq (metadataIdExt : Bool) (f : Bytes) : Option FrameView :=
  match parseHeader f with
  | none => none
  | some (h, body) =>
    if h.compressed then none
    else
      match parseBody metadataIdExt h.opcode body with
      | some v => some { compressed := false, tracing := h.tracing, stream := h.stream, req := v }
      | none => none

/-- A compressed request frame, given the decompressor negotiated in STARTUP. -/
def parseReqCompressed (metadataIdExt : Bool) (decompress : Bytes → Option Bytes) (f : Bytes) : Option FrameView :=
  match parseHeader f with
  | none => none
  | some (h, cbody) =>
    if !h.compressed then none
    else
      match decompress cbody with
      | none => none
      | some body =>
        match parseBody metadataIdExt h.opcode body with
        | some v => some { compressed := true, tracing := h.tracing, stream := h.stream, req := v }
        | none => none

end ScyllaVerif.ReqParse

/-
Model of `scylla/src/routing/locator/tablets.rs` (C15).

* `tokenNew`            ← `Token::new` (`routing/mod.rs:38-43`): `i64::MIN` is normalised to `i64::MAX`.
* `bsearch`, `partitionPoint` ← `core::slice::partition_point` = `binary_search_by(|x| if pred(x) {Less} else {Greater})`
                          exactly as the standard library computes it (fixed iteration count, `base`/`size` halving);
                          on a slice that is *not* partitioned the result is whatever this loop returns.
* `fromRawReplicas`     ← `TabletReplicas::from_raw_replicas` (135-169): `all`, the `per_dc` grouping as the code
                          builds it (push to the datacenter's vector or insert a new one), the `failed` list.
* `Tablet.fromRaw`      ← `Tablet::from_raw_tablet` (252-275).
* `reResolve`           ← `Tablet::re_resolve_replicas` (284-301), `updateStale` ← `update_stale_nodes` (303-334).
* `tabletForToken`, `replicasForToken`, `dcReplicasForToken` ← 379-405.
* `addTablet`           ← `TableTablets::add_tablet` (412-431); `none` = the panic of `Vec::drain(left..right)` when
                          `left > right` (only reachable with an ill-formed tablet `first > last`).
* `Table.maintenance`   ← `TableTablets::perform_maintenance` (433-479).
* `Info.addTablet`, `Info.maintenance` ← `TabletsInfo::{add_tablet, perform_maintenance}` (533-548, 608-672; views 628, 641).
* `rawTabletCheck`      ← the validation part of `RawTablet::from_custom_payload` (86-119) after deserialisation;
  `parsePayload`        ← the deserialisation of the `tuple<bigint, bigint, list<tuple<uuid, int>>>` cell (66-108).

A `Node` object (`Arc<Node>`) is modelled by its host id, datacenter and a generation number standing for the
identity of the allocation (`Arc::ptr_eq`).  Hash maps are association lists (only looked up by key).
-/
namespace ScyllaVerif.Tablets

def i64Min : Int := -9223372036854775808
def i64Max : Int := 9223372036854775807

/-- `Token::new`. -/
def tokenNew (v : Int) : Int := if v = i64Min then i64Max else v

/-! ### association lists (hash maps that are only looked up by key) -/

def alGet {κ β : Type} [DecidableEq κ] (k : κ) : List (κ × β) → Option β
  | [] => none
  | (k', v) :: rest => if k' = k then some v else alGet k rest

/-- insert or replace -/
def alSet {κ β : Type} [DecidableEq κ] (k : κ) (v : β) : List (κ × β) → List (κ × β)
  | [] => [(k, v)]
  | (k', v') :: rest => if k' = k then (k, v) :: rest else (k', v') :: alSet k v rest

def alErase {κ β : Type} [DecidableEq κ] (k : κ) : List (κ × β) → List (κ × β)
  | [] => []
  | (k', v') :: rest => if k' = k then rest else (k', v') :: alErase k rest

/-- `if let Some(v) = map.get_mut(k) { v.push(x) } else { map.insert(k, vec![x]) }` -/
def alPush {κ α : Type} [DecidableEq κ] (k : κ) (x : α) : List (κ × List α) → List (κ × List α)
  | [] => [(k, [x])]
  | (k', v) :: rest => if k' = k then (k', v ++ [x]) :: rest else (k', v) :: alPush k x rest

/-! ### nodes and replicas -/

structure Node where
  hostId : Nat
  dc : Option String
  /-- identity of the `Arc<Node>` allocation -/
  gen : Nat
  deriving DecidableEq, Repr

/-- `(Arc<Node>, Shard)` -/
abbrev Rep := Node × Nat

structure Replicas where
  all : List Rep
  perDc : List (String × List Rep)
  deriving DecidableEq, Repr

def resolveAll (tr : Nat → Option Node) (raw : List (Nat × Nat)) : List Rep :=
  raw.filterMap (fun r => (tr r.1).map (fun n => (n, r.2)))

def resolveFailed (tr : Nat → Option Node) (raw : List (Nat × Nat)) : List Nat :=
  raw.filterMap (fun r => match tr r.1 with
    | some _ => none
    | none => some r.1)

/-- one step of the `all.iter().for_each(..)` loop that fills `per_dc` (153-162) -/
def dcPush (m : List (String × List Rep)) (p : Rep) : List (String × List Rep) :=
  match p.1.dc with
  | none => m
  | some dc => alPush dc p m

def groupByDc (all : List Rep) : List (String × List Rep) := all.foldl dcPush []

/-- `TabletReplicas::from_raw_replicas`: the replicas (also in the `Err` case) and the failed host ids. -/
def fromRawReplicas (tr : Nat → Option Node) (raw : List (Nat × Nat)) : Replicas × List Nat :=
  (⟨resolveAll tr raw, groupByDc (resolveAll tr raw)⟩, resolveFailed tr raw)

structure Tablet where
  first : Int
  last : Int
  replicas : Replicas
  /-- the original raw replica list if some replica did not resolve -/
  failed : Option (List (Nat × Nat))
  deriving DecidableEq, Repr

/-- `Tablet::from_raw_tablet` (both the `Ok` and the `Err` tablet; the caller uses them alike). -/
def Tablet.fromRaw (first last : Int) (raw : List (Nat × Nat)) (tr : Nat → Option Node) : Tablet :=
  let (r, f) := fromRawReplicas tr raw
  ⟨first, last, r, if f.isEmpty then none else some raw⟩

/-- `re_resolve_replicas`; `none` = `Err(failed)` (the tablet is then dropped by `retain_mut`). -/
def reResolve (tr : Nat → Option Node) (t : Tablet) : Option Tablet :=
  match t.failed with
  | none => some t
  | some raw =>
    let (r, f) := fromRawReplicas tr raw
    if f.isEmpty then some { t with replicas := r, failed := none } else none

def swapNode (recreated : List (Nat × Node)) (p : Rep) : Rep :=
  match alGet p.1.hostId recreated with
  | some n => (n, p.2)
  | none => p

/-- is this replica's `Node` object replaced? (`recreated_nodes.get(&node.host_id)` is some *other* object) -/
def isStaleRep (recreated : List (Nat × Node)) (p : Rep) : Bool :=
  match alGet p.1.hostId recreated with
  | some n => n != p.1
  | none => false

/-- `update_stale_nodes`: stale objects in `all` are replaced (an object that already is the re-created one is
left alone — the tablet may have been re-resolved against the new nodes earlier in the same maintenance pass;
commit f6d680f, before it an `assert!` panicked there); if something was replaced, `per_dc` is rebuilt from the
new `all` (`entry(dc).or_default().push(..)` = the grouping loop of `from_raw_replicas`; commit 8fbd1bc — before
it the old per-datacenter vectors were patched in place and a node re-created in another datacenter stayed in
its old datacenter's list). -/
def updateStale (recreated : List (Nat × Node)) (t : Tablet) : Tablet :=
  let anyUpdated := t.replicas.all.any (isStaleRep recreated)
  let all' := t.replicas.all.map (swapNode recreated)
  let perDc' := if anyUpdated then groupByDc all' else t.replicas.perDc
  { t with replicas := ⟨all', perDc'⟩ }

/-! ### `partition_point` as the standard library computes it -/

/-- the `while size > 1` loop of `binary_search_by` over the predicate-at-index `f`; `fuel ≥ size` -/
def bsLoop (f : Nat → Bool) : Nat → Nat → Nat → Nat
  | 0, _, base => base
  | fuel + 1, size, base =>
    if size > 1 then
      let half := size / 2
      let mid := base + half
      bsLoop f fuel (size - half) (if f mid then mid else base)
    else base

/-- `binary_search_by(|x| if pred(x) {Less} else {Greater}).unwrap_or_else(|i| i)` on a slice of length `n` -/
def bsearch (f : Nat → Bool) (n : Nat) : Nat :=
  if n = 0 then 0
  else
    let base := bsLoop f n n 0
    base + (if f base then 1 else 0)

def pAt {α : Type} (p : α → Bool) (xs : List α) (i : Nat) : Bool :=
  match xs[i]? with
  | some x => p x
  | none => false

def partitionPoint {α : Type} (p : α → Bool) (xs : List α) : Nat := bsearch (pAt p xs) xs.length

/-! ### one table -/

structure Table where
  tablets : List Tablet
  hasUnknown : Bool
  deriving DecidableEq, Repr

def Table.empty : Table := ⟨[], false⟩

def covers (tok : Int) (t : Tablet) : Bool := decide (t.first ≤ tok) && decide (tok ≤ t.last)

def overlaps (a b : Tablet) : Bool := decide (a.first ≤ b.last) && decide (b.first ≤ a.last)

/-- `tablet_for_token` -/
def tabletForToken (xs : List Tablet) (tok : Int) : Option Tablet :=
  let idx := partitionPoint (fun t => decide (t.last < tok)) xs
  match xs[idx]? with
  | some t => if t.first ≤ tok then some t else none
  | none => none

def replicasForToken (xs : List Tablet) (tok : Int) : Option (List Rep) :=
  (tabletForToken xs tok).map (·.replicas.all)

def dcReplicas (t : Tablet) (dc : String) : List Rep := (alGet dc t.replicas.perDc).getD []

def dcReplicasForToken (xs : List Tablet) (tok : Int) (dc : String) : Option (List Rep) :=
  (tabletForToken xs tok).map (fun t => dcReplicas t dc)

/-- `add_tablet` on the list; `none` = `drain(left..right)` panics (`left > right`). -/
def addTabletList (xs : List Tablet) (new : Tablet) : Option (List Tablet) :=
  let left := partitionPoint (fun t => decide (t.last < new.first)) xs
  let right := partitionPoint (fun t => decide (t.first ≤ new.last)) xs
  if left ≤ right then some (xs.take left ++ new :: xs.drop right) else none

/-- `TableTablets::add_tablet`.  The flag is set before the panic can happen. -/
def Table.addTablet (tbl : Table) (new : Tablet) : Table × Bool :=
  let flag := tbl.hasUnknown || new.failed.isSome
  match addTabletList tbl.tablets new with
  | some l => (⟨l, flag⟩, true)
  | none => (⟨tbl.tablets, flag⟩, false)

def touchesRemoved (removed : List Nat) (t : Tablet) : Bool :=
  t.replicas.all.any (fun p => removed.contains p.1.hostId)

/-- `TableTablets::perform_maintenance` -/
def Table.maintenance (tbl : Table) (removed : List Nat) (nodes recreated : List (Nat × Node)) : Table :=
  let l1 := if tbl.hasUnknown then tbl.tablets.filterMap (reResolve (fun id => alGet id nodes)) else tbl.tablets
  let l2 := if removed.isEmpty then l1 else l1.filter (fun t => !touchesRemoved removed t)
  let l3 := if recreated.isEmpty then l2 else l2.map (updateStale recreated)
  ⟨l3, false⟩

/-! ### `TabletsInfo` -/

structure Info where
  tables : List ((String × String) × Table)
  hasUnknown : Bool
  deriving Repr

def Info.empty : Info := ⟨[], false⟩

def Info.addTablet (inf : Info) (spec : String × String) (t : Tablet) : Info × Bool :=
  let flag := inf.hasUnknown || t.failed.isSome
  let cur := (alGet spec inf.tables).getD Table.empty
  let (tbl, ok) := cur.addTablet t
  (⟨alSet spec tbl inf.tables, flag⟩, ok)

/-- `TabletsInfo::perform_maintenance`; a keyspace is `(name, tablet_based, tables ++ views)`. -/
def Info.maintenance (inf : Info) (keyspaces : List (String × Bool × List String)) (removed : List Nat)
    (nodes recreated : List (Nat × Node)) : Info :=
  let kept := inf.tables.filter (fun e =>
    match alGet e.1.1 keyspaces with
    | none => false
    | some (tabletBased, tables) => tabletBased && tables.contains e.1.2)
  let withEmpty := keyspaces.foldl (fun acc ks =>
    if ks.2.1 then ks.2.2.foldl (fun acc tb =>
      match alGet (ks.1, tb) acc with
      | some _ => acc
      | none => acc ++ [((ks.1, tb), Table.empty)]) acc
    else acc) kept
  let tables :=
    if !removed.isEmpty || !recreated.isEmpty || inf.hasUnknown then
      withEmpty.map (fun e => (e.1, e.2.maintenance removed nodes recreated))
    else withEmpty
  ⟨tables, false⟩

/-- A keyspace of the fetched schema as `perform_maintenance` reads it: name, `tablet_based`, the names of its
`tables` and of its materialized `views` (views are tablet-based too and live in a separate map). -/
structure KsMeta where
  name : String
  tabletBased : Bool
  tables : List String
  views : List String
  deriving DecidableEq, Repr

/-- what the two places that look at tables and views see: `tables.contains_key(t) || views.contains_key(t)`
(627-628) is membership in `tables ++ views`, `tables.keys().chain(views.keys())` (639-641) is their concatenation -/
def KsMeta.entry (k : KsMeta) : String × Bool × List String := (k.name, k.tabletBased, k.tables ++ k.views)

/-- `TabletsInfo::perform_maintenance` on keyspaces with tables and views kept apart -/
def Info.maintenanceKs (inf : Info) (keyspaces : List KsMeta) (removed : List Nat)
    (nodes recreated : List (Nat × Node)) : Info :=
  inf.maintenance (keyspaces.map KsMeta.entry) removed nodes recreated

/-! ### payload validation -/

inductive PayloadErr where
  | deserialization
  | typecheck
  | shardnum
  | wrongrange
  deriving DecidableEq, Repr

/-- The checks of `from_custom_payload` after the eager part of the deserialisation: `a`, `b` are the two
`bigint`s; the replica list is consumed lazily *after* the range check, element by element
(`none` = this element fails to deserialise). -/
def collectReplicas : List (Option (Nat × Int)) → Except PayloadErr (List (Nat × Nat))
  | [] => .ok []
  | none :: _ => .error .deserialization
  | some (id, shard) :: rest =>
    if shard < 0 then .error .shardnum
    else match collectReplicas rest with
      | .ok l => .ok ((id, shard.toNat) :: l)
      | .error e => .error e

def rawTabletCheck (a b : Int) (reps : List (Option (Nat × Int))) :
    Except PayloadErr (Int × Int × List (Nat × Nat)) :=
  if b ≤ a then .error .wrongrange
  else match collectReplicas reps with
    | .ok l => .ok (tokenNew (a + 1), tokenNew b, l)
    | .error e => .error e

/-! ### the payload cell `tuple<bigint, bigint, list<tuple<uuid, int>>>` (deserialisation, 66-108) -/

def beNat : List UInt8 → Nat := fun bs => bs.foldl (fun acc b => acc * 256 + b.toNat) 0

/-- big-endian two's complement -/
def beInt (bs : List UInt8) : Int :=
  let n := beNat bs
  if n ≥ 2 ^ (8 * bs.length - 1) then (n : Int) - 2 ^ (8 * bs.length) else n

/-- `types::read_int` -/
def readInt (bs : List UInt8) : Option (Int × List UInt8) :=
  if bs.length < 4 then none else some (beInt (bs.take 4), bs.drop 4)

/-- `FrameSlice::read_cql_bytes` (`read_bytes_opt`): a negative length is a null. -/
def readCqlBytes (bs : List UInt8) : Option (Option (List UInt8) × List UInt8) :=
  match readInt bs with
  | none => none
  | some (len, rest) =>
    if len < 0 then some (none, rest)
    else if rest.length < len.toNat then none
    else some (some (rest.take len.toNat), rest.drop len.toNat)

/-- one field of a tuple: no bytes left = null (tuples shorter than declared) -/
def tupleField (v : List UInt8) : Option (Option (List UInt8) × List UInt8) :=
  if v.isEmpty then some (none, v) else readCqlBytes v

/-- a fixed-width number / uuid: not null, exact length -/
def fixedField (size : Nat) (cell : Option (List UInt8)) : Option (List UInt8) :=
  match cell with
  | none => none
  | some b => if b.length = size then some b else none

/-- `<(Uuid, i32)>::deserialize` on one list element -/
def replicaElem (cell : Option (List UInt8)) : Option (Nat × Int) :=
  match cell with
  | none => none
  | some v =>
    match tupleField v with
    | none => none
    | some (c0, v1) =>
      match fixedField 16 c0 with
      | none => none
      | some u =>
        match tupleField v1 with
        | none => none
        | some (c1, _) =>
          match fixedField 4 c1 with
          | none => none
          | some s => some (beNat u, beInt s)

/-- the lazy `ListlikeIterator`: `count` items; the list ends at the first failing item (`none`). -/
def replicaElems : Nat → Nat → List UInt8 → List (Option (Nat × Int))
  | 0, _, _ => []
  | _, 0, _ => []
  | fuel + 1, count + 1, bs =>
    match readCqlBytes bs with
    | none => [none]
    | some (cell, rest) =>
      match replicaElem cell with
      | none => [none]
      | some r => some r :: replicaElems fuel count rest

/-- `RawTablet::from_custom_payload` on the bytes stored under `tablets-routing-v1`. -/
def parsePayload (bs : List UInt8) : Except PayloadErr (Int × Int × List (Nat × Nat)) :=
  match tupleField bs with
  | none => .error .deserialization
  | some (c0, v1) =>
    match fixedField 8 c0 with
    | none => .error .deserialization
    | some a =>
      match tupleField v1 with
      | none => .error .deserialization
      | some (c1, v2) =>
        match fixedField 8 c1 with
        | none => .error .deserialization
        | some b =>
          match tupleField v2 with
          | none => .error .deserialization
          | some (none, _) => rawTabletCheck (beInt a) (beInt b) []
          | some (some l, _) =>
            match readInt l with
            | none => .error .deserialization
            | some (count, items) =>
              if count < 0 then .error .deserialization
              else rawTabletCheck (beInt a) (beInt b) (replicaElems (items.length + 1) count.toNat items)

end ScyllaVerif.Tablets

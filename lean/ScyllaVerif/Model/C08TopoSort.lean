import ScyllaVerif.Model.C08SchemaType
/-
C08 — model of `topo_sort_udts` (`scylla/src/cluster/metadata/fetching.rs:943-1036`): the rows of
`system_schema.types` (keyspace, type name, parsed field types), sorted so that every UDT comes after the UDTs it
refers to, or `CircularTypeDependency`.  Server-supplied rows, one layer above the frames.

Partial operations of the Rust, each an explicit `panic` outcome here:
* `deg_cell.get() + 1` on a `u32` (overflow; needs 2^32 references to one type),
* `cnt.get() - 1` on a `u32` (underflow when the counter is already 0),
* `indegs.get(key).unwrap()` (a scheduled key that is not in the map),
* `assert!(udts.is_empty())` (after `udts.drain(..)`),
* `indegs.remove(&key).unwrap()` in the final loop (a key scheduled twice).

The `HashMap` is an association list with last-wins insert (`collect` of the drained rows: a repeated (keyspace, type)
key keeps ONE entry whose value is the last row); its iteration order is arbitrary in Rust and is the order of the
list handed to `topoSortNodes` here (`topoSort rows order` takes the permutation as a parameter).
`do_with_referenced_udts` is a total structural recursion on the type tree (`refsOf`).
-/
namespace ScyllaVerif.C08U
open ScyllaVerif ScyllaVerif.C08 ScyllaVerif.C08S

abbrev Key := Bytes × Bytes

structure Row where
  ks : Bytes
  name : Bytes
  fields : List PreTy
  deriving Repr

mutual
/-- `do_with_referenced_udts`: the UDT names a type tree mentions, in visiting order. -/
def refsOf : PreTy → List Bytes
  | .native _ => []
  | .list _ t => refsOf t
  | .set _ t => refsOf t
  | .map _ k v => refsOf k ++ refsOf v
  | .tuple ts => refsOfL ts
  | .vector t _ => refsOf t
  | .udt _ n => [n]
def refsOfL : List PreTy → List Bytes
  | [] => []
  | t :: ts => refsOf t ++ refsOfL ts
end

def Row.refs (r : Row) : List Bytes := refsOfL r.fields

inductive TOut (α : Type) where
  | ok (a : α)
  | cycle
  | panic (site : String)
  | fuel
  deriving Repr

/-- `HashMap::insert`: a present key keeps its place, the value is replaced. -/
def insertLW : List (Key × Row) → Key → Row → List (Key × Row)
  | [], k, v => [(k, v)]
  | (k', v') :: m, k, v => if k' = k then (k', v) :: m else (k', v') :: insertLW m k v

/-- `udts.drain(..).map(..).collect::<HashMap<_, _>>()` -/
def build (rows : List Row) : List (Key × Row) :=
  rows.foldl (fun m r => insertLW m (r.ks, r.name) r) []

def getCnt (c : List (Key × Nat)) (k : Key) : Option Nat := (c.find? (fun p => p.1 = k)).map (·.2)

def setCnt : List (Key × Nat) → Key → Nat → List (Key × Nat)
  | [], _, _ => []
  | (k', n') :: c, k, n => if k' = k then (k', n) :: c else (k', n') :: setCnt c k n

/-- the increment closure over the references of one node -/
def incRefs (ks : Bytes) : List Bytes → List (Key × Nat) → TOut (List (Key × Nat))
  | [], c => .ok c
  | r :: rs, c =>
    match getCnt c (ks, r) with
    | none => incRefs ks rs c
    | some n => if n + 1 ≥ 2 ^ 32 then .panic "deg_cell.get() + 1 overflows u32" else incRefs ks rs (setCnt c (ks, r) (n + 1))

/-- `for (def, _) in indegs.values()` -/
def incAll : List (Key × Row) → List (Key × Nat) → TOut (List (Key × Nat))
  | [], c => .ok c
  | (_, d) :: ns, c =>
    match incRefs d.ks d.refs c with
    | .ok c1 => incAll ns c1
    | o => o

/-- the decrement closure over the references of the node being processed -/
def decRefs (ks : Bytes) : List Bytes → List (Key × Nat) → List Key → TOut (List (Key × Nat) × List Key)
  | [], c, sorted => .ok (c, sorted)
  | r :: rs, c, sorted =>
    match getCnt c (ks, r) with
    | none => decRefs ks rs c sorted
    | some n =>
      if n = 0 then .panic "cnt.get() - 1 underflows u32"
      else decRefs ks rs (setCnt c (ks, r) (n - 1)) (if n - 1 = 0 then sorted ++ [(ks, r)] else sorted)

/-- `while let Some(key) = sorted.get(next_idx)` -/
def drainLoop (nodes : List (Key × Row)) : Nat → Nat → List (Key × Nat) → List Key → TOut (List Key)
  | 0, _, _, _ => .fuel
  | fuel + 1, idx, c, sorted =>
    match sorted[idx]? with
    | none => .ok sorted
    | some key =>
      match nodes.find? (fun p => p.1 = key) with
      | none => .panic "indegs.get(key).unwrap()"
      | some (_, d) =>
        match decRefs key.1 d.refs c sorted with
        | .ok (c1, s1) => drainLoop nodes fuel (idx + 1) c1 s1
        | .cycle => .cycle
        | .panic s => .panic s
        | .fuel => .fuel

/-- the final loop: `indegs.remove(&key).unwrap().0` for the scheduled keys in reverse -/
def takeAll : List Key → List (Key × Row) → TOut (List Row)
  | [], _ => .ok []
  | k :: ks, m =>
    match m.find? (fun p => p.1 = k) with
    | none => .panic "indegs.remove(&key).unwrap()"
    | some (_, d) =>
      match takeAll ks (m.filter (fun p => p.1 ≠ k)) with
      | .ok out => .ok (d :: out)
      | o => o

/-- `topo_sort_udts` on the map `nodes` (in its iteration order); `udtsLen` = length of `udts` after the drain. -/
def topoSortNodes (nodes : List (Key × Row)) (udtsLen : Nat := 0) : TOut (List Row) :=
  match incAll nodes (nodes.map (fun p => (p.1, 0))) with
  | .cycle => .cycle
  | .panic s => .panic s
  | .fuel => .fuel
  | .ok c =>
    let sorted := (c.filter (fun p => p.2 = 0)).map (·.1)
    match drainLoop nodes (nodes.length + 1) 0 c sorted with
    | .cycle => .cycle
    | .panic s => .panic s
    | .fuel => .fuel
    | .ok sorted =>
      if sorted.length < nodes.length then .cycle
      else if udtsLen ≠ 0 then .panic "assert!(udts.is_empty())"
      else takeAll sorted.reverse nodes

/-- The whole function: `order` rearranges the map's entries (the `HashMap`'s iteration order). -/
def topoSort (rows : List Row) (order : List (Key × Row) → List (Key × Row) := id) : TOut (List Row) :=
  topoSortNodes (order (build rows))

end ScyllaVerif.C08U

/-
Model of the token ring and the cluster topology types (C04; reused by C05 / C12).

* `Node`            ← the fields of `cluster::node::Node` that replica placement reads: `host_id` (equality and
                      hashing of `Node` are by `host_id` only, `cluster/node.rs` `impl PartialEq/Hash for Node`), `datacenter`, `rack`.
                      Datacenter and rack names are abstracted to numbers (`dc3` ↔ `some 3`, no name ↔ `none`);
                      the code only ever compares them for equality.
* `Ring α`          ← `TokenRing<ElemT>` (`routing/locator/token_ring.rs`): a `Vec<(Token, ElemT)>` kept sorted by
                      token with the *stable* `sort_by_key` (`mkRing`).
* `firstGE`         ← `self.ring.partition_point(|e| e.0 < token)` (`token_ring.rs:36-40`, after the repair ad6cb90):
                      on a ring sorted by token this is the index of the first member whose token is `≥ tok`, i.e.
                      the number of leading members with a smaller token (std's contract for a partitioned slice).
* `ringRangeFull`, `ringRange`, `getElemForToken` ← `ring_range_full` (`ring[i..] ++ ring`, `take(len)`),
                      `ring_range`, `get_elem_for_token` (`token_ring.rs:35-59`).
* `uniq`            ← `itertools::Itertools::unique` (first occurrence wins; the `HashSet` of seen elements is the
                      `seen` list of `uniqFrom`).
* `tokenNew`        ← `Token::new` (`routing/mod.rs:38-43`): `i64::MIN` is normalised to `i64::MAX`.
* `Topology`        — the input of `ClusterState::new`: the peers in metadata order, each with its tokens
                      (`cluster/state.rs:275-341` pushes `(token, node)` in that order, `ReplicationInfo::new` sorts).
-/
namespace ScyllaVerif.Ring

/-- A cluster node as seen by replica placement.  `id` stands for `host_id`.
Equality here is structural while the Rust `Node` is compared by `host_id` only: the two coincide on the rings
the driver can build, where entries with equal host id are the same `Arc<Node>` (`calculate_new_topology`
creates one node per peer; both case-line parsers reject repeated ids).  This is an assumption of C04
(C05 carries it as `WF.distinctIds`). -/
structure Node where
  id : Nat
  dc : Option Nat
  rack : Option Nat
  deriving DecidableEq, Repr, Inhabited

/-- `TokenRing<α>`: `(token, element)` pairs, sorted by token (see `mkRing`). Tokens are `i64` values. -/
abbrev Ring (α : Type) := List (Int × α)

/-- `Token::new`. -/
def tokenNew (v : Int) : Int := if v = -9223372036854775808 then 9223372036854775807 else v

/-- `TokenRing::new`: collect and `sort_by_key(|a| a.0)` (stable). -/
def mkRing {α : Type} (entries : List (Int × α)) : Ring α :=
  entries.mergeSort (fun a b => decide (a.1 ≤ b.1))

/-- `partition_point(|e| e.0 < tok)` on the (sorted) token sequence: index of the first token `≥ tok`
(= number of leading tokens `< tok`). -/
def firstGE (toks : List Int) (tok : Int) : Nat := (toks.takeWhile (fun t => decide (t < tok))).length

/-- Rotation of a list at index `i`: `l[i..] ++ l[..i]`. -/
def rotateAt {α : Type} (l : List α) (i : Nat) : List α := l.drop i ++ l.take i

/-- `ring_range_full`: `ring[i..].iter().chain(ring.iter()).take(ring.len())`. -/
def ringRangeFull {α : Type} (r : Ring α) (tok : Int) : Ring α :=
  rotateAt r (firstGE (r.map (·.1)) tok)

/-- `ring_range`: the elements only. -/
def ringRange {α : Type} (r : Ring α) (tok : Int) : List α := (ringRangeFull r tok).map (·.2)

/-- `get_elem_for_token`: first element of `ring_range`. -/
def getElemForToken {α : Type} (r : Ring α) (tok : Int) : Option α := (ringRange r tok).head?

/-- `itertools::unique` with an initial set of already seen elements. -/
def uniqFrom {α : Type} [DecidableEq α] (seen : List α) : List α → List α
  | [] => []
  | a :: l => if a ∈ seen then uniqFrom seen l else a :: uniqFrom (a :: seen) l

/-- `itertools::unique`: keeps the first occurrence of every element. -/
def uniq {α : Type} [DecidableEq α] (l : List α) : List α := uniqFrom [] l

/-- One peer of the metadata: the node and its tokens (vnodes), as handed to `ClusterState::new`. -/
structure Peer where
  node : Node
  tokens : List Int
  deriving Repr

/-- The peers in metadata order. -/
abbrev Topology := List Peer

/-- `calculate_new_topology` (`state.rs:335-337`): `(token, node)` for every peer, every token, in order;
tokens went through `Token::new`. -/
def Topology.entries (t : Topology) : List (Int × Node) :=
  t.flatMap (fun p => p.tokens.map (fun tk => (tokenNew tk, p.node)))

/-- The global ring of a topology (`ReplicationInfo::new`, `replication_info.rs:63`). -/
def Topology.ring (t : Topology) : Ring Node := mkRing t.entries

end ScyllaVerif.Ring

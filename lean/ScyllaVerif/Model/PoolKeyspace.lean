/-
The refiller's FILL GATE (C10: "… re-established connections") ← `connection_pool.rs`: `run` 649-740 (a refill is
scheduled only `if scheduled_refill.is_none() && self.need_filling()`), `is_filling` / `need_filling` 743-762
(`need_filling = ready_connections.is_empty() && !is_full`), `start_filling` (opens `target - active` connections, each a
future in `ready_connections`), `start_setting_keyspace_for_connection` 1336-1358: with a session keyspace a freshly
opened connection stays in `ready_connections` while its `USE <keyspace>` is in flight - "TODO: There should be a
timeout for this"; `Connection::use_keyspace` 1296-1308 has none either.

Counts only: `conns` published connections, `setting` futures in `ready_connections` (handshake or `USE` not completed
yet), `target` the pool size.
-/
namespace ScyllaVerif.PoolKeyspace

structure KPool where
  conns : Nat
  setting : Nat
  target : Nat
  deriving Repr, DecidableEq

inductive KEv where
  | die          -- a published connection's router ends and the refiller removes it
  | fill         -- the refiller's loop runs (timer, `refill_now_notify`, any event): it refills IF `need_filling`
  | complete     -- one future of `ready_connections` completes with a connection that is published
  | fail         -- one future of `ready_connections` completes with an error
  deriving Repr, DecidableEq

def needFilling (p : KPool) : Bool := p.setting == 0 && decide (p.conns < p.target)

def step (p : KPool) : KEv → KPool
  | .die => { p with conns := p.conns - 1 }
  | .fill => if needFilling p then { p with setting := p.target - p.conns } else p
  | .complete => if p.setting = 0 then p else { p with setting := p.setting - 1, conns := p.conns + 1 }
  | .fail => { p with setting := p.setting - 1 }

def run (p : KPool) (evs : List KEv) : KPool := evs.foldl step p

/-- A peer that never answers `USE`: nothing in `ready_connections` ever completes. -/
def silent : KEv → Bool
  | .complete | .fail => false
  | _ => true

end ScyllaVerif.PoolKeyspace

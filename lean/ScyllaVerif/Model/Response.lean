import ScyllaVerif.Model.TypeParser
/-
C08 — model of `Response(V2)::deserialize` and `deserialize_metadata` for every response opcode.

* ERROR            ← `scylla-cql-core/src/frame/response/error.rs:35-158` (table `errorSpec`)
* AUTHENTICATE / AUTH_CHALLENGE / AUTH_SUCCESS ← `response/authenticate.rs`
* SUPPORTED        ← `response/supported.rs`
* EVENT            ← `response/event.rs` (`EventV2`: topology, status, schema, client routes)
* RESULT           ← `response/result.rs:700-1110` (Void, Rows, SetKeyspace, Prepared, SchemaChange)
* raw rows / cells ← `scylla-cql-core/src/deserialize/result.rs` `RawRowIterator`, `frame_slice.rs` `read_cql_bytes`

Strings are kept as their (UTF-8 checked) bytes; maps as association lists in wire order.
-/
namespace ScyllaVerif.C08

/-- Negotiated protocol features (`ProtocolFeatures`); only `rateLimitError` and `metadataId` influence decoding. -/
structure Features where
  rateLimitError : Option Int := none
  lwtMask : Option Nat := none
  tablets : Bool := false
  metadataId : Bool := false
  deriving Repr

/-! ### ERROR -/

inductive FldTy where
  | int | cons | bool | byte | str | strs | sbytes
  deriving Repr, DecidableEq

inductive Fld where
  | int (v : Int) | cons (c : Nat) | bool (b : Bool) | byte (n : Nat) | str (s : Bytes) | strs (l : List Bytes)
  | sbytes (b : Bytes)
  deriving Repr, DecidableEq

def readFld : FldTy → M Fld
  | .int => do let v ← readInt; pure (.int v)
  | .cons => do let c ← readConsistency; pure (.cons c)
  | .bool => do let b ← readU8; pure (.bool (b ≠ 0))
  | .byte => do let b ← readU8; pure (.byte b)
  | .str => do let s ← readString; pure (.str s)
  | .strs => do let l ← readStringList; pure (.strs l)
  | .sbytes => do let b ← readShortBytes; pure (.sbytes b)

def readFlds : List FldTy → M (List Fld)
  | [] => pure []
  | t :: ts => do let f ← readFld t; let r ← readFlds ts; pure (f :: r)

/-- `match code { … }` of `Error::deserialize`: variant name and the fields read after the reason, in order.
The rate-limit arm is tried after all the fixed codes. -/
def errorSpec (rl : Option Int) (code : Int) : String × List FldTy :=
  if code = 0x0000 then ("ServerError", [])
  else if code = 0x000A then ("ProtocolError", [])
  else if code = 0x0100 then ("AuthenticationError", [])
  else if code = 0x1000 then ("Unavailable", [.cons, .int, .int])
  else if code = 0x1001 then ("Overloaded", [])
  else if code = 0x1002 then ("IsBootstrapping", [])
  else if code = 0x1003 then ("TruncateError", [])
  else if code = 0x1100 then ("WriteTimeout", [.cons, .int, .int, .str])
  else if code = 0x1200 then ("ReadTimeout", [.cons, .int, .int, .bool])
  else if code = 0x1300 then ("ReadFailure", [.cons, .int, .int, .int, .bool])
  else if code = 0x1400 then ("FunctionFailure", [.str, .str, .strs])
  else if code = 0x1500 then ("WriteFailure", [.cons, .int, .int, .int, .str])
  else if code = 0x2000 then ("SyntaxError", [])
  else if code = 0x2100 then ("Unauthorized", [])
  else if code = 0x2200 then ("Invalid", [])
  else if code = 0x2300 then ("ConfigError", [])
  else if code = 0x2400 then ("AlreadyExists", [.str, .str])
  else if code = 0x2500 then ("Unprepared", [.sbytes])
  else if some code = rl then ("RateLimitReached", [.byte, .bool])
  else ("Other", [])

structure ErrorResp where
  code : Int
  reason : Bytes
  fields : List Fld
  deriving Repr, DecidableEq

def deserError (f : Features) : M ErrorResp := do
  let code ← tag "error.code" readInt
  let reason ← tag "error.reason" readString
  let fields ← tag "error.field" (readFlds (errorSpec f.rateLimitError code).2)
  pure ⟨code, reason, fields⟩

/-! ### EVENT / schema change -/

inductive SchemaTarget where
  | keyspace
  | table (name : Bytes)
  | type (name : Bytes)
  | function (name : Bytes) (args : List Bytes)
  | aggregate (name : Bytes) (args : List Bytes)
  deriving Repr, DecidableEq

structure SchemaChange where
  changeType : Bytes
  ks : Bytes
  target : SchemaTarget
  deriving Repr, DecidableEq

/-- `SchemaChangeEvent::deserialize`; the argument vector is `Vec::with_capacity(number_of_arguments)`. -/
def deserSchemaChange : M SchemaChange := do
  let ct ← tag "schema.change" readString
  let target ← tag "schema.target" readString
  let ks ← tag "schema.ks" readString
  if target == asciiBytes "KEYSPACE" then pure ⟨ct, ks, .keyspace⟩
  else if target == asciiBytes "TABLE" then do
    let n ← tag "schema.name" readString
    pure ⟨ct, ks, .table n⟩
  else if target == asciiBytes "TYPE" then do
    let n ← tag "schema.name" readString
    pure ⟨ct, ks, .type n⟩
  else if target == asciiBytes "FUNCTION" then do
    let n ← tag "schema.name" readString
    let cnt ← tag "schema.argcount" readShort
    allocReq cnt
    let args ← tag "schema.arg" (loopN cnt readString)
    pure ⟨ct, ks, .function n args⟩
  else if target == asciiBytes "AGGREGATE" then do
    let n ← tag "schema.name" readString
    let cnt ← tag "schema.argcount" readShort
    allocReq cnt
    let args ← tag "schema.arg" (loopN cnt readString)
    pure ⟨ct, ks, .aggregate n args⟩
  else fail "schema.unknowntarget"

/-- `decode_hex32` of the `uuid` crate. -/
def uuidHex (hex : Bytes) : Option Bytes :=
  if hex.length = 32 ∧ hex.all isHexDigit then some (hexPairs hex) else none

def uuidHyphenated (s : Bytes) : Option Bytes :=
  if s.length ≠ 36 then none
  else if s[8]? = some 0x2D ∧ s[13]? = some 0x2D ∧ s[18]? = some 0x2D ∧ s[23]? = some 0x2D then
    uuidHex (s.take 8 ++ (s.drop 9).take 4 ++ (s.drop 14).take 4 ++ (s.drop 19).take 4 ++ s.drop 24)
  else none

/-- `Uuid::try_parse`: simple (32), hyphenated (36), braced (38), URN (45). -/
def parseUuidStr (s : Bytes) : Option Bytes :=
  if s.length = 32 then uuidHex s
  else if s.length = 36 then uuidHyphenated s
  else if s.length = 38 ∧ s.head? = some 0x7B ∧ s.getLast? = some 0x7D then uuidHyphenated ((s.drop 1).take 36)
  else if s.length = 45 ∧ (asciiBytes "urn:uuid:").isPrefixOf s then uuidHyphenated (s.drop 9)
  else none

inductive Event where
  | topology (change : Bytes) (addr : Addr)
  | status (change : Bytes) (addr : Addr)
  | schema (sc : SchemaChange)
  | routes (conns : List Bytes) (hosts : List Bytes)
  deriving Repr, DecidableEq

/-- The host-id strings of a CLIENT_ROUTES_CHANGE event: `read_string_list_iter` mapped through `Uuid::try_parse`,
collected into a `Result` (stops at the first failure). -/
def readHostIds : Nat → M (List Bytes)
  | 0 => pure []
  | n + 1 => do
    let s ← tag "routes.hostids" readString
    match parseUuidStr s with
    | none => fail "routes.uuid"
    | some u => do let r ← readHostIds n; pure (u :: r)

/-- `EventV2::deserialize`. -/
def deserEvent : M Event := do
  let ty ← tag "event.type" readString
  if ty == asciiBytes "TOPOLOGY_CHANGE" then do
    let c ← tag "topo.change" readString
    let a ← tag "topo.addr" readInet
    if c == asciiBytes "NEW_NODE" ∨ c == asciiBytes "REMOVED_NODE" then pure (.topology c a)
    else fail "topo.unknownchange"
  else if ty == asciiBytes "STATUS_CHANGE" then do
    let c ← tag "status.change" readString
    let a ← tag "status.addr" readInet
    if c == asciiBytes "UP" ∨ c == asciiBytes "DOWN" then pure (.status c a)
    else fail "status.unknownchange"
  else if ty == asciiBytes "SCHEMA_CHANGE" then do
    let sc ← deserSchemaChange
    pure (.schema sc)
  else if ty == asciiBytes "CLIENT_ROUTES_CHANGE" then do
    let c ← tag "routes.change" readString
    if c == asciiBytes "UPDATE_NODES" then do
      let conns ← tag "routes.connids" readStringList
      let n ← tag "routes.hostids" readShort
      if conns.length ≠ n then fail "routes.lenmismatch"
      else do
        let hosts ← readHostIds n
        pure (.routes conns hosts)
    else fail "routes.unknownchange"
  else fail "event.unknowntype"

/-! ### RESULT -/

structure ColSpec where
  ks : Bytes
  table : Bytes
  name : Bytes
  ty : Ty
  deriving Repr

/-- `deser_table_spec`. -/
def deserTableSpec : M (Bytes × Bytes) := do
  let ks ← tag "ks" readString
  let t ← tag "table" readString
  pure (ks, t)

/-- The global table spec if there is one, else a per-column table spec read from the buffer. -/
def tableSpecFor (gts : Option (Bytes × Bytes)) : M (Bytes × Bytes) :=
  match gts with
  | some g => pure g
  | none => deserTableSpec

/-- One iteration of the loop of `deser_col_specs_generic`. -/
def deserColSpec (gts : Option (Bytes × Bytes)) : M ColSpec := do
  let ts ← tableSpecFor gts
  let name ← tag "name" readString
  let ty ← deserTypeTop
  pure ⟨ts.1, ts.2, name, ty⟩

/-- `deser_col_specs_generic`: capacity `min(col_count, buf.len() / 4)`. -/
def deserColSpecs (gts : Option (Bytes × Bytes)) (colCount : Nat) : M (List ColSpec) := do
  let rem ← remaining
  allocReq (min colCount (rem / 4))
  loopN colCount (tag "col" (deserColSpec gts))

structure ResultMeta where
  id : Option Bytes
  colCount : Nat
  cols : List ColSpec
  deriving Repr

/-- `flags & bit != 0` on the `i32` flags word (`bit` a power of two). -/
def flagSet (flags : Int) (bit : Nat) : Bool :=
  let u : Nat := if flags < 0 then (flags + 2 ^ 32).toNat else flags.toNat
  (u / bit) % 2 = 1

/-- `deser_result_metadata` (the result metadata inside PREPARED). -/
def deserResultMetadata (f : Features) : M (ResultMeta × Option Bytes) := do
  let flags ← tag "flags" readInt
  let globalSpec := flagSet flags 1
  let hasMore := flagSet flags 2
  let noMeta := flagSet flags 4
  let changed := f.metadataId && flagSet flags 8
  if changed && noMeta then fail "idnometa"
  else do
    let colCount ← tag "colcount" readIntLength
    let paging ← optRead (hasMore) (tag "paging" readBytes)
    let newId ← optRead (changed) (tag "newid" readShortBytes)
    let cols ← condRead (!noMeta) (do
      let gts ← optRead globalSpec (tag "gts" deserTableSpec)
      deserColSpecs gts colCount) []
    pure (⟨newId, colCount, cols⟩, paging)

structure PreparedMeta where
  flags : Int
  colCount : Nat
  /-- `(index, sequence)` in wire order; the code then sorts by `index` (unstable). -/
  pkIndexes : List (Nat × Nat)
  cols : List ColSpec
  deriving Repr

/-- `deser_prepared_metadata`: capacity `min(pk_count, buf.len() / 2)`. -/
def deserPreparedMetadata : M PreparedMeta := do
  let flags ← tag "flags" readInt
  let colCount ← tag "colcount" readIntLength
  let pkCount ← tag "pkcount" readIntLength
  let rem ← remaining
  allocReq (min pkCount (rem / 2))
  let idxs ← loopN pkCount (tag "pkindex" readShort)
  let pk := idxs.zipIdx.map (fun p => (p.1, p.2 % 65536))
  let gts ← optRead (flagSet flags 1) (tag "gts" deserTableSpec)
  let cols ← deserColSpecs gts colCount
  pure ⟨flags, colCount, pk, cols⟩

structure Prepared where
  id : Bytes
  prepMeta : PreparedMeta
  resultMeta : ResultMeta
  deriving Repr

/-- `deser_prepared`. -/
def deserPrepared (f : Features) : M Prepared := do
  let id ← tag "prep.id" readShortBytes
  let rmid ← optRead (f.metadataId) (tag "prep.rmid" readShortBytes)
  let pm ← tag "prep.pm" deserPreparedMetadata
  let rp ← tag "prep.rm" (deserResultMetadata f)
  match rp.2 with
  | some _ => fail "prep.nonzeropaging"
  | none => pure ⟨id, pm, { rp.1 with id := rmid }⟩

inductive MetaPresence where
  | noMetadata | justMetadata | withNewId
  deriving Repr, DecidableEq

/-- `RawMetadataAndRawRows` (first stage of a Rows result). -/
structure RawRows where
  colCount : Nat
  globalSpec : Bool
  presence : MetaPresence
  paging : Option Bytes
  deriving Repr

/-- `RawMetadataAndRawRows::deserialize`: the reads on the `FrameSlice`. -/
def deserRawRowsHdr (f : Features) : M RawRows := do
  let flags ← tag "rows.flags" readInt
  let globalSpec := flagSet flags 1
  let hasMore := flagSet flags 2
  let noMeta := flagSet flags 4
  let changed := f.metadataId && flagSet flags 8
  if noMeta && changed then fail "rows.idnometa"
  else do
    let presence : MetaPresence := if noMeta then .noMetadata else if changed then .withNewId else .justMetadata
    let colCount ← tag "rows.colcount" readIntLength
    let paging ← optRead (hasMore) (tag "rows.paging" readBytes)
    -- `raw_metadata_and_rows: frame.to_bytes()` is the rest of the buffer: it stays in the reader state
    pure ⟨colCount, globalSpec, presence, paging⟩

/-- `RawMetadataAndRawRows::deserialize`, ending with `raw_metadata_and_rows: frame.to_bytes()` (result.rs:847):
`FrameSlice::to_bytes` is `original_frame.slice_ref(frame_subslice)`. -/
def deserRawRows (f : Features) : M RawRows := do
  let r ← tracked (deserRawRowsHdr f)
  sliceRef r.2
  pure r.1

/-- Which metadata a Rows result ends up with. -/
inductive MetaSource where
  | cached | mockEmpty | parsed
  deriving Repr, DecidableEq

structure DeserRows where
  source : MetaSource
  rmeta : ResultMeta
  rowsCount : Nat
  rawRows : Bytes
  deriving Repr

/-- `metadata_deserializer`: [new metadata id] [global table spec] column specs. -/
def parsedMeta (r : RawRows) (p : MetaPresence) : M (MetaSource × ResultMeta) :=
  tag "meta" (do
    let newId ← optRead (p = .withNewId) (tag "newid" readShortBytes)
    let gts ← optRead r.globalSpec (tag "gts" deserTableSpec)
    let cols ← deserColSpecs gts r.colCount
    pure (MetaSource.parsed, (⟨newId, r.colCount, cols⟩ : ResultMeta)))

/-- `make_deserialized_metadata`: the deserializer runs on the frame, then `cart.slice_ref(raw_rows)`
(result.rs:353) re-slices the frame at what the deserializer left. -/
def parsedMetaSliced (r : RawRows) (p : MetaPresence) : M (MetaSource × ResultMeta) := do
  let sm ← tracked (parsedMeta r p)
  sliceRef sm.2
  pure sm.1

/-- The metadata a Rows result is given: cached, mock-empty, or parsed from the frame. -/
def metaFor (r : RawRows) (cached : Option ResultMeta) : M (MetaSource × ResultMeta) :=
  match r.presence, cached with
  | .noMetadata, some c => pure (MetaSource.cached, c)
  | .noMetadata, none => pure (MetaSource.mockEmpty, (⟨none, 0, []⟩ : ResultMeta))
  | p, _ => parsedMetaSliced r p

/-- `RawMetadataAndRawRows::deserialize_metadata` (`cached` = the metadata the caller passed, if any). -/
def deserMetadata (r : RawRows) (cached : Option ResultMeta) : M DeserRows := do
  let sm ← metaFor r cached
  -- `FrameSlice::new(&row_count_and_raw_rows)`, `read_int_length`, then `raw_rows: frame_slice.to_bytes()`
  -- (result.rs:955; `to_bytes` = `slice_ref` of what is left)
  let rc ← tracked (tag "rowscount" readIntLength)
  sliceRef rc.2
  let raw ← takeRest
  pure ⟨sm.1, sm.2, rc.1, raw⟩

/-- `read_cql_bytes` over the cells of one row (`RawRowIterator::next` skips the row this way, `ColumnIterator` then
re-reads the same cells): `Except (column index, kind)`. -/
def readCells : Nat → Nat → Bytes → Except (Nat × String) (List (Option Bytes) × Bytes)
  | 0, _, buf => .ok ([], buf)
  | n + 1, idx, buf =>
    match readBytesOpt { buf := buf } with
    | (.err k, _) => .error (idx, k)
    | (.panic k, _) => .error (idx, "PANIC " ++ k)
    | (.ok c, s) =>
      match readCells n (idx + 1) s.buf with
      | .error e => .error e
      | .ok (r, b) => .ok (c :: r, b)

/-- Rows of a result as raw cells, up to the first row that fails (then `some (row, column, kind)`).
`rows` is the number of rows still to read. -/
def readRows (ncols : Nat) : Nat → Nat → Bytes → List (List (Option Bytes)) × Option (Nat × Nat × String)
  | 0, _, _ => ([], none)
  | n + 1, ridx, buf =>
    match readCells ncols 0 buf with
    | .error (c, k) => ([], some (ridx, c, k))
    | .ok (cells, b) =>
      let (r, e) := readRows ncols n (ridx + 1) b
      (cells :: r, e)

/-- The row-skipping loop of `RawRowIterator::next` (`deserialize/result.rs:60-82`): `self.slice.read_cql_bytes()`
per column; `read_cql_bytes` advances the iterator's slice after every cell it could read and leaves it at the
failing cell otherwise.  Returns the failure (column index, kind), if any, and where the slice is afterwards. -/
def skipRow : Nat → Nat → Bytes → Option (Nat × String) × Bytes
  | 0, _, buf => (none, buf)
  | n + 1, idx, buf =>
    match readBytesOpt { buf := buf } with
    | (.ok _, s) => skipRow n (idx + 1) s.buf
    | (.err k, _) => (some (idx, k), buf)
    | (.panic k, _) => (some (idx, "PANIC " ++ k), buf)

/-- Every item `RawRowIterator` yields when it is iterated to the end WITHOUT stopping at an error: `remaining` is
decremented per item and a failing row does not end the iteration; the next row starts where the failing one
stopped, i.e. AT THE FAILING CELL (the cells before it were consumed), so the following items fail at column 0.
(The comment in `size_hint` — "Errs containing that same first encountered error" — is inexact about the column.) -/
def iterRows (ncols : Nat) : Nat → Bytes → List (Except (Nat × String) (List (Option Bytes)))
  | 0, _ => []
  | n + 1, buf =>
    match readCells ncols 0 buf with
    | .error e => .error e :: iterRows ncols n (skipRow ncols 0 buf).2
    | .ok (cells, b) => .ok cells :: iterRows ncols n b

/-! ### `RawRowLendingIterator` (the row iterator behind `QueryPager` / `TypedRowStream`,
`scylla-cql/src/deserialize/result.rs:26-110`)

It owns the page (`raw_rows: Bytes`) and keeps a persistent OFFSET `self.at` instead of a slice: every `next()`
re-slices `&raw_rows[self.at..]` (panics when `at > len`), skips the row with `read_cql_bytes` per column and advances
`self.at` by what each read consumed (`before - after`, a `usize` subtraction). -/

def USIZE_MAX : Nat := 2 ^ 64 - 1

/-- The skip loop of `RawRowLendingIterator::next`: `sl` is the local slice, `at` the persistent offset. -/
def lendSkip : Nat → Nat → Bytes → Nat → Outcome (Option (Nat × String) × Nat)
  | 0, _, _, off => .ok (none, off)
  | n + 1, idx, sl, off =>
    match readBytesOpt { buf := sl } with
    | (.panic k, _) => .panic k
    | (.err k, _) => .ok (some (idx, k), off)
    | (.ok _, s) =>
      let before := sl.length
      let after := s.buf.length
      if after > before then .panic "len_before - len_after (usize underflow)"
      else if off + (before - after) > USIZE_MAX then .panic "self.at += … (usize overflow)"
      else lendSkip n (idx + 1) s.buf (off + (before - after))

/-- All items `RawRowLendingIterator` yields when `next()` is called until `None` (also after `Err` items), or a
panic.  An item is the row's cells (what the returned `ColumnIterator` reads) or the failure of the skip loop. -/
def lendRows (ncols : Nat) : Nat → Nat → Bytes → Outcome (List (Except (Nat × String) (List (Option Bytes))))
  | 0, _, _ => .ok []
  | n + 1, off, raw =>
    -- `&remaining_frame.as_slice()[self.off..]`
    if off > raw.length then .panic "range start index out of range for slice"
    else
      let sl := raw.drop off
      match lendSkip ncols 0 sl off with
      | .panic k => .panic k
      | .err k => .err k
      | .ok (e, off') =>
        let item : Except (Nat × String) (List (Option Bytes)) := match e with
          | some f => .error f
          | none => match readCells ncols 0 sl with
            | .ok (cells, _) => .ok cells
            | .error f => .error f
        match lendRows ncols n off' raw with
        | .panic k => .panic k
        | .err k => .err k
        | .ok rest => .ok (item :: rest)

inductive ResultResp where
  | void
  | rows (r : RawRows)
  | setKeyspace (ks : Bytes)
  | prepared (p : Prepared)
  | schemaChange (sc : SchemaChange)
  deriving Repr

/-- `result::deserialize_with_features`. -/
def deserResult (f : Features) : M ResultResp := do
  let kt ← tracked (tag "result.kind" readInt)
  let kind := kt.1
  if kind = 1 then pure .void
  else if kind = 2 then do
    -- `deser_rows(buf_bytes.slice_ref(buf), …)` (result.rs:1064)
    sliceRef kt.2
    let r ← deserRawRows f
    pure (.rows r)
  else if kind = 3 then do let ks ← tag "setks" readString; pure (.setKeyspace ks)
  else if kind = 4 then do let p ← deserPrepared f; pure (.prepared p)
  else if kind = 5 then do let sc ← deserSchemaChange; pure (.schemaChange sc)
  else fail "result.unknownkind"

/-! ### all responses -/

inductive Response where
  | error (e : ErrorResp)
  | ready
  | authenticate (name : Bytes)
  | supported (opts : List (Bytes × List Bytes))
  | result (r : ResultResp)
  | event (e : Event)
  | authChallenge (m : Option Bytes)
  | authSuccess (m : Option Bytes)
  deriving Repr

/-- `ResponseOpcode::try_from`. -/
def opcodeKnown (op : Nat) : Bool :=
  op = 0x00 ∨ op = 0x02 ∨ op = 0x03 ∨ op = 0x06 ∨ op = 0x08 ∨ op = 0x0C ∨ op = 0x0E ∨ op = 0x10

/-- `ResponseV2::deserialize` (trailing bytes are ignored, as in the code). -/
def deserResponse (f : Features) (opcode : Nat) : M Response :=
  if opcode = 0x00 then do let e ← deserError f; pure (.error e)
  else if opcode = 0x02 then pure .ready
  else if opcode = 0x03 then do let n ← tag "authenticate" readString; pure (.authenticate n)
  else if opcode = 0x06 then do let o ← tag "supported" readStringMultimap; pure (.supported o)
  else if opcode = 0x08 then do let r ← deserResult f; pure (.result r)
  else if opcode = 0x0C then do let e ← deserEvent; pure (.event e)
  else if opcode = 0x0E then do let m ← tag "authchallenge" readBytesOpt; pure (.authChallenge m)
  else if opcode = 0x10 then do let m ← tag "authsuccess" readBytesOpt; pure (.authSuccess m)
  else fail "opcode"

end ScyllaVerif.C08

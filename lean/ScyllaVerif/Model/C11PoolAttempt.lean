import ScyllaVerif.Model.C11Connect
/-
C11, the pool's consumer of the loop: ONE connection attempt of `PoolRefiller::start_opening_connection`
(`scylla/src/network/connection_pool.rs:1041-1095`) and what `handle_ready_connection` starts when it failed
(`connection_pool.rs:860-881`).

* `startOpening` ← the `match (self.sharder.clone(), self.shard_aware_port, shard)` of `start_opening_connection`:
  only `(Some, Some, Some)` is a shard-aware attempt; everything else goes to the regular port with the source port
  left to the operating system (`open_connection(&endpoint, None, &cfg)`).
* `runAttempt` ← the future the attempt consists of. A shard-aware attempt is ONE call of
  `open_connection_to_shard_aware_port(&shard_aware_endpoint, shard, sharder.clone(), &cfg)` where `cfg` is the pool's
  `connection_config` cloned unchanged - its `shard_aware_local_port_range` IS the range the user configured
  (`SessionConfig::shard_aware_local_port_range` → `ConnectionConfig` → `HostConnectionConfig`), and whatever that
  call returns, `NoSourcePortForShard` included, is the attempt's result: there is no second walk over any other range.
* `attemptTried` ← the source ports the driver itself binds during the attempt (none in a plain attempt).
* `followUp` ← `handle_ready_connection`, `Err(ConnectionSetupError::Connection(_))` arm: after a FAILED shard-aware
  attempt the refiller starts `start_opening_connection(None)` - a plain attempt; after a failed plain attempt nothing.
  (What it starts after a SUCCESSFUL connection - excess, keyspace - is C12's refiller model.)

The per-port behaviour of `open_connection` (what the operating system and the node answer for each source port) and
the iterator's pivot are explicit arguments, as in `Model/C11Connect.lean`.
-/
namespace ScyllaVerif.C11PoolAttempt
open ScyllaVerif.Sharding ScyllaVerif.C11Connect

/-- `ShardAwarePortRange` as held by the pool's `HostConnectionConfig` (inclusive bounds). -/
structure PortCfg where
  lo : Nat
  hi : Nat
  deriving Repr, DecidableEq

inductive PoolAttempt where
  /-- `open_connection_to_shard_aware_port(endpoint with the shard-aware port, shard, sharder, &cfg)` -/
  | shardAware (shard nr : Nat)
  /-- `open_connection(endpoint, None, &cfg)`: the source port is the operating system's choice -/
  | plain
  deriving Repr, DecidableEq

/-- `start_opening_connection(shard)` in a refiller whose sharder has `sharder` shards (`None`: no sharder) and whose
shard-aware port is `shardAwarePort`. -/
def startOpening (sharder shardAwarePort shard : Option Nat) : PoolAttempt :=
  match sharder, shardAwarePort, shard with
  | some nr, some _, some s => .shardAware s nr
  | _, _, _ => .plain

/-- The result of an attempt as far as DRIVER-CHOSEN source ports go: `none` for a plain attempt (no source port is
chosen by the driver), else the result of the one call of the loop over the CONFIGURED range. -/
def runAttempt (cfg : PortCfg) (a : PoolAttempt) (pivot : Nat) (f : Nat → Except ConnErr Unit) : Option OpenResult :=
  match a with
  | .shardAware s nr => some (openShardAware nr s cfg.lo cfg.hi pivot f)
  | .plain => none

/-- The source ports the driver binds during the attempt, in order. -/
def attemptTried (cfg : PortCfg) (a : PoolAttempt) (pivot : Nat) (f : Nat → Except ConnErr Unit) : List Nat :=
  match a with
  | .shardAware s nr => triedShardAware nr s cfg.lo cfg.hi pivot f
  | .plain => []

/-- What the refiller starts in answer to the attempt's result. -/
def followUp (a : PoolAttempt) (r : Option OpenResult) : Option PoolAttempt :=
  match a, r with
  | .shardAware _ _, some (.connected _) => none
  | .shardAware _ _, some _ => some .plain
  | _, _ => none

/-- An attempt and the chain of attempts its failures start: every source port the driver binds, in order. -/
def chainTried (cfg : PortCfg) (a : PoolAttempt) (pivot : Nat) (f : Nat → Except ConnErr Unit) : List Nat :=
  attemptTried cfg a pivot f ++
    (match followUp a (runAttempt cfg a pivot f) with
     | some b => attemptTried cfg b pivot f
     | none => [])

/-! ### the advanced-shard-awareness block (`connection_pool.rs:764-797, 940-950`)

`handle_ready_connection`, `Ok` arm: `shard_id = shard_info.map_or(0, |s| s.shard)`, `sharder = shard_info.map(get_sharder)`;
`if let Some(requested) = evt.requested_shard && Some(&requested.sharder) == sharder.as_ref() && requested.shard != shard_id
{ self.block_advanced_shard_awareness() }`. `block_advanced_shard_awareness`: nothing if a block is in effect, else
`blocked_until = Some(now + 300 s)`. `is_advanced_shard_awareness_blocked`: `blocked_until.is_some_and(|until| now < until)`.
`can_use_shard_aware_port`: sharder and shard-aware port known, allowed by the configuration, and not blocked.
The clock (`tokio::time::Instant::now()`, here a natural number of seconds) is an input of every arrival. -/

/-- `Sharder` (`nr_shards`, `msb_ignore`): compared with `==` as a whole. -/
structure SharderK where
  nr : Nat
  msb : Nat
  deriving Repr, DecidableEq

/-- A connection that became ready: what it was requested with, what the node reported, and the clock. -/
structure Arrival where
  requested : Option (Nat × SharderK)   -- `evt.requested_shard` (`None`: a plain attempt)
  reportedShard : Nat                   -- `shard_id` (0 without shard info)
  reportedSharder : Option SharderK     -- `None`: the node sent no shard info
  now : Nat
  deriving Repr, DecidableEq

def blockSeconds : Nat := 300

/-- `is_advanced_shard_awareness_blocked` at time `now`. -/
def isBlocked (blockedUntil : Option Nat) (now : Nat) : Bool :=
  match blockedUntil with
  | some u => decide (now < u)
  | none => false

/-- `block_advanced_shard_awareness` at time `now`: never re-armed while in effect. -/
def armBlock (blockedUntil : Option Nat) (now : Nat) : Option Nat :=
  if isBlocked blockedUntil now then blockedUntil else some (now + blockSeconds)

/-- The condition of `handle_ready_connection:940-950`. -/
def isMiss (a : Arrival) : Bool :=
  match a.requested with
  | some (shard, sharder) => decide (a.reportedSharder = some sharder) && decide (shard ≠ a.reportedShard)
  | none => false

def onArrival (blockedUntil : Option Nat) (a : Arrival) : Option Nat :=
  if isMiss a then armBlock blockedUntil a.now else blockedUntil

/-- Any history of arrivals, from `PoolRefiller::new` (`advanced_shard_awareness_blocked_until: None`) or any state. -/
def runArrivals (blockedUntil : Option Nat) : List Arrival → Option Nat
  | [] => blockedUntil
  | a :: as => runArrivals (onArrival blockedUntil a) as

/-- `can_use_shard_aware_port` at time `now`. -/
def canUseShardAwarePort (sharder shardAwarePort : Option Nat) (allowed : Bool) (blockedUntil : Option Nat) (now : Nat) : Bool :=
  sharder.isSome && shardAwarePort.isSome && allowed && !isBlocked blockedUntil now

end ScyllaVerif.C11PoolAttempt

/-
Model of one connection as a transition system (C02, C10) ← `connection.rs` `RouterHandle::send_request`
(136-175), `OrphanhoodNotifier` (194-223), `router` (1541-1619), `reader` (1621-1685),
`alloc_stream_id`/`writer` (1687-1760), `orphaner` (1766-1799), `keepaliver` (1801-1878).

The reader, writer and orphaner run on ONE task and take the handler-map mutex with `try_lock().unwrap()`
without holding it across an `.await`; each of their critical sections is therefore one atomic step here.
Callers run anywhere; their observable steps are
  * `submit`      – `send_request` allocates a request id and its task enters the submit channel,
  * `submitFull`  – the same, but the (bounded) submit channel is full: the caller is parked in `send().await`,
    `enqueue r`   – … and gets its slot later,
  * `submitRace`  – `send_request` allocates a request id and `submit_channel.send()` has obtained channel capacity
    (a permit) but has not pushed the task yet: the window in which the router may shut down concurrently
    (multi-threaded runtime),
    `push r`      – … the task is pushed. If the router has ended meanwhile, its drain loop (`receiver.close()`,
    then `recv()` until every outstanding permit is used up, `router` 1604-1615, after commit 8b0b75c) fails the task with the
    connection's error. (Before /repo commit 8b0b75c the receiver was merely dropped: such a task stayed in the
    dead channel and its caller waited forever — see `Props/C10.lean`, `pushOld` and the example after it.)
    (`cancel` lets a held permit go; in the code there is no await point between obtaining capacity and the push,
    so this is an over-approximation.)
  * `cancel r`    – the `send_request` future is dropped (`OrphanhoodNotifier::drop` sends a notice),
  * `recv r`      – the caller polls its oneshot and returns (the notifier is disabled).
The server is abstract: it holds the `(stream, request)` pairs whose frames were written to the socket and
answers any of them, in any order, at any time, at most once (`respond i`); `unsolicited s` is a frame for a
non-negative stream that is not outstanding at the server (never asked, or answered already);
`break_ k` is any other fatal error of the router (`try_join!` ends: reader I/O or header error, writer
error, orphan threshold, keep-alive timeout / keep-alive request error).
-/
import ScyllaVerif.Model.StreamMap

namespace ScyllaVerif.Conn
open ScyllaVerif.StreamMap

/-- `BrokenConnectionErrorKind` (the variants the router can end with). -/
inductive BreakKind where
  | frameHeaderParseError        -- reader: EOF, short read, bad version, unknown opcode, I/O error
  | unexpectedStreamId           -- reader: `lookup` = `Missing`
  | cqlEventHandlingError
  | writeError
  | tooManyOrphanedStreamIds
  | keepaliveTimeout
  | keepaliveRequestError
  deriving Repr, DecidableEq

inductive ErrKind where
  | unableToAllocStreamId
  | broken (k : BreakKind)   -- the error that broke the connection, cloned to every registered handler
  | channelError             -- submit channel closed / oneshot sender dropped
  deriving Repr, DecidableEq

/-- What `send_request` hands to its caller. `frame f` = the response frame the server produced for
request `f` (the marker `unsolicitedMarker` = a frame the server produced for nobody). -/
inductive Outcome where
  | frame (frameOf : Nat)
  | err (e : ErrKind)
  deriving Repr, DecidableEq

def unsolicitedMarker : Nat := 1000000000

inductive CallerSt where
  | waiting                       -- inside `send_request`, nothing in its oneshot yet
  | delivered (o : Outcome)       -- the router completed its oneshot (value, or sender dropped); not yet polled
  | done (o : Outcome)            -- `send_request` returned
  | abandoned                     -- the future was dropped before completion
  deriving Repr, DecidableEq

inductive Ev where
  | submit                 -- a caller enters `send_request` (fresh request id) and enqueues its task
  | submitFull             -- a caller enters `send_request`, the submit channel is full
  | enqueue (req : Nat)    -- a parked caller's task enters the channel
  | submitRace             -- a caller enters `send_request` and obtains channel capacity; the push comes later
  | push (req : Nat)       -- … the push
  | writerTake             -- writer: pop a task, allocate a stream id, write the frame
  | cancel (req : Nat)     -- the caller's future is dropped
  | orphanerStep           -- orphaner: process one orphan notice
  | respond (i : Nat)      -- server answers its i-th outstanding request; the reader routes the frame
  | unsolicited (s : Nat)  -- a response frame arrives for stream `s` that is not outstanding at the server
  | recv (req : Nat)       -- the caller polls its oneshot
  | break_ (k : BreakKind) -- the router ends with an error
  deriving Repr, DecidableEq

structure Conn where
  map : HMap
  sending : List Nat            -- request ids of callers parked in `submit_channel.send().await`
  permits : List Nat            -- request ids of callers that hold channel capacity and have not pushed yet
  queue : List Nat              -- request ids of tasks in the submit channel (FIFO)
  server : List (Nat × Nat)     -- (stream, request) written and not yet answered
  notices : List Nat            -- pending orphan notices (FIFO)
  callers : List (Nat × CallerSt)
  nextReq : Nat                 -- `request_id_generator`
  broken : Bool
  cause : Option BreakKind      -- what `error_sender` reports

def Conn.init : Conn := ⟨HMap.new, [], [], [], [], [], [], 0, false, none⟩

def getCaller (cs : List (Nat × CallerSt)) (r : Nat) : Option CallerSt :=
  match cs with
  | [] => none
  | (r', st) :: rest => if r' = r then some st else getCaller rest r

def setCaller (cs : List (Nat × CallerSt)) (r : Nat) (st : CallerSt) : List (Nat × CallerSt) :=
  match cs with
  | [] => [(r, st)]
  | (r', st') :: rest => if r' = r then (r, st) :: rest else (r', st') :: setCaller rest r st

/-- `oneshot::Sender::send` to caller `r` (or dropping the sender): only a caller still waiting observes
it; if the receiver was dropped (abandoned) the value is discarded (`let _ = ...send(..)`). -/
def deliver (cs : List (Nat × CallerSt)) (r : Nat) (o : Outcome) : List (Nat × CallerSt) :=
  match getCaller cs r with
  | some .waiting => setCaller cs r (.delivered o)
  | _ => cs

/-- Complete every caller in `rs` that is still waiting with the error `e`. -/
def failAll (cs : List (Nat × CallerSt)) (rs : List Nat) (e : ErrKind) : List (Nat × CallerSt) :=
  rs.foldl (fun acc r => deliver acc r (.err e)) cs

/-- The router ends with error `k` (`router` 1588-1618): every handler still in the map receives the error; the
submit channel is closed and drained — every task in it receives the error too; callers parked for capacity see
the closed channel (`ChannelError`), as do later `send`s; callers that already hold capacity push later and are
failed by the drain loop (`push`); the orphan-notice receiver is dropped, the map is consumed. -/
def doBreak (c : Conn) (k : BreakKind) : Conn :=
  { c with
    map := { c.map with handlers := [], req2stream := [], orphans := [] },
    broken := true, cause := some k, queue := [], sending := [], notices := [],
    callers := failAll (failAll (failAll c.callers (c.map.handlers.map (·.2)) (.broken k))
                 c.queue (.broken k)) c.sending .channelError }

/-- The error the drain loop hands out. -/
def drainErr (c : Conn) : ErrKind :=
  match c.cause with
  | some k => .broken k
  | none => .channelError     -- unreachable: `broken` implies a cause (`Proofs.Conn.MapInv.brk`)

def step (c : Conn) : Ev → Conn
  | .submit =>
    let r := c.nextReq
    if c.broken then
      -- `submit_channel.send` fails at once: the receiver is gone
      { c with nextReq := r + 1, callers := setCaller c.callers r (.done (.err .channelError)) }
    else
      { c with nextReq := r + 1, queue := c.queue ++ [r], callers := setCaller c.callers r .waiting }
  | .submitFull =>
    let r := c.nextReq
    if c.broken then
      { c with nextReq := r + 1, callers := setCaller c.callers r (.done (.err .channelError)) }
    else
      { c with nextReq := r + 1, sending := c.sending ++ [r], callers := setCaller c.callers r .waiting }
  | .enqueue r =>
    if c.broken then c else
    if c.sending.contains r then
      { c with sending := c.sending.filter (· != r), queue := c.queue ++ [r] }
    else c
  | .submitRace =>
    let r := c.nextReq
    if c.broken then
      { c with nextReq := r + 1, callers := setCaller c.callers r (.done (.err .channelError)) }
    else
      { c with nextReq := r + 1, permits := c.permits ++ [r], callers := setCaller c.callers r .waiting }
  | .push r =>
    if c.permits.contains r then
      if c.broken then
        -- the channel is closed but the permit is still good: the drain loop receives the task
        { c with permits := c.permits.filter (· != r), callers := deliver c.callers r (.err (drainErr c)) }
      else
        { c with permits := c.permits.filter (· != r), queue := c.queue ++ [r] }
    else c
  | .writerTake =>
    if c.broken then c else
    match c.queue with
    | [] => c
    | r :: q =>
      match c.map.allocate r with
      | some (s, map') => { c with queue := q, map := map', server := c.server ++ [(s, r)] }
      | none => { c with queue := q, callers := deliver c.callers r (.err .unableToAllocStreamId) }
  | .cancel r =>
    match getCaller c.callers r with
    | some .waiting | some (.delivered _) =>
      { c with callers := setCaller c.callers r .abandoned,
               sending := c.sending.filter (· != r),
               permits := c.permits.filter (· != r),
               notices := if c.broken then c.notices else c.notices ++ [r] }
    | _ => c
  | .orphanerStep =>
    if c.broken then c else
    match c.notices with
    | [] => c
    | r :: ns => { c with notices := ns, map := c.map.orphan r }
  | .respond i =>
    if c.broken then c else
    match c.server[i]? with
    | none => c
    | some (s, r) =>
      let server' := c.server.eraseIdx i
      match c.map.lookup s with
      | (.handler r', map') =>
        { c with server := server', map := map', callers := deliver c.callers r' (.frame r) }
      | (.orphaned, map') => { c with server := server', map := map' }
      | (.missing, map') =>
        -- unreachable (Props.C02.respond_never_missing); the code would break the connection
        doBreak { c with server := server', map := map' } .unexpectedStreamId
  | .unsolicited s =>
    if c.broken then c else
    if idCount ≤ s then c else                         -- stream ids on the wire are i16
    if c.server.any (fun p => p.1 == s) then c else    -- that would be an answer, not an unsolicited frame
    match c.map.lookup s with
    | (.handler r', map') => { c with map := map', callers := deliver c.callers r' (.frame unsolicitedMarker) }
    | (.orphaned, map') => { c with map := map' }
    | (.missing, map') =>
      -- `UnexpectedStreamId`: the router ends
      doBreak { c with map := map' } .unexpectedStreamId
  | .recv r =>
    match getCaller c.callers r with
    | some (.delivered o) => { c with callers := setCaller c.callers r (.done o) }
    | _ => c
  | .break_ k =>
    if c.broken then c else doBreak c k

def run (c : Conn) (evs : List Ev) : Conn := evs.foldl step c

end ScyllaVerif.Conn

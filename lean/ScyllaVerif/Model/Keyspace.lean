/-
Model for C20 (after USE keyspace succeeds, all requests run on connections in that keyspace).

§1 names       ← `scylla/src/network/connection.rs:2452-2511` (`VerifiedKeyspaceName::new`,
                 `verify_keyspace_name_is_valid`), `1296-1341` (`Connection::use_keyspace`: statement text,
                 `verify_use_keyspace_result`: response-name check with `eq_ignore_ascii_case`).
§2 result fold ← `scylla/src/cluster/worker.rs:767-797` (`use_keyspace_result`).
§3 pool        ← `scylla/src/network/connection_pool.rs:632-741` (`PoolRefiller::run`, one `select!` arm = one
                 event), `862-1035` (`start_filling`, `handle_ready_connection`), `1095-1125` (`maybe_reshard`),
                 `1210-1275` (`remove_connection`), `1282-1330` (`use_keyspace`: the spawned task),
                 `1334-1358` (`start_setting_keyspace_for_connection`).
§4 cluster     ← `scylla/src/cluster/worker.rs:348-390` (use-keyspace arm of the worker loop, fan-out),
                 `398-470` (`apply_metadata_update`: new nodes are built from `self.node_config`, whose
                 `used_keyspace` the use-keyspace arm has updated), `cluster/node.rs:285-293`.

The refiller is a single task: every `select!` arm runs to completion, so one arm = one atomic `step`.
The tasks spawned by `PoolRefiller::use_keyspace` run concurrently with it: writing the `USE` on a snapshot
connection (`taskSubmit`) and the node answering a statement in flight on a connection are separate events.
Every connection carries its queue of `USE` statements in flight; the node answers the oldest one (`serve`) or -
CQL allows it - any later one (`serveOoo`, which marks the connection as not covered by the claims); a
timed-out task leaves what it wrote in flight. A user statement `USE x` sent through `Session::query*` is the event `userUse`. The server side of a
connection (`serverKs`, `acked`, `queue`) is part of the state. The ghost `overlap` is re-evaluated at every
request (newest request arrived while an older one was unanswered), so it recovers after an overlap has drained.
Import-free (core only).
-/
namespace ScyllaVerif.Keyspace

/-! ## 1. Names, statement text, response check -/

inductive BadName where
  | empty | tooLong | illegalCharacter
  deriving DecidableEq, Repr

/-- `'a'..='z' | 'A'..='Z' | '0'..='9' | '_'` (a match on `char` scalar values: ASCII only). -/
def okChar (c : Char) : Bool :=
  (97 ≤ c.toNat && c.toNat ≤ 122) || (65 ≤ c.toNat && c.toNat ≤ 90) || (48 ≤ c.toNat && c.toNat ≤ 57)
    || c.toNat == 95

/-- `verify_keyspace_name_is_valid` on the `chars()` of the string: emptiness first, then
`chars().count() > 48` (counted in characters, not bytes), then the first illegal character. -/
def verifyChars (cs : List Char) : Except BadName Unit :=
  if cs.isEmpty then .error .empty
  else if cs.length > 48 then .error .tooLong
  else if cs.all okChar then .ok () else .error .illegalCharacter

/-- `VerifiedKeyspaceName` (compared with `!=` on both fields in `handle_ready_connection`). -/
structure VerifiedName where
  name : String
  caseSensitive : Bool
  deriving DecidableEq, Repr

def VerifiedName.new (s : String) (caseSensitive : Bool) : Except BadName VerifiedName :=
  match verifyChars s.toList with
  | .ok () => .ok ⟨s, caseSensitive⟩
  | .error e => .error e

/-- The statement `Connection::use_keyspace` sends: `USE "name"` / `USE name`. -/
def useStatement (v : VerifiedName) : String :=
  if v.caseSensitive then "USE \"" ++ v.name ++ "\"" else "USE " ++ v.name

def asciiLower (c : Char) : Char :=
  if 65 ≤ c.toNat ∧ c.toNat ≤ 90 then Char.ofNat (c.toNat + 32) else c

/-- `str::eq_ignore_ascii_case` (bytewise on UTF-8; on characters it is the same relation because bytes
≥ 0x80 are left alone and UTF-8 is injective). -/
def eqIgnoreAsciiCase (a b : String) : Bool :=
  a.toList.map asciiLower == b.toList.map asciiLower

/-- What one `USE` exchange on a connection yields (`Ok` or the kind of `UseKeyspaceError`). -/
inductive UseErr where
  | broken        -- RequestError(BrokenConnectionError)
  | dbError       -- RequestError(DbError)
  | mismatch      -- KeyspaceNameMismatch
  | unexpected    -- RequestError(UnexpectedResponse)
  | timeout       -- RequestTimeout (the pool's `tokio::time::timeout(connect_timeout, join_all(..))`)
  deriving DecidableEq, Repr

abbrev UseRes := Except UseErr Unit

/-- The response to the `USE` statement as the connection sees it. -/
inductive WireReply where
  | setKeyspace (name : String)
  | error
  | other
  | brokenConn
  deriving DecidableEq, Repr

/-- `verify_use_keyspace_result` (+ the `?` on `query_raw_unpaged`). -/
def verifyUseResult (v : VerifiedName) : WireReply → UseRes
  | .setKeyspace n => if eqIgnoreAsciiCase n v.name then .ok () else .error .mismatch
  | .error => .error .dbError
  | .other => .error .unexpected
  | .brokenConn => .error .broken

/-- The keyspace a server selects for the statement of a verified name: a quoted name (`USE "x"`) exactly as it
is, an unquoted one (`USE x`) folded to lower case. -/
def resolveName (v : VerifiedName) : String :=
  if v.caseSensitive then v.name else String.ofList (v.name.toList.map asciiLower)

/-- A server with the keyspaces `existing` executes the `USE` statement of `v`: it answers SetKeyspace with the
RESOLVED name, or an Invalid error if there is no such keyspace. -/
def serverUse (existing : List String) (v : VerifiedName) : WireReply :=
  if existing.contains (resolveName v) then .setKeyspace (resolveName v) else .error

/-! ## 2. `use_keyspace_result` -/

inductive Outcome where
  | ok
  | err (e : UseErr)
  | panic            -- `broken_conn_error.unwrap()` on an empty iterator
  deriving DecidableEq, Repr

/-- The `for` loop: `(was_ok, broken_conn_error)`, early return on any error that is not a broken connection. -/
def ukrLoop : List UseRes → Bool → Option UseErr → Except UseErr (Bool × Option UseErr)
  | [], wasOk, b => .ok (wasOk, b)
  | .ok () :: rest, _, b => ukrLoop rest true b
  | .error .broken :: rest, w, _ => ukrLoop rest w (some .broken)
  | .error e :: _, _, _ => .error e

def useKeyspaceResult (rs : List UseRes) : Outcome :=
  match ukrLoop rs false none with
  | .error e => .err e
  | .ok (true, _) => .ok
  | .ok (false, some e) => .err e
  | .ok (false, none) => .panic

/-! ## 3. The pool refiller -/

/-- Who waits for the answer of a `USE` that is in flight on a connection. -/
inductive Waiter where
  | task (tid : Nat)     -- the `conn.use_keyspace` future of a spawned use-keyspace task
  | user                 -- a user statement `USE x` sent through `Session::query*` (session.rs:1465-1478)
  deriving DecidableEq, Repr

/-- A connection as the node and the wire see it. `K` = `VerifiedKeyspaceName`.
`queue` is the wire: requests are written in submission order and the node executes the requests of one
connection in order (the abstract server), so the head is what the node answers next. -/
structure Conn (K : Type) where
  serverKs : Option K := none     -- keyspace the server has set for this connection
  acked : List K := []            -- ghost: every keyspace whose `USE` the server acknowledged here, oldest first
  broken : Bool := false          -- broken, or closed because the driver dropped it
  shard : Nat := 0                -- `ShardInfo.shard` (0 without shard info)
  sharder : Option Nat := none    -- `nr_shards` of the node as this connection's SUPPORTED said
  queue : List (Waiter × K) := [] -- `USE` statements written on this connection and not yet answered, oldest first
  unclaimed : Bool := false        -- ghost "not covered by the claim": since the newest task wrote its own `USE` here, a
                                  -- user-issued `USE` was written behind it or the node answered a request out of order

/-- What the server does with one `USE k` (the connection being alive). -/
inductive SrvReply (K : Type) where
  | ack                  -- sets the keyspace, answers SetKeyspace with a name equal up to ASCII case
  | ackOther (k' : K)    -- sets ANOTHER keyspace and says so (the client reports KeyspaceNameMismatch)
  | dbError              -- ERROR; keyspace unchanged
  | unexpected           -- any other response; keyspace unchanged

/-- One task spawned by `PoolRefiller::use_keyspace` (`connection_pool.rs:1296-1329`). -/
structure Task (K : Type) where
  id : Nat
  ks : K
  snapshot : List Nat                 -- `self.conns.clone()` at the time of the request (connection ids)
  submitted : List Nat                -- connections on which the task's `USE` has been written
  results : List (Nat × UseRes)       -- per connection, once its `conn.use_keyspace` future resolved
  resp : Option Outcome               -- `response_sender.send(res)` happened (the task is finished)

structure Pool (K : Type) where
  -- configuration
  perShard : Bool                     -- `PoolSize::PerShard(target)` / `PerHost(target)`
  target : Nat
  -- the world
  net : Nat → Conn K                  -- every connection ever established, by id
  nextId : Nat
  -- `PoolRefiller`
  currentKs : Option K
  sharder : Option Nat
  blocked : Bool                      -- `advanced_shard_awareness_blocked_until` is in the future (300 s)
  conns : List Nat                    -- `self.conns` flattened = `shared_conns` (updated in the same arm)
  excess : List Nat
  opening : Nat                       -- open futures in `ready_connections`
  setting : List (Nat × K × Option Nat) -- `start_setting_keyspace_for_connection` futures: (conn, ks, requested shard)
  -- spawned use-keyspace tasks, newest first
  tasks : List (Task K)
  overlap : Bool                      -- ghost: the NEWEST `use_keyspace` request arrived while an earlier one was unanswered

def Pool.init {K : Type} (perShard : Bool) (target : Nat) (ks : Option K) : Pool K :=
  { perShard, target, net := fun _ => {}, nextId := 0, currentKs := ks, sharder := none, blocked := false,
    conns := [], excess := [], opening := 0, setting := [], tasks := [], overlap := false }

inductive Ev (K : Type) where
  | useKs (k : K)                                   -- the refiller receives a `UseKeyspaceRequest`
  | taskSubmit (t i : Nat)                          -- task `t` writes its `USE` on its snapshot connection `i`
  | serve (i : Nat) (r : SrvReply K)                -- the node answers the oldest `USE` in flight on connection `i`
  | serveOoo (i j : Nat) (r : SrvReply K)           -- the node answers, OUT OF ORDER, the `USE` at position j+1 of `i`'s queue
  | taskFinish (t : Nat)                            -- `join_all` done: answer with `use_keyspace_result`
  | taskTimeout (t : Nat)                           -- `connect_timeout` elapsed first (what is in flight stays in flight)
  | refill                                          -- the scheduled refill fires: `start_filling`
  | opened (shard : Nat) (sharder : Option Nat) (requested : Option Nat)   -- an open future resolves Ok
  | openFailed (requested : Bool)                   -- an open future resolves Err(Connection)
  | ksSet (i : Nat) (r : SrvReply K)                -- the setting-keyspace future of connection `i` resolves
  | breakConn (i : Nat)                             -- connection `i` breaks (network / node)
  | connError (i : Nat)                             -- the refiller handles `i`'s error event: `remove_connection`
  | userUse (i : Nat) (x : K)                       -- a user statement `USE x` is written on published connection `i`

variable {K : Type} [DecidableEq K]

def setConn (net : Nat → Conn K) (i : Nat) (c : Conn K) : Nat → Conn K :=
  fun j => if j = i then c else net j

def Pool.shardCount (p : Pool K) (s : Nat) : Nat :=
  (p.conns.filter fun i => (p.net i).shard == s).length

def Pool.nShards (p : Pool K) : Nat := p.sharder.getD 1

def Pool.canAccept (p : Pool K) (s : Nat) : Bool :=
  if p.perShard then p.shardCount s < p.target else p.conns.length < p.target

def Pool.isFull (p : Pool K) : Bool :=
  if p.perShard then (List.range p.nShards).all fun s => p.target ≤ p.shardCount s
  else p.target ≤ p.conns.length

def Pool.isFilling (p : Pool K) : Bool := p.opening != 0 || !p.setting.isEmpty

def Pool.needFilling (p : Pool K) : Bool := !p.isFilling && !p.isFull

def Pool.excessLimit (p : Pool K) : Nat := if p.perShard then 10 * p.nShards else 0

/-- `can_use_shard_aware_port` (the shard-aware port being advertised is the caller's business). -/
def Pool.canUseShardAware (p : Pool K) : Bool := p.sharder.isSome && !p.blocked

/-- Dropping a `Connection` value closes it. -/
def Pool.close (p : Pool K) (i : Nat) : Pool K :=
  { p with net := setConn p.net i { p.net i with broken := true } }

/-- Insert `i` into a list ordered by shard, behind the connections of its own and of lower shards. -/
def insertByShard (sh : Nat → Nat) (i : Nat) : List Nat → List Nat
  | [] => [i]
  | j :: l => if sh i < sh j then i :: j :: l else j :: insertByShard sh i l

/-- `self.conns` is a `Vec<Vec<Arc<Connection>>>` indexed by shard: walking it "for shard_conns in conns, for conn
in shard_conns" (`use_keyspace`, `connection_pool.rs:1296-1300`) visits the connections bucket by bucket, each
bucket in its own order. `conns` keeps each bucket's order; this is the concatenation of the buckets. -/
def Pool.byShard (p : Pool K) : List Nat :=
  p.conns.foldl (fun acc i => insertByShard (fun j => (p.net j).shard) i acc) []

/-- `Vec::swap_remove(idx)` on the bucket of `i` (`remove_connection`): the bucket's last connection takes the
place of the removed one; the other buckets are untouched. -/
def Pool.removeConn (p : Pool K) (i : Nat) : List Nat :=
  let s := (p.net i).shard
  let b := p.conns.filter fun j => (p.net j).shard == s
  let b' := match b.idxOf? i with
    | some idx => match b.getLast? with
      | some last => (b.set idx last).dropLast
      | none => []
    | none => b
  (p.conns.filter fun j => (p.net j).shard != s) ++ b'

/-- `start_filling`: how many open futures are pushed. -/
def Pool.toOpen (p : Pool K) : Nat :=
  if p.conns.isEmpty then 1
  else if p.perShard then ((List.range p.nShards).map fun s => p.target - p.shardCount s).sum
  else p.target - p.conns.length

/-- `maybe_reshard`: a different sharder throws all connections away. -/
def Pool.maybeReshard (p : Pool K) (s : Option Nat) : Pool K :=
  if p.sharder = s then p else { p with sharder := s, conns := [], excess := [] }

/-- The part of `handle_ready_connection`'s `Ok` branch after the keyspace test. `requested` = the shard the
connection was opened for through the shard-aware port (`evt.requested_shard`; the sharder it was computed with
is the pool's at that time - a reshard in between is not modelled as a mismatch). -/
def Pool.accept (p : Pool K) (i : Nat) (requested : Option Nat) : Pool K :=
  let c := p.net i
  -- landed on another shard than requested, same sharder: `block_advanced_shard_awareness`
  let p := if requested.isSome && requested != some c.shard && p.sharder == c.sharder then { p with blocked := true } else p
  let p := p.maybeReshard c.sharder
  if p.canAccept c.shard then { p with conns := p.conns ++ [i] }
  else if requested.isSome then { p.close i with opening := p.opening + 1 }
  else
    let p := { p with excess := p.excess ++ [i] }
    if p.excess.length > p.excessLimit then { p with excess := [] } else p

/-- `handle_ready_connection`, `Ok` branch: a connection is published only if the event says it carries the
current keyspace; otherwise it is sent through `start_setting_keyspace_for_connection`. -/
def Pool.handleReady (p : Pool K) (i : Nat) (evKs : Option K) (requested : Option Nat) : Pool K :=
  match p.currentKs with
  | some k =>
    if evKs ≠ some k then { p with setting := p.setting ++ [(i, k, requested)] }
    else p.accept i requested
  | none => p.accept i requested

/-- The run loop clears the excess connections after a ready event when the pool is full. -/
def Pool.afterReady (p : Pool K) : Pool K :=
  if p.isFull then { p with excess := [] } else p

def modifyTask (ts : List (Task K)) (tid : Nat) (f : Task K → Task K) : List (Task K) :=
  ts.map fun t => if t.id = tid then f t else t

def findTask (ts : List (Task K)) (tid : Nat) : Option (Task K) := ts.find? (·.id = tid)

/-- The server executes `USE k` on live connection `c`. -/
def serveUse (c : Conn K) (k : K) : SrvReply K → Conn K × UseRes
  | .ack => ({ c with serverKs := some k, acked := c.acked ++ [k] }, .ok ())
  | .ackOther k' => ({ c with serverKs := some k' }, .error .mismatch)
  | .dbError => (c, .error .dbError)
  | .unexpected => (c, .error .unexpected)

def Task.allDone (t : Task K) : Bool := t.snapshot.all fun i => (t.results.lookup i).isSome

def Task.resultList (t : Task K) : List UseRes := t.snapshot.filterMap fun i => t.results.lookup i

def step (p : Pool K) : Ev K → Pool K
  | .useKs k =>
    -- `self.current_keyspace = Some(k)`; clone `conns`; spawn the task; an empty snapshot answers Ok at once
    let t : Task K := { id := p.tasks.length, ks := k, snapshot := p.byShard, submitted := [], results := [],
                        resp := if p.conns.isEmpty then some .ok else none }
    { p with currentKs := some k, tasks := t :: p.tasks,
             overlap := p.tasks.any (fun t => t.resp.isNone) }
  | .taskSubmit tid i =>
    -- `conn.use_keyspace(..)` reaches `submit_channel.send(..)`: the statement is on the wire behind everything
    -- written on this connection before; on a broken connection it fails at once
    match findTask p.tasks tid with
    | none => p
    | some t =>
      if t.resp.isSome || !t.snapshot.contains i || t.submitted.contains i then p
      else if (p.net i).broken then
        { p with tasks := modifyTask p.tasks tid fun t =>
            { t with submitted := i :: t.submitted, results := (i, .error .broken) :: t.results } }
      else
        let c := p.net i
        let newest := p.tasks.head?.map (·.id) == some tid
        { p with net := setConn p.net i { c with queue := c.queue ++ [(.task tid, t.ks)],
                                                 unclaimed := if newest then false else c.unclaimed },
                 tasks := modifyTask p.tasks tid fun t => { t with submitted := i :: t.submitted } }
  | .serve i r =>
    -- the node answers the oldest `USE` in flight on `i` (a broken connection fails it instead); the answer goes
    -- to the task that still waits for it, otherwise it is dropped (orphaned stream / user query)
    match (p.net i).queue with
    | [] => p
    | (w, k) :: rest =>
      let c := p.net i
      let (c', res) : Conn K × UseRes :=
        if c.broken then (c, .error .broken) else serveUse c k r
      let p := { p with net := setConn p.net i { c' with queue := rest } }
      match w with
      | .user => p
      | .task tid =>
        match findTask p.tasks tid with
        | none => p
        | some t =>
          if t.resp.isSome || (t.results.lookup i).isSome then p
          else { p with tasks := modifyTask p.tasks tid fun t => { t with results := (i, res) :: t.results } }
  | .serveOoo i j r =>
    -- CQL allows a node to execute the requests of one connection in any order: here it answers the statement at
    -- position j+1 while older ones are still in flight. Such a connection is marked: nothing is claimed about it
    -- until the next use-keyspace task writes its own `USE` (with at most one statement in flight this event is
    -- impossible: position j+1 does not exist)
    match (p.net i).queue[j + 1]? with
    | none => p
    | some (w, k) =>
      let c := p.net i
      let (c', res) : Conn K × UseRes :=
        if c.broken then (c, .error .broken) else serveUse c k r
      let p := { p with net := setConn p.net i { c' with queue := c.queue.eraseIdx (j + 1), unclaimed := true } }
      match w with
      | .user => p
      | .task tid =>
        match findTask p.tasks tid with
        | none => p
        | some t =>
          if t.resp.isSome || (t.results.lookup i).isSome then p
          else { p with tasks := modifyTask p.tasks tid fun t => { t with results := (i, res) :: t.results } }
  | .taskFinish tid =>
    match findTask p.tasks tid with
    | none => p
    | some t =>
      if t.resp.isSome || !t.allDone then p
      else { p with tasks := modifyTask p.tasks tid fun t => { t with resp := some (useKeyspaceResult t.resultList) } }
  | .taskTimeout tid =>
    match findTask p.tasks tid with
    | none => p
    | some t =>
      if t.resp.isSome then p
      else { p with tasks := modifyTask p.tasks tid fun t => { t with resp := some (.err .timeout) } }
  | .refill =>
    if p.needFilling then { p with opening := p.opening + p.toOpen } else p
  | .opened shard sharder requested =>
    if p.opening = 0 then p
    else
      let i := p.nextId
      let p := { p with opening := p.opening - 1, nextId := i + 1,
                        net := setConn p.net i { shard := shard, sharder := sharder } }
      (p.handleReady i none requested).afterReady
  | .openFailed requested =>
    if p.opening = 0 then p
    else if requested then p          -- retried at once on the regular port: one future replaces the other
    else { p with opening := p.opening - 1 }
  | .ksSet i r =>
    match p.setting.find? (·.1 = i) with
    | none => p
    | some (_, k, requested) =>
      let p := { p with setting := p.setting.filter (·.1 ≠ i) }
      if (p.net i).broken then p.close i      -- Err(ConnectionSetupError::Keyspace): the connection is dropped
      else
        let (c, res) := serveUse (p.net i) k r
        let p := { p with net := setConn p.net i c }
        match res with
        | .ok () => (p.handleReady i (some k) requested).afterReady
        | .error _ => p.close i
  | .breakConn i => p.close i
  | .connError i =>
    -- `remove_connection`: from its shard bucket, else from the excess connections
    if !(p.net i).broken then p
    else if p.conns.contains i then { p with conns := p.removeConn i }
    else { p with excess := p.excess.filter (· ≠ i) }
  | .userUse i x =>
    -- a request picked the published connection `i` and wrote the user's `USE x` on it
    if p.conns.contains i && !(p.net i).broken then
      let c := p.net i
      { p with net := setConn p.net i { c with queue := c.queue ++ [(.user, x)], unclaimed := true } }
    else p

def run (p : Pool K) (evs : List (Ev K)) : Pool K := evs.foldl step p

/-- The newest use-keyspace task, if any. -/
def Pool.latest (p : Pool K) : Option (Task K) := p.tasks.head?

/-! ### which connection a request is handed ← `connection_pool.rs:339-430` (`connection_for_shard`,
`random_connection`, `connection_for_shard_helper`, `choose_random_connection_from_slice`, `with_connections`)

Requests see only `shared_conns` (= `conns`, see above): `with_connections` fails while the pool is `Initializing`
or `Broken` (no published connection). Random choices are explicit arguments. -/

/-- `choose_random_connection_from_slice` (`random_range(0..len)` as `r % len`). -/
def chooseFrom (l : List Nat) (r : Nat) : Option Nat :=
  if l.isEmpty then none else l[r % l.length]?

/-- The published connections of shard `s` (`connections[s]`). -/
def Pool.bucket (p : Pool K) (s : Nat) : List Nat := p.conns.filter fun i => (p.net i).shard == s

/-- `Vec::swap_remove(idx)`: the last element takes the place of the removed one. -/
def swapRemove (l : List Nat) (idx : Nat) : List Nat :=
  match l.getLast? with
  | none => []
  | some last => (l.set idx last).dropLast

/-- The `while !shards_to_try.is_empty()` loop of `connection_for_shard_helper`: iteration `k` draws
`ρ k = (index into shards_to_try, index into the bucket)`. `none` = the `unreachable!`. -/
def Pool.tryShards (p : Pool K) (ρ : Nat → Nat × Nat) : Nat → Nat → List Nat → Option Nat
  | 0, _, _ => none
  | fuel + 1, k, toTry =>
    if toTry.isEmpty then none
    else
      let idx := (ρ k).1 % toTry.length
      let shard := toTry.getD idx 0
      match chooseFrom (p.bucket shard) (ρ k).2 with
      | some c => some c
      | none => p.tryShards ρ fuel (k + 1) (swapRemove toTry idx)

/-- `shard.try_into::<u16>().unwrap_or(0)` (`connection_pool.rs:334-341`): a shard number that does not fit `u16`
is replaced by shard 0. -/
def shardAsU16 (shard : Nat) : Nat := if shard < 65536 then shard else 0

/-- `NodeConnectionPool::connection_for_shard(shard)`: `none` = `Err(Initializing | Broken)` (or the panic). -/
def Pool.connectionForShard (p : Pool K) (shard r : Nat) (ρ : Nat → Nat × Nat) : Option Nat :=
  if p.conns.isEmpty then none
  else match p.sharder with
    | none => chooseFrom p.conns r
    | some n =>
      let shard := shardAsU16 shard
      -- `shard_conns.get(shard)`: out of bounds = no preferred bucket
      match (if shard < n then chooseFrom (p.bucket shard) r else none) with
      | some c => some c
      | none => p.tryShards ρ n 0 (List.range n)

/-- `NodeConnectionPool::random_connection()`: a random shard first (`rs % nr_shards`). -/
def Pool.randomConnection (p : Pool K) (rs r : Nat) (ρ : Nat → Nat × Nat) : Option Nat :=
  match p.sharder with
  | none => p.connectionForShard 0 r ρ
  | some n => p.connectionForShard (rs % n) r ρ

/-- The connections a request for `shard` can be handed: the shard's own bucket when it has a connection,
otherwise any published connection. -/
def Pool.handable (p : Pool K) (shard : Nat) : List Nat :=
  match p.sharder with
  | none => p.conns
  | some n =>
    let shard := shardAsU16 shard
    if shard < n && !(p.bucket shard).isEmpty then p.bucket shard else p.conns

/-- `NodeConnectionPool::get_working_connections()` (connection_pool.rs:444-455): the third hand-out path - ALL the
published connections, `conns.clone()` of an unsharded pool / `connections.iter().flatten()` of a sharded one, i.e. the
same bucket walk `use_keyspace` snapshots. `Session::prepare`'s fallback (`iter_working_connections_to_shards`), schema
agreement and `iter_working_connections_per_node` send on these; `iter_working_connections_to_nodes` (the first attempt
of `Session::prepare`) takes `random_connection` of every known node. -/
def Pool.workingConnections (p : Pool K) : List Nat := p.byShard

/-! ## 4. The cluster worker -/

/-- One spawned `handle_use_keyspace_request`. -/
structure Fanout (K : Type) where
  id : Nat
  ks : K
  nodes : List Nat                    -- `cluster_state.known_nodes` at the time (node ids)
  sent : List (Nat × Nat)             -- (node, pool task id): the node's refiller has received the request
  resp : Option Outcome

structure Cluster (K : Type) where
  usedKs : Option K                   -- `node_config.used_keyspace`
  pools : Nat → Pool K                -- every node ever created, by id
  nNodes : Nat
  known : List Nat                    -- `cluster_state.known_nodes`
  filtered : List Nat                 -- nodes rejected by the host filter: they have no pool (`Node::use_keyspace` answers Ok)
  fanouts : List (Fanout K)           -- newest first
  overlap : Bool                      -- ghost: the NEWEST use-keyspace request was handled while an earlier one was unanswered

def Cluster.init (perShard : Bool) (target : Nat) : Cluster K :=
  { usedKs := none, pools := fun _ => Pool.init perShard target none, nNodes := 0, known := [], filtered := [], fanouts := [],
    overlap := false }

inductive CEv (K : Type) where
  | useKs (k : K)                     -- the worker's use-keyspace arm
  | deliver (f n : Nat)               -- fan-out `f`'s request reaches node `n`'s refiller
  | pool (n : Nat) (e : Ev K)         -- any refiller / task / network event of node `n` other than `useKs`
  | addNode (perShard : Bool) (target : Nat) (filtered : Bool)   -- metadata application creates a node (`Node::new(.., node_config)`); `filtered`: the host filter rejects it, it gets no pool
  | removeNode (n : Nat)
  | fanoutFinish (f : Nat)            -- `join_all` over the nodes done: `use_keyspace_result`

def setPool (ps : Nat → Pool K) (n : Nat) (p : Pool K) : Nat → Pool K :=
  fun m => if m = n then p else ps m

def modifyFanout (fs : List (Fanout K)) (fid : Nat) (g : Fanout K → Fanout K) : List (Fanout K) :=
  fs.map fun f => if f.id = fid then g f else f

/-- The answer of node `n` to fan-out `f`, once its pool task has answered (`Node::use_keyspace`). -/
def Cluster.nodeAnswer (c : Cluster K) (f : Fanout K) (n : Nat) : Option UseRes :=
  match f.sent.lookup n with
  | none => none
  | some tid =>
    match findTask (c.pools n).tasks tid with
    | none => none
    | some t =>
      match t.resp with
      | none => none
      | some .ok => some (.ok ())
      | some (.err e) => some (.error e)
      | some .panic => none

def Ev.isUseKs : Ev K → Bool
  | .useKs _ => true
  | _ => false

def cstep (c : Cluster K) : CEv K → Cluster K
  | .useKs k =>
    let f : Fanout K := { id := c.fanouts.length, ks := k, nodes := c.known, sent := [],
                          resp := none }
    { c with usedKs := some k, fanouts := f :: c.fanouts,
             overlap := c.fanouts.any (fun f => f.resp.isNone) }
  | .deliver fid n =>
    match c.fanouts.find? (·.id = fid) with
    | none => c
    | some f =>
      if f.resp.isSome || !f.nodes.contains n || (f.sent.lookup n).isSome then c
      else
        let p := c.pools n
        { c with pools := setPool c.pools n (step p (.useKs f.ks)),
                 fanouts := modifyFanout c.fanouts fid fun f => { f with sent := (n, p.tasks.length) :: f.sent } }
  | .pool n e =>
    -- a host-filtered node has no pool: nothing ever happens there (its never-stepped pool has no connection, so a
    -- delivered request is answered Ok at once - `Node::use_keyspace` without a pool, node.rs:305-313)
    if e.isUseKs || n ≥ c.nNodes || c.filtered.contains n then c else { c with pools := setPool c.pools n (step (c.pools n) e) }
  | .addNode perShard target filtered =>
    { c with pools := setPool c.pools c.nNodes (Pool.init perShard target c.usedKs), nNodes := c.nNodes + 1,
             known := c.known ++ [c.nNodes],
             filtered := if filtered then c.nNodes :: c.filtered else c.filtered }
  | .removeNode n => { c with known := c.known.filter (· ≠ n) }
  | .fanoutFinish fid =>
    match c.fanouts.find? (·.id = fid) with
    | none => c
    | some f =>
      if f.resp.isSome || !(f.nodes.all fun n => (c.nodeAnswer f n).isSome) then c
      else
        let rs := f.nodes.filterMap (c.nodeAnswer f)
        { c with fanouts := modifyFanout c.fanouts fid fun f => { f with resp := some (useKeyspaceResult rs) } }

def crun (c : Cluster K) (evs : List (CEv K)) : Cluster K := evs.foldl cstep c

/-! ## 5. The session layer ← `scylla/src/client/session.rs` `Session::use_keyspace` (2002-2017), as the code has it:
store the name in `Session.keyspace_name` (what `get_keyspace` reports) BEFORE validating it and before any
connection has acknowledged anything; validate (`VerifiedKeyspaceName::new`, `?`); hand the verified name to
`Cluster::use_keyspace`, i.e. to the worker's use-keyspace arm, and await that fan-out's answer. The stored name is
never consulted: every call with a valid name starts its own fan-out. -/

/-- What a call did, in the step it was made. -/
inductive CallOutcome where
  | rejected (e : BadName)     -- `Err(UseKeyspaceError::BadKeyspaceName(..))`, returned at once
  | fanout (fid : Nat)         -- the answer is the answer of this fan-out
  deriving DecidableEq, Repr

structure Call where
  name : String
  caseSensitive : Bool
  outcome : CallOutcome

structure Session where
  recorded : Option String              -- `Session.keyspace_name`
  cluster : Cluster VerifiedName
  calls : List Call                     -- ghost: every `use_keyspace` call, newest first

def Session.init (perShard : Bool) (target : Nat) : Session :=
  { recorded := none, cluster := Cluster.init perShard target, calls := [] }

inductive SEv where
  | call (name : String) (caseSensitive : Bool)    -- `session.use_keyspace(name, case_sensitive)`
  | cluster (e : CEv VerifiedName)                 -- anything else that happens (worker requests come from calls only)

def CEv.isUseKs {K : Type} : CEv K → Bool
  | .useKs _ => true
  | _ => false

def sstep (s : Session) : SEv → Session
  | .call name cs =>
    let s := { s with recorded := some name }
    match VerifiedName.new name cs with
    | .error e => { s with calls := ⟨name, cs, .rejected e⟩ :: s.calls }
    | .ok v =>
      { s with cluster := cstep s.cluster (.useKs v),
               calls := ⟨name, cs, .fanout s.cluster.fanouts.length⟩ :: s.calls }
  | .cluster e => if e.isUseKs then s else { s with cluster := cstep s.cluster e }

def srun (s : Session) (evs : List SEv) : Session := evs.foldl sstep s

/-- The answer a call has received so far (`none` = still awaiting the fan-out). -/
def Session.answer (s : Session) (c : Call) : Option Outcome :=
  match c.outcome with
  | .rejected _ => none
  | .fanout fid => (s.cluster.fanouts.find? (·.id = fid)).bind (·.resp)

end ScyllaVerif.Keyspace

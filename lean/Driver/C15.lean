import Driver.Common
import ScyllaVerif.Drive.C15
/-! `md_C15`: model driver executable of property C15 (one executable per property, so that a property's
driver builds independently of the others). -/
def main : IO UInt32 := Driver.mainWith ScyllaVerif.Drive.C15.run

import Driver.Common
import ScyllaVerif.Drive.C16
/-! `md_C16`: model driver executable of property C16 (one executable per property, so that a property's
driver builds independently of the others). -/
def main : IO UInt32 := Driver.mainWith ScyllaVerif.Drive.C16.run

import Driver.Common
import ScyllaVerif.Drive.C13
/-! `md_C13`: model driver executable of property C13 (one executable per property, so that a property's
driver builds independently of the others). -/
def main : IO UInt32 := Driver.mainWith ScyllaVerif.Drive.C13.run

import Driver.Common
import ScyllaVerif.Drive.C07
/-! `md_C07`: model driver executable of property C07 (one executable per property, so that a property's
driver builds independently of the others). -/
def main : IO UInt32 := Driver.mainWith ScyllaVerif.Drive.C07.run

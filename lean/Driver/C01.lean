import Driver.Common
import ScyllaVerif.Drive.C01
/-! `md_C01`: model driver executable of property C01 (one executable per property, so that a property's
driver builds independently of the others). -/
def main : IO UInt32 := Driver.mainWith ScyllaVerif.Drive.C01.run

import ScyllaVerif.Drive.C11
/-! `modeldriver <Cxx>`: reads `<case>\t<impl output>` lines on stdin, prints one model line per case. -/

def dispatch (prop : String) : Option (String → String → String) :=
  match prop with
  | "C11" => some ScyllaVerif.Drive.C11.run
  | _ => none

partial def loop (h : IO.FS.Stream) (out : IO.FS.Stream) (f : String → String → String) : IO Unit := do
  let line ← h.getLine
  if line.isEmpty then return ()
  let line := if line.back == '\n' then (line.dropEnd 1).toString else line
  let (case, impl) := match line.splitOn "\t" with
    | [c] => (c, "")
    | c :: i :: _ => (c, i)
    | [] => ("", "")
  out.putStrLn (f case impl)
  loop h out f

def main (args : List String) : IO UInt32 := do
  match args with
  | [prop] =>
    match dispatch prop with
    | some f =>
      let stdin ← IO.getStdin
      let stdout ← IO.getStdout
      loop stdin stdout f
      return 0
    | none => IO.eprintln s!"unknown property {prop}"; return 2
  | _ => IO.eprintln "usage: modeldriver <Cxx>"; return 2

import Driver.Common
import ScyllaVerif.Drive.C05
/-! `md_C05`: model driver executable of property C05 (one executable per property, so that a property's
driver builds independently of the others). -/
def main : IO UInt32 := Driver.mainWith ScyllaVerif.Drive.C05.run

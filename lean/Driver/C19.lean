import Driver.Common
import ScyllaVerif.Drive.C19
/-! `md_C19`: model driver executable of property C19 (one executable per property, so that a property's
driver builds independently of the others). -/
def main : IO UInt32 := Driver.mainWith ScyllaVerif.Drive.C19.run

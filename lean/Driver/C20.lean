import Driver.Common
import ScyllaVerif.Drive.C20
/-! `md_C20`: model driver executable of property C20 (one executable per property, so that a property's
driver builds independently of the others). -/
def main : IO UInt32 := Driver.mainWith ScyllaVerif.Drive.C20.run

import Driver.Common
import ScyllaVerif.Drive.C08
/-! `md_C08`: model driver executable of property C08 (one executable per property, so that a property's
driver builds independently of the others). -/
def main : IO UInt32 := Driver.mainWith ScyllaVerif.Drive.C08.run

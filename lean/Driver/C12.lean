import Driver.Common
import ScyllaVerif.Drive.C12
/-! `md_C12`: model driver executable of property C12 (one executable per property, so that a property's
driver builds independently of the others). -/
def main : IO UInt32 := Driver.mainWith ScyllaVerif.Drive.C12.run

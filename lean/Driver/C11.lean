import Driver.Common
import ScyllaVerif.Drive.C11
/-! `md_C11`: model driver executable of property C11 (one executable per property, so that a property's
driver builds independently of the others). -/
def main : IO UInt32 := Driver.mainWith ScyllaVerif.Drive.C11.run

import Driver.Common
import ScyllaVerif.Drive.C10
/-! `md_C10`: model driver executable of property C10 (one executable per property, so that a property's
driver builds independently of the others). -/
def main : IO UInt32 := Driver.mainWith ScyllaVerif.Drive.C10.run

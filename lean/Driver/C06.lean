import Driver.Common
import ScyllaVerif.Drive.C06
/-! `md_C06`: model driver executable of property C06 (one executable per property, so that a property's
driver builds independently of the others). -/
def main : IO UInt32 := Driver.mainWith ScyllaVerif.Drive.C06.run

import Driver.Common
import ScyllaVerif.Drive.C04
/-! `md_C04`: model driver executable of property C04 (one executable per property, so that a property's
driver builds independently of the others). -/
def main : IO UInt32 := Driver.mainWith ScyllaVerif.Drive.C04.run

import Driver.Common
import ScyllaVerif.Drive.C09
/-! `md_C09`: model driver executable of property C09 (one executable per property, so that a property's
driver builds independently of the others). -/
def main : IO UInt32 := Driver.mainWith ScyllaVerif.Drive.C09.run

import Driver.Common
import ScyllaVerif.Drive.C18
/-! `md_C18`: model driver executable of property C18 (one executable per property, so that a property's
driver builds independently of the others). -/
def main : IO UInt32 := Driver.mainWith ScyllaVerif.Drive.C18.run

import Driver.Common
import ScyllaVerif.Drive.C14
/-! `md_C14`: model driver executable of property C14 (one executable per property, so that a property's
driver builds independently of the others). -/
def main : IO UInt32 := Driver.mainWith ScyllaVerif.Drive.C14.run

/-! Shared stdin/stdout loop of the per-property model drivers (`md_Cxx`):
reads `<case>\t<impl output>` lines on stdin, prints one model line per case. -/
namespace Driver

partial def loop (h : IO.FS.Stream) (out : IO.FS.Stream) (f : String → String → String) : IO Unit := do
  let line ← h.getLine
  if line.isEmpty then return ()
  let line := if line.back == '\n' then (line.dropEnd 1).toString else line
  let (case, impl) := match line.splitOn "\t" with
    | [c] => (c, "")
    | c :: i :: _ => (c, i)
    | [] => ("", "")
  -- `e2e ...` cases are end-to-end tests against the mock cluster, judged by the harness oracle only:
  -- the model abstains and echoes the implementation's line.
  out.putStrLn (if case.startsWith "e2e " then impl else f case impl)
  loop h out f

def mainWith (f : String → String → String) : IO UInt32 := do
  let stdin ← IO.getStdin
  let stdout ← IO.getStdout
  loop stdin stdout f
  stdout.flush
  return 0

end Driver

import Driver.Common
import ScyllaVerif.Drive.C03
/-! `md_C03`: model driver executable of property C03 (one executable per property, so that a property's
driver builds independently of the others). -/
def main : IO UInt32 := Driver.mainWith ScyllaVerif.Drive.C03.run

import Driver.Common
import ScyllaVerif.Drive.C17
/-! `md_C17`: model driver executable of property C17 (one executable per property, so that a property's
driver builds independently of the others). -/
def main : IO UInt32 := Driver.mainWith ScyllaVerif.Drive.C17.run

import Driver.Common
import ScyllaVerif.Drive.C02
/-! `md_C02`: model driver executable of property C02 (one executable per property, so that a property's
driver builds independently of the others). -/
def main : IO UInt32 := Driver.mainWith ScyllaVerif.Drive.C02.run

-- Root of the `ScyllaVerif` library: every property module (so `lake build` checks all theorems).
import ScyllaVerif.Props.C02
import ScyllaVerif.Props.C03
import ScyllaVerif.Props.C09
import ScyllaVerif.Props.C11
import ScyllaVerif.Props.C16
import ScyllaVerif.Props.C18
import ScyllaVerif.Props.C06
import ScyllaVerif.Props.C15
import ScyllaVerif.Props.C13
import ScyllaVerif.Props.C08
import ScyllaVerif.Props.C01
import ScyllaVerif.Props.C19
import ScyllaVerif.Props.C04

-- Root of the `ScyllaVerif` library: every property module (so `lake build` checks all theorems).
import ScyllaVerif.Props.C03
import ScyllaVerif.Props.C09
import ScyllaVerif.Props.C11
import ScyllaVerif.Props.C16
import ScyllaVerif.Props.C18

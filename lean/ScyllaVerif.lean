-- Root of the `ScyllaVerif` library: every property module (so `lake build` checks all theorems).
import ScyllaVerif.Props.C11

//! C02 — every response reaches exactly the request it answers on a shared connection.
//!
//! Two levels:
//! * `map …`  — `ResponseHandlerMap` through `verif_hooks::connection::StreamMap` (allocate / orphan / lookup);
//! * `conn …` — the REAL router (reader / writer / orphaner) over an in-memory duplex stream, requests through
//!   the real `RouterHandle::send_request`, driven by a deterministic schedule on a current-thread runtime:
//!   the request futures are owned and polled by the test itself, so submission, cancellation (at each of the
//!   four cancellation points), polling, server answers (any order), unsolicited frames, a gate that blocks the
//!   client's writes (tasks pile up in the submit channel) and server close are all explicit operations.
use crate::rng::Rng;
use crate::{Ctx, Tier};
use futures::FutureExt;
use scylla::verif_hooks::connection::{Lookup, RawConnection, RawResponse, StreamIds, StreamMap};
use std::collections::{BTreeSet, HashMap, HashSet};
use std::future::Future;
use std::pin::Pin;
use std::sync::{Arc, Mutex};
use std::task::{Context, Poll, Waker};
use std::time::Duration;
use tokio::io::{AsyncRead, AsyncReadExt, AsyncWrite, AsyncWriteExt, DuplexStream, ReadBuf};

// ------------------------------------------------------------------------------------------------
// generators
// ------------------------------------------------------------------------------------------------

fn gen_map_random(rng: &mut Rng, len: usize) -> String {
    // generator-side guess of the allocator (least free id); a wrong guess only lowers case quality
    let mut used: BTreeSet<i16> = BTreeSet::new();
    let mut live: Vec<(u64, i16)> = Vec::new(); // (req, stream) with a handler
    let mut stale: Vec<i16> = Vec::new();
    let mut old_reqs: Vec<u64> = Vec::new();
    let mut next_req = 0u64;
    let mut ops: Vec<String> = Vec::new();
    for _ in 0..len {
        match rng.below(100) {
            0..=39 => {
                let req = if !live.is_empty() && rng.chance(1, 25) {
                    live[rng.below(live.len() as u64) as usize].0
                } else {
                    next_req += 1;
                    next_req - 1
                };
                let mut id = 0i16;
                while used.contains(&id) {
                    id += 1;
                }
                used.insert(id);
                live.push((req, id));
                ops.push(format!("a{}", req));
            }
            40..=69 => {
                let s = match rng.below(10) {
                    0..=5 if !used.is_empty() => {
                        // a held id, out of order
                        let v: Vec<i16> = used.iter().copied().collect();
                        v[rng.below(v.len() as u64) as usize]
                    }
                    6 if !stale.is_empty() => stale[rng.below(stale.len() as u64) as usize],
                    7 => rng.below(32768) as i16,
                    8 => *rng.pick(&[0i16, 1, 63, 64, 65, 127, 128, 32767, 32766, 32704, 32703]),
                    _ => rng.below(6) as i16,
                };
                if used.remove(&s) {
                    stale.push(s);
                }
                live.retain(|p| {
                    if p.1 == s {
                        old_reqs.push(p.0);
                        false
                    } else {
                        true
                    }
                });
                ops.push(format!("l{}", s));
            }
            70..=94 => {
                let req = match rng.below(10) {
                    0..=6 if !live.is_empty() => {
                        let i = rng.below(live.len() as u64) as usize;
                        let r = live.remove(i).0;
                        old_reqs.push(r);
                        r
                    }
                    7 if !old_reqs.is_empty() => old_reqs[rng.below(old_reqs.len() as u64) as usize],
                    8 => next_req + rng.below(3),
                    _ => rng.below(next_req.max(1)),
                };
                ops.push(format!("o{}", req));
            }
            95..=96 => {
                ops.push("h".to_owned());
                used.clear();
                live.clear();
            }
            _ => {
                let n = rng.range(1, 130) as i16;
                for _ in 0..n {
                    let mut id = 0i16;
                    while used.contains(&id) {
                        id += 1;
                    }
                    used.insert(id);
                }
                ops.push(format!("A{}", n));
            }
        }
    }
    ops.push("h".to_owned());
    format!("map {}", ops.join(";"))
}

/// Fill levels for the cases that keep the UPPER half of the stream-id space in use (seeded change C02-9: `free`
/// computed the block index in a `u8`, so that every id >= 16384 = 256 blocks released the bit of id - 16384).
fn high_fill(rng: &mut Rng) -> usize {
    match rng.below(10) {
        0..=4 => *rng.pick(&[16385usize, 16386, 16448, 16449, 16500, 20000, 24576, 24577, 32704, 32767, 32768]),
        5..=7 => rng.range(16385, 32768) as usize,
        8 => *rng.pick(&[0usize, 1, 64, 65, 8192, 16383, 16384]),
        _ => rng.range(1, 16384) as usize,
    }
}

/// `ids <op>;…` — the bare `StreamIdSet` bitmap (hook `StreamIds`): `A<n>` n allocations, `a` one allocation,
/// `f<id>` free (any i16; a negative id indexes outside the bitmap), `F<from>:<n>` free a range, `V` list the free
/// ids (allocate until full, then free what was handed out), `D` the same without giving them back.
fn gen_ids(rng: &mut Rng) -> String {
    let k = high_fill(rng);
    let mut used = vec![false; 32768];
    let mut n_used = 0usize;
    let alloc1 = |used: &mut Vec<bool>, n_used: &mut usize| {
        if let Some(i) = used.iter().position(|u| !*u) {
            used[i] = true;
            *n_used += 1;
        }
    };
    for u in used.iter_mut().take(k) {
        *u = true;
    }
    n_used += k;
    let mut ops: Vec<String> = vec![format!("A{}", k)];
    let mut pending_pair: Option<usize> = None;
    for _ in 0..rng.range(3, 28) {
        match rng.below(100) {
            0..=47 => {
                // free a held id, mostly in the upper half / at block and 256-block boundaries
                let cand = match rng.below(8) {
                    0 | 1 => *rng.pick(&[16384usize, 16385, 16383, 16447, 16448, 24576, 32767, 32704, 32703, 0, 63, 64, 255, 256, 8192]),
                    2 | 3 | 4 => rng.range(16384, 32767) as usize,
                    5 => k.saturating_sub(1 + rng.below(3) as usize),
                    6 if pending_pair.is_some() => pending_pair.take().unwrap(),
                    _ => rng.below(32768) as usize,
                };
                if used[cand] {
                    used[cand] = false;
                    n_used -= 1;
                }
                if cand >= 16384 && rng.chance(1, 2) {
                    pending_pair = Some(cand - 16384);
                }
                ops.push(format!("f{}", cand));
            }
            48..=50 => ops.push(format!("f{}", *rng.pick(&[-1i64, -2, -63, -64, -65, -16384, -32768]))),
            51..=75 => {
                alloc1(&mut used, &mut n_used);
                ops.push("a".into());
            }
            76..=82 => {
                let n = rng.range(1, 200) as usize;
                for _ in 0..n {
                    alloc1(&mut used, &mut n_used);
                }
                ops.push(format!("A{}", n));
            }
            83..=90 => {
                let s = (if rng.bool() { rng.range(16000, 32700) } else { rng.range(0, 32699) }) as usize;
                let n = (rng.range(1, 130) as usize).min(32768 - s);
                for u in used.iter_mut().skip(s).take(n) {
                    if *u {
                        *u = false;
                        n_used -= 1;
                    }
                }
                ops.push(format!("F{}:{}", s, n));
            }
            _ => ops.push("V".into()),
        }
    }
    let _ = n_used;
    ops.push("D".into());
    format!("ids {}", ops.join(";"))
}

/// `map` cases with more than 16384 handlers registered: requests on LOW streams are abandoned (or not), answers
/// arrive on HIGH streams, new requests are allocated in between. The `A<k>` requests have the ids 1000000 + stream.
fn gen_map_high(rng: &mut Rng) -> String {
    let mut k = high_fill(rng);
    if k < 16385 {
        k = 16385 + k % 1000;
    }
    let mut ops: Vec<String> = vec![format!("A{}", k)];
    let mut next_req = 1u64;
    let mut highs: Vec<usize> = Vec::new();
    for _ in 0..rng.range(4, 22) {
        match rng.below(10) {
            0..=2 => {
                // abandon the request on a low stream whose +16384 partner is held
                let lo = if rng.chance(1, 4) { *rng.pick(&[0usize, 1, 63, 64]) % (k - 16384) } else { rng.below((k - 16384) as u64) as usize };
                highs.push(lo + 16384);
                ops.push(format!("o{}", 1_000_000 + lo));
            }
            3..=5 => {
                let s = if !highs.is_empty() && rng.chance(2, 3) {
                    highs.swap_remove(rng.below(highs.len() as u64) as usize)
                } else {
                    rng.range(16384, k as i64 - 1) as usize
                };
                ops.push(format!("l{}", s));
            }
            6 | 7 => {
                ops.push(format!("a{}", next_req));
                next_req += 1;
            }
            8 => ops.push(format!("l{}", rng.below(k as u64))),
            _ => {
                let s = rng.range(16300, 16450) as usize;
                ops.push(format!("L{}:{}", s.min(k - 1), (rng.range(1, 70) as usize).min(k - s.min(k - 1))));
            }
        }
    }
    for _ in 0..rng.range(1, 4) {
        ops.push(format!("a{}", next_req));
        next_req += 1;
    }
    format!("map {}", ops.join(";"))
}

fn gen_exhaustive(alphabet: &[&str], max_len: usize, head: &str, emit: &mut dyn FnMut(String)) {
    let k = alphabet.len();
    for len in 1..=max_len {
        let total = k.pow(len as u32);
        for mut n in 0..total {
            let mut ops = Vec::with_capacity(len);
            for _ in 0..len {
                ops.push(alphabet[n % k]);
                n /= k;
            }
            emit(format!("{} {}", head, ops.join(";")));
        }
    }
}

fn gen_conn_random(rng: &mut Rng, len: usize) -> String {
    let wc = rng.below(2);
    let mut submitted = 0u64;
    let mut outstanding = 0u64;
    let mut ops: Vec<String> = Vec::new();
    let burst = rng.chance(1, 4);
    for _ in 0..len {
        match rng.below(100) {
            0..=34 => {
                let n = if burst { rng.range(1, 6) } else { 1 };
                for _ in 0..n {
                    ops.push("s".into());
                    submitted += 1;
                    outstanding += 1;
                }
            }
            35..=39 => {
                ops.push("S".into());
                submitted += 1;
                outstanding += 1;
            }
            40..=48 => ops.push(format!("c{}", rng.below(submitted + 1))),
            // cancel without letting the router run: the orphan notice races the next operation (often an answer)
            49..=51 => ops.push(format!("C{}", rng.below(submitted + 1))),
            52..=57 => ops.push(format!("p{}", rng.below(submitted + 1))),
            58..=87 => {
                let j = match rng.below(4) {
                    0 => 0,
                    1 => outstanding.saturating_sub(1),
                    _ => rng.below(outstanding + 1),
                };
                ops.push(format!("r{}", j));
                outstanding = outstanding.saturating_sub(1);
            }
            88..=89 => {
                let s = match rng.below(4) {
                    0 => rng.below(submitted + 2) as i64,
                    1 => *rng.pick(&[-1i64, -2, -32768, 32767, 64, 63]),
                    _ => rng.below(8) as i64,
                };
                ops.push(format!("u{}", s));
            }
            90 => ops.push(if rng.chance(1, 3) { "w".into() } else { "x".into() }),
            91..=95 => ops.push("g".into()),
            _ => ops.push("G".into()),
        }
    }
    format!("conn {} {}", wc, ops.join(";"))
}

/// `h` submissions before the server answers anything (request k travels on stream k), a few cancellations, then
/// every frame answered in reverse or random order, then a second wave that reuses the freed ids.
fn gen_conn_many(rng: &mut Rng, h: usize, reverse: bool, gated: bool) -> String {
    let mut ops: Vec<String> = Vec::with_capacity(2 * h + 40);
    if gated {
        ops.push("g".into()); // everything after the first request piles up in the submit channel (h <= 1000)
    }
    for k in 0..h {
        ops.push(if k > 0 && rng.chance(1, 50) { "S".into() } else { "s".into() });
    }
    if gated {
        ops.push("G".into());
    }
    for _ in 0..rng.range(0, 6) {
        ops.push(format!("c{}", rng.below(h as u64)));
    }
    // the boundary ids first or last, depending on the order
    let mut remaining = h;
    let answer_all = rng.chance(2, 3);
    let stop_at = if answer_all { 0 } else { rng.below(h as u64 / 2) as usize };
    while remaining > stop_at {
        let j = if reverse { remaining - 1 } else { rng.below(remaining as u64) as usize };
        ops.push(format!("r{}", j));
        remaining -= 1;
    }
    let wave = rng.range(2, 12) as usize;
    for _ in 0..wave {
        ops.push("s".into());
    }
    for _ in 0..wave {
        ops.push(format!("r{}", remaining));
    }
    if rng.chance(1, 3) {
        ops.push("x".into());
    }
    format!("conn {} {}", rng.below(2), ops.join(";"))
}

/// A response frame as the scripted server writes it with `b` (RESULT opcode).
fn raw_response(stream: i16, body: &[u8]) -> Vec<u8> {
    response_frame(stream, body)
}

/// ONE response frame delivered in several writes, with client-side steps in between: another (written, unanswered)
/// request is abandoned and its orphan notice processed, a new request is submitted, a future is polled - while the
/// reader holds a partly received frame. Bodies from empty to larger than the reader's 8 KiB buffer. Every frame is
/// well formed and answers an outstanding request, so the connection has to stay up and every answer has to arrive
/// byte for byte.
pub(crate) fn gen_conn_split(rng: &mut Rng) -> String {
    let n = rng.range(2, 7) as usize;
    let mut ops: Vec<String> = vec!["s".to_owned(); n];
    // request k is written on stream k; `alive` = written, unanswered, not abandoned
    let mut unanswered: Vec<usize> = (0..n).collect();
    let mut abandoned: Vec<bool> = vec![false; n];
    let mut submitted = n;
    let rounds = rng.range(1, 4);
    for _ in 0..rounds {
        if unanswered.is_empty() {
            break;
        }
        let b = unanswered.remove(rng.below(unanswered.len() as u64) as usize);
        let len = match rng.below(10) {
            0 => 0usize,
            1..=5 => rng.range(1, 40) as usize,
            6..=7 => rng.range(100, 700) as usize,
            8 => rng.range(8100, 8300) as usize,
            _ => rng.range(9000, 20000) as usize,
        };
        // the body the server sends for b: its tag first, so that the answer is recognisably b's own
        let mut body = (b as u64).to_be_bytes().to_vec();
        body.truncate(len.min(8));
        if len > 8 {
            body.extend(rng.bytes(len - 8));
        }
        let frame = raw_response(b as i16, &body);
        // 1..3 cut points: inside the header, at its end, inside the body
        let mut cuts: Vec<usize> = Vec::new();
        for _ in 0..rng.range(1, 3) {
            cuts.push(match rng.below(4) {
                0 => rng.range(1, 8) as usize,
                1 => 9,
                _ => rng.range(1, frame.len() as i64 - 1).max(1) as usize,
            });
        }
        cuts.push(frame.len());
        cuts.sort_unstable();
        cuts.dedup();
        let mut from = 0usize;
        for (ci, &to) in cuts.iter().enumerate() {
            if to <= from || to > frame.len() {
                continue;
            }
            ops.push(format!("b{}", crate::util::hex(&frame[from..to])));
            from = to;
            if ci + 1 < cuts.len() {
                // what happens on the client while the frame is half received
                for _ in 0..rng.range(1, 3) {
                    match rng.below(10) {
                        0..=5 => {
                            let others: Vec<usize> = unanswered.iter().copied().filter(|k| !abandoned[*k]).collect();
                            if let Some(&a) = others.get(rng.below(others.len().max(1) as u64) as usize) {
                                abandoned[a] = true;
                                ops.push(format!("{}{}", if rng.chance(1, 4) { "C" } else { "c" }, a));
                            }
                        }
                        6..=7 => {
                            ops.push("s".into());
                            unanswered.push(submitted);
                            abandoned.push(false);
                            submitted += 1;
                        }
                        8 => ops.push(format!("p{}", rng.below(submitted as u64))),
                        _ => {
                            // submitted and dropped at once: it is written all the same, the server owes an answer
                            ops.push("S".into());
                            unanswered.push(submitted);
                            abandoned.push(true);
                            submitted += 1;
                        }
                    }
                }
            }
        }
    }
    format!("conn {} {}", rng.below(2), ops.join(";"))
}

/// More than 1024 submissions behind a closed gate: the bounded submit channel fills up and callers park in
/// `send().await` (`submitFull`; later `enqueue`, or `ChannelError` if the router ends first). And more than 1024
/// stream ids orphaned for a second: the orphaner ends the router (`TooManyOrphanedStreamIds`).
fn gen_capacity_cases(rng: &mut Rng, quick: bool, emit: &mut dyn FnMut(String)) {
    let reps = if quick { 1 } else { 6 };
    for _ in 0..reps {
        for tail in [
            "G", "x", "G;x", "G;u1500", "w", "G;w;s",
            "c1026;G;p1027;r0", "C1027;G;p1026;p1028;r1;r0", "p1026;G;p1026;r1025;r1025",
            "G;p1026;p1027;p1028;r1026;r0;x",
            // a caller that was HANDED a permit is dropped while another parked caller has none: the permit moves on
            "G;g;S1030;c1026;G;p1027;p1028;r0",
            "G;g;S1030;C1027;c1026;p1028;G;p1029;r1;r0",
            "G;g;S1030;c1026;c1027;c1028;x",
        ] {
            let n = rng.range(1026, 1034) as usize;
            let wc = rng.below(2);
            // `S1030` in a tail = 1030 further submissions
            let tail = tail.replace("S1030", &vec!["s"; 1030].join(";"));
            emit(format!("conn {} g;{};{}", wc, vec!["s"; n].join(";"), tail));
        }
        // the channel is exactly full / one short of full
        emit(format!("conn 1 g;{};G;r0", vec!["s"; 1025].join(";")));
        emit(format!("conn 0 g;{};x", vec!["s"; 1024].join(";")));
        // orphan threshold: 1024 old orphans are tolerated, 1025 are not; orphans younger than 1 s do not count
        for (n, tail) in [(1030usize, "t2000;s;r0"), (1024, "t2000;s;r0"), (1025, "t999;s;t1;s;r0"), (1025, "t500;S;t400;s;t100;s"), (1026, "r0;r0;t1000;s")] {
            emit(format!("conn {} {};{}", rng.below(2), vec!["S"; n].join(";"), tail));
        }
        let n = rng.range(1025, 1040) as usize;
        let mut ops: Vec<String> = vec!["s".to_owned(); n];
        for k in 0..n {
            ops.push(format!("c{}", k));
        }
        ops.push("t1000".into());
        ops.push("s".into());
        emit(format!("conn 1 {}", ops.join(";")));
    }
}

pub fn generate(rng: &mut Rng, tier: Tier, emit_all: &mut dyn FnMut(String)) {
    let quick = tier == Tier::Quick;
    // the upper half of the id space (ids >= 16384 = block 256 and up) kept in use: the bare bitmap, then the map.
    // Each of these costs the model about half a second (tens of thousands of allocations), so they are spread
    // evenly over the case stream (the runner cuts it into contiguous chunks, one per core).
    let mut heavy: Vec<String> = vec![
        "ids A32768;f20000;a;f16384;f0;V;a;a;D".to_owned(),
        "ids A16385;f16384;V;f0;V;A2;D".to_owned(),
        "ids A70;f-1;f64;f-32768;a;D".to_owned(),
        "map A16385;o1000000;l16384;a1;l0;a2".to_owned(),
        "map A32768;o1003616;l20000;a1;a2;l3616;a3".to_owned(),
    ];
    // thorough: 600 `ids` + 120 `map` (about 0.5 s of model time each; the thorough stream has about 1.6 M cases, so
    // a stride of 2 000 places all of them inside the stream and none is left for the last chunk)
    let (count, every) = if quick { (200, 5) } else { (720, 6) };
    for i in 0..count {
        heavy.push(if i % every == every - 1 { gen_map_high(rng) } else { gen_ids(rng) });
    }
    heavy.reverse();
    let stride = if quick { 800 } else { 2_000 };
    let mut emitted = 0usize;
    let mut emit_spread = |c: String| {
        emit_all(c);
        emitted += 1;
        if emitted % stride == 0 {
            if let Some(h) = heavy.pop() {
                emit_all(h);
            }
        }
    };
    generate_rest(rng, quick, &mut emit_spread);
    while let Some(h) = heavy.pop() {
        emit_all(h);
    }
}

fn generate_rest(rng: &mut Rng, quick: bool, emit: &mut dyn FnMut(String)) {
    // hook level: exhaustive over 3 request ids / 3 stream ids
    let alpha = ["a0", "a1", "a2", "o0", "o1", "o2", "l0", "l1", "l2"];
    gen_exhaustive(&alpha, if quick { 5 } else { 6 }, "map", emit);
    for _ in 0..(if quick { 2_000 } else { 50_000 }) {
        let len = match rng.below(4) {
            0 => rng.range(1, 12),
            1 => rng.range(10, 60),
            _ => rng.range(40, 200),
        } as usize;
        emit(gen_map_random(rng, len));
    }
    if !quick {
        for _ in 0..20_000 {
            let len = rng.range(6, 8) as usize;
            let ops: Vec<&str> = (0..len).map(|_| *rng.pick(&alpha)).collect();
            emit(format!("map {}", ops.join(";")));
        }
    }
    // full exhaustion: 32768 allocations, the next ones fail, free some, least id first
    emit("map A32768;a1;a2;A5;l17;l5;l32767;a3;a4;a5;a6;o3;l5;l17;L0:200;A201;L32700:68;A70;a7;l9;o8;a8;l64;l63;a9;a10;l10;l11".to_owned());
    if !quick {
        emit("map A32767;a1;a2;a3;l64;l63;a4;a5;l0;l32767;a6;a7;a8;o6;o7;l0;l32767;L1:2000;A2001;l32767".to_owned());
        emit("map A20000;L0:20000;h".to_owned());
        emit("map A32768;L20000:12768;A12769;a1;l0;a2".to_owned());
    }
    // connection level: exhaustive short schedules, then random ones
    let calpha = ["s", "S", "c0", "c1", "p0", "r0", "r1", "u0", "u1", "g", "G", "x"];
    gen_exhaustive(&calpha, if quick { 3 } else { 4 }, "conn 0", emit);
    gen_exhaustive(&calpha, if quick { 4 } else { 5 }, "conn 1", emit);
    // longer schedules over a smaller alphabet (cancel after the response, late notices, id reuse)
    let calpha2 = ["s", "S", "c0", "p0", "r0", "u0"];
    gen_exhaustive(&calpha2, if quick { 6 } else { 7 }, "conn 1", emit);
    // the orphan notice racing the response (cancel WITHOUT settling), write errors
    let calpha3 = ["s", "C0", "C1", "r0", "r1", "c0", "w", "g", "G"];
    gen_exhaustive(&calpha3, if quick { 4 } else { 5 }, "conn 1", emit);
    gen_exhaustive(&calpha3, if quick { 3 } else { 4 }, "conn 1 s;s", emit);
    gen_capacity_cases(rng, quick, emit);
    // `WriteCoalescingDelay::Milliseconds`: the writer sleeps between looking at its queue; what it wrote reaches the
    // server only when a wake-up finds the queue empty (virtual time: `t<ms>`)
    let calpha_ms = ["s", "S", "c0", "C1", "r0", "r1", "t1", "t3", "x"];
    gen_exhaustive(&calpha_ms, if quick { 4 } else { 5 }, "conn m3", emit);
    for _ in 0..(if quick { 300 } else { 5_000 }) {
        let ms = *rng.pick(&[1u64, 2, 5, 50, 1000]);
        let mut ops: Vec<String> = Vec::new();
        let mut submitted = 0u64;
        for _ in 0..rng.range(3, 14) {
            match rng.below(10) {
                0..=3 => {
                    for _ in 0..rng.range(1, 4) {
                        ops.push("s".into());
                        submitted += 1;
                    }
                }
                4 | 5 => ops.push(format!("t{}", *rng.pick(&[1u64, ms - ms / 2, ms, ms + 1, 2 * ms, 1500]))),
                6 | 7 => ops.push(format!("r{}", rng.below(submitted + 1))),
                8 => ops.push(format!("{}{}", if rng.bool() { "c" } else { "C" }, rng.below(submitted + 1))),
                _ => ops.push("S".into()),
            }
        }
        emit(format!("conn m{} {}", ms, ops.join(";")));
    }
    // BIG answers: bodies around and beyond the reader's 1 MiB preallocation cap (`MAX_BODY_PREALLOCATION`), whose
    // tail from offset 2^20 on looks like a whole frame for ANOTHER request in flight; written at once or in two
    // pieces (cut in the header, at the border, just before / after the first MiB); the victim sometimes cancelled
    for i in 0..(if quick { 16 } else { 200 }) {
        let n = rng.range(2, 5) as usize;
        let mut ops: Vec<String> = vec!["s".to_owned(); n];
        let j = rng.below(n as u64) as usize;
        let k = (j + 1 + rng.below(n as u64 - 1) as usize) % n;
        let lens = [(1usize << 20) - 1, 1 << 20, (1 << 20) + 1, (1 << 20) + 17, (1 << 20) + 37, (1 << 20) + 9000, (1 << 21) + 5, (3 << 20) + 5, 4 << 20];
        let len = if i < lens.len() { lens[i] } else { *rng.pick(&lens) };
        let cut = *rng.pick(&[0usize, 0, 5, 9, 1000, (1 << 20) + 8, (1 << 20) + 9, (1 << 20) + 20]);
        match rng.below(6) {
            0 => ops.push(format!("c{}", k)),
            1 => ops.push(format!("C{}", k)),
            _ => {}
        }
        ops.push(format!("B{}:{}:{}:{}", j, len, k, cut));
        for _ in 0..n {
            ops.push(format!("r{}", rng.below(2)));
        }
        if rng.chance(1, 3) {
            ops.push("s".into());
            ops.push("r0".into());
        }
        emit(format!("conn {} {}", rng.below(2), ops.join(";")));
    }
    for _ in 0..(if quick { 2_500 } else { 40_000 }) {
        emit(gen_conn_split(rng));
    }
    // all schedules that start with two submissions (so that answers can be out of order)
    gen_exhaustive(&calpha, if quick { 3 } else { 4 }, "conn 1 s;s", emit);
    // many requests in flight before the server answers anything: the highest stream id in flight crosses the
    // byte boundaries 255/256/257, 511/512/513, 1023/1024/1025 (stream-id bytes of the request frame header)
    for (i, h) in [300usize, 256, 257, 258, 512, 513, 514, 1024, 1025, 1026, 1030].into_iter().enumerate() {
        emit(gen_conn_many(rng, h, i % 2 == 0, false));
    }
    emit(gen_conn_many(rng, 300, true, true));
    emit(gen_conn_many(rng, 513, false, true));
    if !quick {
        for _ in 0..40 {
            let h = *rng.pick(&[255usize, 256, 257, 258, 300, 511, 512, 513, 514, 700, 1023, 1024, 1025, 1026, 2049]);
            let (rev, gated) = (rng.bool(), h <= 1000 && rng.chance(1, 3));
            emit(gen_conn_many(rng, h, rev, gated));
        }
    }
    // ALL 32768 ids in flight, some of their callers gone for more than a second (old orphans), more submissions, the
    // late answers of the abandoned requests out of order: an orphaned id is NOT free however old it is - the new
    // requests get UnableToAllocStreamId until an answer really frees an id. Oracle only in this form (`connx`: the
    // model's line for 32768 callers takes minutes); the same schedule WITH the model's line runs in the thorough tier.
    {
        let exhaust = vec!["s"; 32768].join(";");
        let mut tails = vec!["c5;c77;c32767;t1100;s;s;r77;s;r5;r32765;s;s;t1000;s;r0".to_owned()];
        if !quick {
            for _ in 0..3 {
                let mut t: Vec<String> = Vec::new();
                let k = rng.range(1, 6);
                for _ in 0..k {
                    t.push(format!("c{}", rng.below(32768)));
                }
                t.push(format!("t{}", *rng.pick(&[999u32, 1000, 1001, 2500])));
                for _ in 0..rng.range(1, 4) {
                    t.push("s".into());
                }
                for _ in 0..rng.range(1, 5) {
                    t.push(format!("r{}", rng.below(32700)));
                    t.push("s".into());
                }
                tails.push(t.join(";"));
            }
        }
        for t in &tails {
            emit(format!("connx 1 {};{}", exhaust, t));
        }
        if !quick {
            emit(format!("conn 1 {};{}", exhaust, tails[0]));
        }
    }
    if !quick {
        // end-to-end exhaustion: 32768 requests in flight, the next two get UnableToAllocStreamId, one answer
        // frees one id, the next request gets exactly that id; then FIN
        let mut ops = vec!["s"; 32770];
        ops.extend(["r5", "s", "r32767", "x"]);
        emit(format!("conn 1 {}", ops.join(";")));
    }
    for _ in 0..(if quick { 6_000 } else { 120_000 }) {
        let len = match rng.below(4) {
            0 => rng.range(2, 10),
            1 => rng.range(8, 30),
            _ => rng.range(20, 90),
        } as usize;
        emit(gen_conn_random(rng, len));
    }
}

// ------------------------------------------------------------------------------------------------
// hook level
// ------------------------------------------------------------------------------------------------

fn split_op(op: &str) -> Option<(char, &str)> {
    let c = op.chars().next()?;
    Some((c, &op[c.len_utf8()..]))
}

fn run_map(ops: &[&str], ctx: &mut Ctx) -> String {
    let mut m = StreamMap::new();
    // shadow bookkeeping for the oracle (independent of the model): stream -> request it was allocated for,
    // for every allocation that has not been looked up ("answered") yet
    let mut held: HashMap<i16, u64> = HashMap::new();
    let mut orphaned_reqs: HashSet<u64> = HashSet::new();
    let mut fresh = 1_000_000u64;
    let mut out: Vec<String> = Vec::new();

    fn alloc(m: &mut StreamMap, req: u64, held: &mut HashMap<i16, u64>, ctx: &mut Ctx) -> Option<i16> {
        match m.allocate(req) {
            Some(id) => {
                if id < 0 {
                    ctx.fail(format!("allocate returned negative stream id {}", id));
                }
                if let Some(prev) = held.get(&id) {
                    ctx.fail(format!(
                        "stream id {} handed to request {} while still held by unanswered request {}",
                        id, req, prev
                    ));
                }
                held.insert(id, req);
                Some(id)
            }
            None => {
                if held.len() != 32768 {
                    ctx.fail(format!("allocate failed although only {} stream ids are held", held.len()));
                }
                None
            }
        }
    }
    /// Exact expectation while request ids are unique: orphan mark > handler > nothing.
    struct Exact {
        req_stream: HashMap<u64, i16>,
        orphan_streams: HashSet<i16>,
        seen_reqs: HashSet<u64>,
        unique: bool,
    }
    let mut exact = Exact { req_stream: HashMap::new(), orphan_streams: HashSet::new(), seen_reqs: HashSet::new(), unique: true };
    fn lookup(
        m: &mut StreamMap,
        s: i16,
        held: &mut HashMap<i16, u64>,
        orphaned_reqs: &HashSet<u64>,
        exact: &mut Exact,
        ctx: &mut Ctx,
    ) -> Lookup {
        let res = m.lookup(s);
        match (&res, held.get(&s)) {
            (Lookup::Handler(r), Some(req)) if r == req => {}
            (Lookup::Handler(r), owner) => ctx.fail(format!(
                "response on stream {} routed to request {} but the stream was allocated for {:?}",
                s, r, owner
            )),
            (Lookup::Orphaned, Some(req)) if orphaned_reqs.contains(req) => {}
            (Lookup::Orphaned, owner) => ctx.fail(format!(
                "response on stream {} treated as orphaned, owner {:?} was never abandoned",
                s, owner
            )),
            (Lookup::Missing, None) => {}
            (Lookup::Missing, Some(req)) => {
                if !orphaned_reqs.contains(req) {
                    ctx.fail(format!("response on stream {} owed to request {} treated as unsolicited", s, req))
                }
            }
        }
        if exact.unique {
            // the owner was abandoned while it held THIS stream => Orphaned; a live owner => its handler; else Missing
            let want = if exact.orphan_streams.contains(&s) {
                Lookup::Orphaned
            } else if let Some(req) = held.get(&s) {
                Lookup::Handler(*req)
            } else {
                Lookup::Missing
            };
            if res != want {
                ctx.fail(format!("lookup of stream {} gave {:?}, the allocation/abandon history says {:?}", s, res, want));
            }
        }
        if !exact.orphan_streams.remove(&s) {
            if let Some(req) = held.get(&s) {
                if exact.req_stream.get(req) == Some(&s) {
                    exact.req_stream.remove(req);
                }
            }
        }
        held.remove(&s);
        res
    }

    for op in ops {
        let Some((c, arg)) = split_op(op) else { return "bad-case".into() };
        match c {
            'h' => {
                if !arg.is_empty() {
                    return "bad-case".into();
                }
                let hs = std::mem::replace(&mut m, StreamMap::new()).into_handlers();
                for (s, r) in &hs {
                    if held.get(s) != Some(r) {
                        ctx.fail(format!("into_handlers lists ({}, {}) but stream is held by {:?}", s, r, held.get(s)));
                    }
                }
                held.clear();
                orphaned_reqs.clear();
                exact = Exact { req_stream: HashMap::new(), orphan_streams: HashSet::new(), seen_reqs: HashSet::new(), unique: true };
                out.push(if hs.is_empty() {
                    "h=-".to_owned()
                } else {
                    format!("h={}", hs.iter().map(|(s, r)| format!("{}:{}", s, r)).collect::<Vec<_>>().join("/"))
                });
            }
            'L' => {
                let parts: Vec<&str> = arg.split(':').collect();
                let (Some(s), Some(n)) = (
                    parts.first().and_then(|x| x.parse::<usize>().ok()),
                    parts.get(1).and_then(|x| x.parse::<usize>().ok()),
                ) else {
                    return "bad-case".into();
                };
                if parts.len() != 2 || s + n > 32768 {
                    return "bad-case".into();
                }
                let (mut h, mut o, mut mi) = (0, 0, 0);
                for id in s..s + n {
                    match lookup(&mut m, id as i16, &mut held, &orphaned_reqs, &mut exact, ctx) {
                        Lookup::Handler(_) => h += 1,
                        Lookup::Orphaned => o += 1,
                        Lookup::Missing => mi += 1,
                    }
                }
                out.push(format!("L{}/{}/{}", h, o, mi));
            }
            'a' | 'o' | 'l' | 'A' => {
                let Ok(n) = arg.parse::<u64>() else { return "bad-case".into() };
                match c {
                    'a' => out.push(match alloc(&mut m, n, &mut held, ctx) {
                        Some(id) => {
                            if !exact.seen_reqs.insert(n) {
                                exact.unique = false; // a request id used twice: not a schedule of a real connection
                            }
                            exact.req_stream.insert(n, id);
                            id.to_string()
                        }
                        None => "full".to_owned(),
                    }),
                    'o' => {
                        m.orphan(n);
                        orphaned_reqs.insert(n);
                        if let Some(s) = exact.req_stream.remove(&n) {
                            exact.orphan_streams.insert(s);
                        }
                        out.push("o".to_owned());
                    }
                    'l' => {
                        if n >= 32768 {
                            return "bad-case".into();
                        }
                        out.push(match lookup(&mut m, n as i16, &mut held, &orphaned_reqs, &mut exact, ctx) {
                            Lookup::Handler(r) => format!("H{}", r),
                            Lookup::Orphaned => "O".to_owned(),
                            Lookup::Missing => "M".to_owned(),
                        });
                    }
                    _ => {
                        let (mut ok, mut failed) = (0u64, 0u64);
                        let (mut first, mut last) = (None, None);
                        for _ in 0..n {
                            match alloc(&mut m, fresh, &mut held, ctx) {
                                Some(id) => {
                                    ok += 1;
                                    first.get_or_insert(id);
                                    last = Some(id);
                                    exact.seen_reqs.insert(fresh);
                                    exact.req_stream.insert(fresh, id);
                                }
                                None => failed += 1,
                            }
                            fresh += 1;
                        }
                        let f = |x: Option<i16>| x.map(|v| v.to_string()).unwrap_or_else(|| "-".into());
                        out.push(format!("A{}/{}:{}-{}", ok, failed, f(first), f(last)));
                    }
                }
            }
            _ => return "bad-case".into(),
        }
    }
    out.join(",")
}

/// Ranges `a-b` joined by `+` (`-` if empty) of an increasing list of ids.
fn id_ranges(ids: &[i16]) -> String {
    if ids.is_empty() {
        return "-".to_owned();
    }
    let mut parts: Vec<String> = Vec::new();
    let (mut lo, mut hi) = (ids[0], ids[0]);
    for &id in &ids[1..] {
        if hi < i16::MAX && id == hi + 1 {
            hi = id;
        } else {
            parts.push(format!("{}-{}", lo, hi));
            lo = id;
            hi = id;
        }
    }
    parts.push(format!("{}-{}", lo, hi));
    parts.join("+")
}

/// The bare `StreamIdSet` (hook `StreamIds`). Oracle, independent of the model: `held` = ids handed out by
/// `allocate` and not yet passed to `free` (the "unanswered requests"); an id in `held` must never be handed out
/// again, `allocate` may fail only when all 32768 are held, and whenever the free ids are listed (`V` / `D`) they
/// must be exactly the ids not held: an answered id that stays reserved, or a reserved id released by the answer to
/// ANOTHER stream, is a failure ("freed id != answered id").
fn run_ids(ops: &[&str], ctx: &mut Ctx) -> String {
    let mut set = StreamIds::new();
    let mut held: BTreeSet<i16> = BTreeSet::new();
    let mut out: Vec<String> = Vec::new();

    // at most a few reports per case (one wrong bit shows up again in every later allocation of a `V` / `D`)
    let mut budget = 4u32;
    fn alloc(set: &mut StreamIds, held: &mut BTreeSet<i16>, budget: &mut u32, ctx: &mut Ctx) -> Option<i16> {
        match set.allocate() {
            Some(id) => {
                if id < 0 && *budget > 0 {
                    *budget -= 1;
                    ctx.fail(format!("allocate returned negative stream id {}", id));
                }
                if !held.insert(id) && *budget > 0 {
                    *budget -= 1;
                    ctx.fail(format!("stream id {} handed out again while its request is still unanswered", id));
                }
                Some(id)
            }
            None => {
                if held.len() != 32768 && *budget > 0 {
                    *budget -= 1;
                    ctx.fail(format!("allocate failed although only {} stream ids are held", held.len()));
                }
                None
            }
        }
    }
    /// Allocate until the bitmap is full; what comes out must be exactly the ids that were not held.
    fn drain(set: &mut StreamIds, held: &mut BTreeSet<i16>, budget: &mut u32, ctx: &mut Ctx) -> Vec<i16> {
        let expect: Vec<i16> = (0..=i16::MAX).filter(|id| !held.contains(id)).collect();
        let mut got: Vec<i16> = Vec::new();
        while got.len() <= 32768 {
            match alloc(set, held, budget, ctx) {
                Some(id) => got.push(id),
                None => break,
            }
        }
        got.sort_unstable();
        if got != expect {
            let leaked: Vec<i16> = expect.iter().copied().filter(|id| !got.contains(id)).take(3).collect();
            let stolen: Vec<i16> = got.iter().copied().filter(|id| !expect.contains(id)).take(3).collect();
            ctx.fail(format!(
                "free ids are not the answered ids: answered but still reserved {:?}, released without an answer {:?}",
                leaked, stolen
            ));
        }
        got
    }

    for op in ops {
        let Some((c, arg)) = split_op(op) else { return "bad-case".into() };
        match c {
            'a' if arg.is_empty() => out.push(match alloc(&mut set, &mut held, &mut budget, ctx) {
                Some(id) => id.to_string(),
                None => "full".to_owned(),
            }),
            'A' => {
                let Ok(n) = arg.parse::<u32>() else { return "bad-case".into() };
                if n > 40_000 {
                    return "bad-case".into();
                }
                let (mut ok, mut failed) = (0u32, 0u32);
                let (mut first, mut last) = (None, None);
                for _ in 0..n {
                    match alloc(&mut set, &mut held, &mut budget, ctx) {
                        Some(id) => {
                            ok += 1;
                            first.get_or_insert(id);
                            last = Some(id);
                        }
                        None => failed += 1,
                    }
                }
                let f = |x: Option<i16>| x.map(|v| v.to_string()).unwrap_or_else(|| "-".into());
                out.push(format!("A{}/{}:{}-{}", ok, failed, f(first), f(last)));
            }
            'f' => {
                let Ok(id) = arg.parse::<i16>() else { return "bad-case".into() };
                // `lookup` is only ever called with ids >= 0 (the reader filters negative streams); a negative id
                // indexes outside the bitmap: the real `free` panics, nothing is changed
                let r = std::panic::catch_unwind(std::panic::AssertUnwindSafe(|| set.free(id)));
                match r {
                    Ok(()) => {
                        if id < 0 {
                            ctx.fail(format!("free({}) did not index outside the bitmap", id));
                        }
                        held.remove(&id);
                        out.push("f".to_owned());
                    }
                    Err(_) => {
                        if id >= 0 {
                            ctx.fail(format!("free({}) panicked for a valid stream id", id));
                        }
                        out.push("panic".to_owned());
                    }
                }
            }
            'F' => {
                let parts: Vec<&str> = arg.split(':').collect();
                let (Some(s), Some(n)) = (
                    parts.first().and_then(|x| x.parse::<usize>().ok()),
                    parts.get(1).and_then(|x| x.parse::<usize>().ok()),
                ) else {
                    return "bad-case".into();
                };
                if parts.len() != 2 || s + n > 32768 {
                    return "bad-case".into();
                }
                for id in s..s + n {
                    set.free(id as i16);
                    held.remove(&(id as i16));
                }
                out.push("F".to_owned());
            }
            'V' | 'D' if arg.is_empty() => {
                let got = drain(&mut set, &mut held, &mut budget, ctx);
                if c == 'V' {
                    for id in &got {
                        set.free(*id);
                        held.remove(id);
                    }
                }
                out.push(format!("{}{}", c, id_ranges(&got)));
            }
            _ => return "bad-case".into(),
        }
    }
    out.join(",")
}

// ------------------------------------------------------------------------------------------------
// connection level
// ------------------------------------------------------------------------------------------------

#[derive(Default)]
pub(crate) struct Gate {
    closed: bool,
    /// writes and flushes fail from now on (`w`)
    fail: bool,
    waker: Option<Waker>,
}

/// The client's end of the in-memory stream; writes (and flushes) pend while the gate is closed.
pub(crate) struct Gated {
    inner: DuplexStream,
    gate: Arc<Mutex<Gate>>,
}

impl AsyncRead for Gated {
    fn poll_read(mut self: Pin<&mut Self>, cx: &mut Context<'_>, buf: &mut ReadBuf<'_>) -> Poll<std::io::Result<()>> {
        Pin::new(&mut self.inner).poll_read(cx, buf)
    }
}

impl AsyncWrite for Gated {
    fn poll_write(mut self: Pin<&mut Self>, cx: &mut Context<'_>, buf: &[u8]) -> Poll<std::io::Result<usize>> {
        {
            let mut g = self.gate.lock().unwrap();
            if g.fail {
                return Poll::Ready(Err(std::io::Error::from(std::io::ErrorKind::BrokenPipe)));
            }
            if g.closed {
                g.waker = Some(cx.waker().clone());
                return Poll::Pending;
            }
        }
        Pin::new(&mut self.inner).poll_write(cx, buf)
    }
    fn poll_flush(mut self: Pin<&mut Self>, cx: &mut Context<'_>) -> Poll<std::io::Result<()>> {
        {
            let mut g = self.gate.lock().unwrap();
            if g.fail {
                return Poll::Ready(Err(std::io::Error::from(std::io::ErrorKind::BrokenPipe)));
            }
            if g.closed {
                g.waker = Some(cx.waker().clone());
                return Poll::Pending;
            }
        }
        Pin::new(&mut self.inner).poll_flush(cx)
    }
    fn poll_shutdown(mut self: Pin<&mut Self>, cx: &mut Context<'_>) -> Poll<std::io::Result<()>> {
        Pin::new(&mut self.inner).poll_shutdown(cx)
    }
}

type ReqFuture = Pin<Box<dyn Future<Output = Result<RawResponse, String>>>>;

pub(crate) const SETTLE_YIELDS: usize = 16;

pub(crate) async fn settle() {
    for _ in 0..SETTLE_YIELDS {
        tokio::task::yield_now().await;
    }
}

pub(crate) fn response_frame(stream: i16, body: &[u8]) -> Vec<u8> {
    let mut f = vec![0x84u8, 0x00];
    f.extend_from_slice(&stream.to_be_bytes());
    f.push(0x08); // RESULT
    f.extend_from_slice(&(body.len() as u32).to_be_bytes());
    f.extend_from_slice(body);
    f
}

/// The deterministic schedule runner (shared with C10).
pub(crate) struct ConnSim {
    pub conn: Arc<RawConnection>,
    pub broken_rx: tokio::sync::oneshot::Receiver<String>,
    pub broken: Option<String>,
    pub gate: Arc<Mutex<Gate>>,
    pub server: Option<DuplexStream>,
    pub srv_buf: Vec<u8>,
    /// frames the server has read and not answered: (stream, body)
    pub unanswered: Vec<(i16, Vec<u8>)>,
    pub srv_log: Vec<i16>,
    pub futures: Vec<Option<ReqFuture>>,
    pub outcomes: Vec<Option<String>>,
    /// every whole response frame the server has sent: (stream, body)
    /// every whole response frame the server has sent: (addressee = tag of the unanswered request frame that
    /// the server had read on that stream at that moment, stream, body)
    pub sent: Vec<(Option<Vec<u8>>, i16, Vec<u8>)>,
    /// flags and opcode of the entries of `sent` that came from raw bytes (`b<hex>`): (index in `sent`, flags, opcode)
    pub raw_hdr: Vec<(usize, u8, u8)>,
    pub keepalive_on: bool,
    /// raw bytes sent with `b` since the last frame boundary
    pub raw_tail: Vec<u8>,
    /// set when the server closed the stream or sent a frame on a stream nobody waits on
    pub must_break: Option<String>,
    /// labels of the events the connection forwarded (only with an event sender)
    pub events_rx: Option<tokio::sync::mpsc::Receiver<String>>,
    pub events_seen: Vec<String>,
    /// the reader may be blocked by this test's own doing (an event channel with one slot that nobody drains): the
    /// "answered / closed, so it must complete / break" oracles do not apply
    pub reader_may_block: bool,
    /// Some(why) as soon as the schedule contains anything that entitles the connection to break: the peer closing,
    /// an ill-formed frame, a frame on a stream that is not outstanding, failing writes, keep-alive, time (orphan
    /// threshold). While it is None every byte the server sent is part of a well-formed frame answering an
    /// outstanding request (or an event-stream frame nobody listens to), and the connection has to stay up.
    pub may_break: Option<String>,
}

/// The body of a BIG answer (`B` op): a fixed pattern; when a victim stream is given and the body is long enough, the
/// bytes from offset 2^20 on LOOK like a whole response frame for that stream (a reader that stops reading this body
/// after 1 MiB would parse them as the next frame and hand them to the victim).
pub(crate) fn big_body(len: usize, victim: Option<i16>) -> Vec<u8> {
    let mut b: Vec<u8> = (0..len).map(|i| (i % 251) as u8).collect();
    if let Some(vs) = victim {
        if len >= (1 << 20) + 17 {
            let f = response_frame(vs, &[0xEE; 8]);
            b[(1 << 20)..(1 << 20) + 17].copy_from_slice(&f);
        }
    }
    b
}

pub(crate) fn tag_of(body: &[u8]) -> String {
    if body.len() > 64 {
        // long bodies are printed as length + FNV-1a
        let mut h: u32 = 2166136261;
        for b in body {
            h = (h ^ *b as u32).wrapping_mul(16777619);
        }
        return format!("big:{}:{}", body.len(), h);
    }
    if body.len() == 8 {
        let t = u64::from_be_bytes(body.try_into().unwrap());
        if t == u64::MAX { "unsolicited".to_owned() } else { t.to_string() }
    } else {
        format!("?{}", crate::util::hex(body))
    }
}

impl ConnSim {
    pub fn new(write_coalescing: bool, keepalive: Option<(Duration, Duration)>) -> Self {
        Self::new_ev(write_coalescing, keepalive, false)
    }

    /// `events`: the connection gets an event sender (frames on stream -1 go through `handle_event`).
    pub fn new_ev(write_coalescing: bool, keepalive: Option<(Duration, Duration)>, events: bool) -> Self {
        Self::new_ev_mode(write_coalescing, keepalive, if events { Some(0) } else { None })
    }

    /// `events`: `Some(mode)` = an event sender whose channel is drained (0), has lost its receiver (1), or has one
    /// slot and is never drained (2).
    pub fn new_ev_mode(write_coalescing: bool, keepalive: Option<(Duration, Duration)>, events: Option<u8>) -> Self {
        Self::new_full(write_coalescing, keepalive, events, None)
    }

    /// The writer coalesces with `WriteCoalescingDelay::Milliseconds(ms)`.
    pub fn new_coalescing_ms(ms: u64) -> Self {
        Self::new_full(true, None, None, Some(ms))
    }

    fn new_full(write_coalescing: bool, keepalive: Option<(Duration, Duration)>, events: Option<u8>, coalescing_ms: Option<u64>) -> Self {
        let (client, server) = tokio::io::duplex(1 << 22);
        let gate = Arc::new(Mutex::new(Gate::default()));
        let gated = Gated { inner: client, gate: gate.clone() };
        let (conn, broken_rx, events_rx) = if let Some(ms) = coalescing_ms {
            let (c, b) = RawConnection::spawn_with_coalescing(gated, None, None, Some(ms));
            (c, b, None)
        } else if let Some(mode) = events {
            let (c, b, e) = RawConnection::spawn_with_events_mode(
                gated,
                keepalive.map(|k| k.0),
                keepalive.map(|k| k.1),
                write_coalescing,
                mode,
            );
            (c, b, Some(e))
        } else {
            let (c, b) = RawConnection::spawn(gated, keepalive.map(|k| k.0), keepalive.map(|k| k.1), write_coalescing);
            (c, b, None)
        };
        ConnSim {
            events_rx,
            events_seen: Vec::new(),
            reader_may_block: events == Some(2),
            may_break: if keepalive.is_some() {
                Some("keep-alive is on".to_owned())
            } else if events.is_some() {
                Some("an event sender is registered".to_owned())
            } else {
                None
            },
            conn: Arc::new(conn),
            broken_rx,
            broken: None,
            gate,
            server: Some(server),
            srv_buf: Vec::new(),
            unanswered: Vec::new(),
            srv_log: Vec::new(),
            futures: Vec::new(),
            outcomes: Vec::new(),
            sent: Vec::new(),
            raw_tail: Vec::new(),
            raw_hdr: Vec::new(),
            keepalive_on: keepalive.is_some(),
            must_break: None,
        }
    }

    fn outcome_string(&self, k: usize, res: Result<RawResponse, String>, ctx: &mut Ctx) -> String {
        match res {
            Ok(resp) => {
                // ORACLE: the frame handed to request k is a frame the server sent, in full, in answer to the
                // request frame carrying k's tag (on the stream that frame arrived with) — and no other
                let own = (k as u64).to_be_bytes().to_vec();
                if !self
                    .sent
                    .iter()
                    .any(|(to, s, b)| to.as_ref() == Some(&own) && *s == resp.stream && *b == resp.body)
                {
                    ctx.fail(format!(
                        "request {} completed with a frame the server did not send in answer to it (stream {}, body {})",
                        k,
                        resp.stream,
                        tag_of(&resp.body)
                    ));
                }
                format!("ok:{}", tag_of(&resp.body))
            }
            Err(label) => format!("err:{}", label),
        }
    }

    /// Poll request k's future once.
    pub fn poll_req(&mut self, k: usize, ctx: &mut Ctx) {
        let Some(slot) = self.futures.get_mut(k) else { return };
        let Some(fut) = slot.as_mut() else { return };
        let waker = futures::task::noop_waker();
        let mut cx = Context::from_waker(&waker);
        if let Poll::Ready(res) = fut.as_mut().poll(&mut cx) {
            *slot = None;
            let s = self.outcome_string(k, res, ctx);
            self.outcomes[k] = Some(s);
        }
    }

    pub fn submit(&mut self, ctx: &mut Ctx) -> usize {
        let k = self.futures.len();
        let conn = self.conn.clone();
        let body = (k as u64).to_be_bytes().to_vec();
        let fut: ReqFuture = Box::pin(async move { conn.send_raw(body).await });
        self.futures.push(Some(fut));
        self.outcomes.push(None);
        self.poll_req(k, ctx);
        k
    }

    pub fn cancel(&mut self, k: usize) {
        if let Some(slot) = self.futures.get_mut(k) {
            if slot.take().is_some() {
                self.outcomes[k] = Some("cancelled".to_owned());
            }
        }
    }

    /// The server reads whatever the client has written so far.
    pub fn server_read(&mut self, ctx: &mut Ctx) {
        let Some(server) = self.server.as_mut() else { return };
        loop {
            match server.read_buf(&mut self.srv_buf).now_or_never() {
                Some(Ok(n)) if n > 0 => continue,
                _ => break,
            }
        }
        while self.srv_buf.len() >= 9 {
            let len = u32::from_be_bytes(self.srv_buf[5..9].try_into().unwrap()) as usize;
            if self.srv_buf.len() < 9 + len {
                break;
            }
            let frame: Vec<u8> = self.srv_buf.drain(..9 + len).collect();
            let stream = i16::from_be_bytes([frame[2], frame[3]]);
            if frame[0] != 0x04 {
                ctx.fail(format!("request frame with version byte {:#x}", frame[0]));
            }
            // ORACLE: a stream number is never carried by two requests that are both still unanswered
            if self.unanswered.iter().any(|(s, _)| *s == stream) {
                ctx.fail(format!("stream id {} carried by two requests that are both still unanswered by the server", stream));
            }
            self.srv_log.push(stream);
            self.unanswered.push((stream, frame[9..].to_vec()));
        }
    }

    pub async fn server_write(&mut self, bytes: &[u8]) {
        if let Some(server) = self.server.as_mut() {
            let _ = server.write_all(bytes).await;
            let _ = server.flush().await;
        }
    }

    pub fn poll_broken(&mut self) {
        if self.broken.is_none() {
            if let Ok(label) = self.broken_rx.try_recv() {
                self.broken = Some(label);
            }
        }
    }

    pub fn set_gate(&mut self, closed: bool) {
        let mut g = self.gate.lock().unwrap();
        g.closed = closed;
        if !closed {
            if let Some(w) = g.waker.take() {
                w.wake();
            }
        }
    }

    pub fn gate_closed(&self) -> bool {
        self.gate.lock().unwrap().closed
    }

    pub async fn settle(&mut self, ctx: &mut Ctx) {
        settle().await;
        self.server_read(ctx);
        self.poll_broken();
        if let Some(rx) = self.events_rx.as_mut() {
            while let Ok(label) = rx.try_recv() {
                self.events_seen.push(label);
            }
        }
    }

    /// Account for raw bytes sent by the server: whole frames answer the unanswered entry on their stream.
    fn account_raw(&mut self, bytes: &[u8]) {
        self.raw_tail.extend_from_slice(bytes);
        while self.raw_tail.len() >= 9 {
            let len = u32::from_be_bytes(self.raw_tail[5..9].try_into().unwrap()) as usize;
            if self.raw_tail.len() < 9 + len {
                break;
            }
            let frame: Vec<u8> = self.raw_tail.drain(..9 + len).collect();
            let stream = i16::from_be_bytes([frame[2], frame[3]]);
            let to = self.unanswered.iter().position(|(s, _)| *s == stream).map(|i| self.unanswered.remove(i).1);
            let known_opcode = matches!(frame[4], 0x00 | 0x02 | 0x03 | 0x06 | 0x08 | 0x0C | 0x0E | 0x10);
            if frame[0] != 0x84 || !known_opcode {
                self.may_break.get_or_insert_with(|| "the server sent an ill-formed frame header".to_owned());
            } else if stream >= 0 && to.is_none() {
                self.may_break.get_or_insert_with(|| format!("the server sent a frame on stream {} that is not outstanding", stream));
            }
            self.raw_hdr.push((self.sent.len(), frame[1], frame[4]));
            self.sent.push((to, stream, frame[9..].to_vec()));
        }
    }

    pub async fn op(&mut self, op: &str, ctx: &mut Ctx) -> bool {
        let Some((c, arg)) = split_op(op) else { return false };
        match c {
            // `B<j>:<len>:<k>:<cut>`: the server answers the j-th unanswered request with a body of `len` bytes
            // (`big_body`, the tail addressed to the k-th unanswered request's stream), written at once (cut = 0) or in
            // two writes
            'B' => {
                let f: Vec<usize> = arg.split(':').filter_map(|x| x.parse::<usize>().ok()).collect();
                if f.len() != 4 || arg.split(':').count() != 4 || f[1] < 65 || f[1] > (8 << 20) || self.events_rx.is_some() || self.keepalive_on {
                    return false;
                }
                let (j, len, k, cut) = (f[0], f[1], f[2], f[3]);
                if self.server.is_none() || !self.raw_tail.is_empty() || j >= self.unanswered.len() {
                    return true;
                }
                let victim = if k != j && k < self.unanswered.len() { Some(self.unanswered[k].0) } else { None };
                let (s, req) = self.unanswered.remove(j);
                let body = big_body(len, victim);
                let frame = response_frame(s, &body);
                self.sent.push((Some(req), s, body));
                if cut > 0 && cut < frame.len() {
                    self.server_write(&frame[..cut]).await;
                    self.settle(ctx).await;
                    self.server_write(&frame[cut..]).await;
                } else {
                    self.server_write(&frame).await;
                }
                self.settle(ctx).await;
                // a body of several MiB crosses the in-memory pipe in pieces: give the reader its turns
                for _ in 0..8 {
                    self.settle(ctx).await;
                }
                true
            }
            's' | 'S' | 'g' | 'G' | 'x' | 'w' | 'h' => {
                if !arg.is_empty() {
                    return false;
                }
                match c {
                    's' => {
                        self.submit(ctx);
                    }
                    'S' => {
                        let k = self.submit(ctx);
                        self.cancel(k);
                    }
                    'g' => {
                        self.set_gate(true);
                        return true;
                    }
                    'G' => self.set_gate(false),
                    // `Connection::trigger_keepalive` (the pool calls it on a STATUS_CHANGE DOWN event)
                    'h' => self.conn.trigger_keepalive(),
                    'w' => {
                        self.may_break.get_or_insert_with(|| "the client's writes fail".to_owned());
                        let mut g = self.gate.lock().unwrap();
                        g.fail = true;
                        if let Some(w) = g.waker.take() {
                            w.wake();
                        }
                    }
                    _ => {
                        self.may_break.get_or_insert_with(|| "the server closed the connection".to_owned());
                        if self.server.take().is_some() && self.broken.is_none() {
                            self.must_break = Some("the server closed the connection".to_owned());
                        }
                    }
                }
                self.settle(ctx).await;
                true
            }
            'b' => {
                let Some(bytes) = crate::util::unhex(arg) else { return false };
                if self.server.is_none() {
                    return true;
                }
                self.server_write(&bytes).await;
                self.account_raw(&bytes);
                self.settle(ctx).await;
                true
            }
            'u' => {
                let Ok(s) = arg.parse::<i64>() else { return false };
                if !(-32768..=32767).contains(&s) {
                    return false;
                }
                let s = s as i16;
                let body = u64::MAX.to_be_bytes();
                if s < 0 {
                    // negative streams (events) are ignored by the reader; nothing to account for
                    if self.server.is_some() && self.raw_tail.is_empty() {
                        self.server_write(&response_frame(s, &body)).await;
                        self.settle(ctx).await;
                    }
                    return true;
                }
                if self.server.is_none() || !self.raw_tail.is_empty() {
                    return true;
                }
                if self.unanswered.iter().any(|(st, _)| *st == s) {
                    return true;
                }
                if self.gate_closed() && s < 2000 {
                    return true; // might be allocated to a frame the server has not seen: not "unsolicited"
                }
                self.sent.push((None, s, body.to_vec()));
                self.may_break.get_or_insert_with(|| format!("the server sent a frame on stream {} that nobody waits on", s));
                if self.broken.is_none() {
                    self.must_break = Some(format!("the server sent a frame on stream {} that nobody waits on", s));
                }
                self.server_write(&response_frame(s, &body)).await;
                self.settle(ctx).await;
                true
            }
            'C' => {
                // drop the future and do NOT let the router run: the orphan notice races the next operation
                let Ok(n) = arg.parse::<usize>() else { return false };
                self.cancel(n);
                true
            }
            'c' | 'p' | 'r' | 't' => {
                let Ok(n) = arg.parse::<usize>() else { return false };
                match c {
                    't' => {
                        self.may_break.get_or_insert_with(|| "time passes (orphan threshold)".to_owned());
                        tokio::time::advance(Duration::from_millis(n as u64)).await
                    }
                    'c' => self.cancel(n),
                    'p' => self.poll_req(n, ctx),
                    _ => {
                        if self.server.is_none() || !self.raw_tail.is_empty() {
                            return true;
                        }
                        if n < self.unanswered.len() {
                            let (s, body) = self.unanswered.remove(n);
                            self.sent.push((Some(body.clone()), s, body.clone()));
                            self.server_write(&response_frame(s, &body)).await;
                        } else {
                            return true;
                        }
                    }
                }
                self.settle(ctx).await;
                true
            }
            _ => false,
        }
    }

    /// End of the schedule: open the gate, let everything run, poll every request once more.
    pub async fn finish(&mut self, ctx: &mut Ctx) -> String {
        if self.gate_closed() {
            self.set_gate(false);
        }
        self.settle(ctx).await;
        // (poll every future, let the router run) x 3, then poll again: a caller that was parked at the full submit
        // channel pushes its task when polled, the writer then writes it.
        // tokio's cooperative budget lets one task poll complete at most 128 channel operations: yield between
        // batches so that every ready future is really observed
        for _ in 0..3 {
            for k in 0..self.futures.len() {
                self.poll_req(k, ctx);
                if k % 64 == 63 {
                    tokio::task::yield_now().await;
                }
            }
            self.settle(ctx).await;
        }
        for k in 0..self.futures.len() {
            self.poll_req(k, ctx);
            if k % 64 == 63 {
                tokio::task::yield_now().await;
            }
        }
        self.poll_broken();
        // ORACLE (C10): the peer closed / sent an unsolicited frame ⇒ the connection is reported broken; and once
        // it is broken no request is left hanging
        // ORACLE (C02/C10): a connection does not break while every byte the server sent belongs to a well-formed
        // frame that answers an outstanding request - however the frames were cut into pieces and whatever the
        // callers did in between
        if let (None, Some(kind), true) = (&self.may_break, &self.broken, self.raw_tail.is_empty()) {
            ctx.fail(format!(
                "the connection broke ({}) although the server only sent whole, well-formed answers to outstanding requests",
                kind
            ));
        }
        if let (Some(why), None, false) = (&self.must_break, &self.broken, self.reader_may_block) {
            ctx.fail(format!("{} but the connection was not broken", why));
        }
        if self.broken.is_some() {
            for (k, o) in self.outcomes.iter().enumerate() {
                if o.is_none() {
                    ctx.fail(format!("request {} still pending after the connection broke", k));
                }
            }
        }
        // ORACLE: a request whose answer the server sent in full on the stream that carried it, that was not
        // abandoned, on a connection that did not break, has completed with that answer
        if self.broken.is_none() && !self.reader_may_block {
            for (k, o) in self.outcomes.iter().enumerate() {
                let own = (k as u64).to_be_bytes().to_vec();
                if let Some((_, _, body)) = self.sent.iter().find(|(to, _, _)| to.as_ref() == Some(&own)) {
                    let want = format!("ok:{}", tag_of(body));
                    if o.as_deref() != Some("cancelled") && o.as_deref() != Some(&want) {
                        ctx.fail(format!(
                            "request {} was answered by the server but ended as {:?} on a healthy connection",
                            k, o
                        ));
                    }
                }
            }
        }
        let mut parts: Vec<String> = Vec::new();
        for (k, o) in self.outcomes.iter().enumerate() {
            parts.push(format!("{}={}", k, o.clone().unwrap_or_else(|| "pending".to_owned())));
        }
        let callers = if parts.is_empty() { "-".to_owned() } else { parts.join(" ") };
        format!(
            "{} | srv={} | broken={}",
            callers,
            crate::util::nat_list(&self.srv_log),
            self.broken.clone().unwrap_or_else(|| "-".to_owned())
        )
    }
}

pub(crate) fn runtime() -> tokio::runtime::Runtime {
    tokio::runtime::Builder::new_current_thread()
        .enable_time()
        .start_paused(true)
        .build()
        .unwrap()
}

fn run_conn(wc: bool, ops: &[&str], ctx: &mut Ctx) -> String {
    let rt = runtime();
    rt.block_on(async {
        let mut sim = ConnSim::new(wc, None);
        settle().await;
        for op in ops {
            if !sim.op(op, ctx).await {
                return "bad-case".to_owned();
            }
        }
        sim.finish(ctx).await
    })
}

/// `conn m<ms> …`: `WriteCoalescingDelay::Milliseconds(ms)`; the schedule ends with two sleeps' worth of virtual time.
fn run_conn_ms(ms: u64, ops: &[&str], ctx: &mut Ctx) -> String {
    if ms == 0 || ms > 1000 || ops.iter().any(|o| o.starts_with(['g', 'G', 'w', 'u', 'b'])) {
        return "bad-case".to_owned();
    }
    let rt = runtime();
    rt.block_on(async {
        let mut sim = ConnSim::new_coalescing_ms(ms);
        settle().await;
        let t = format!("t{}", ms);
        for op in ops.iter().copied().chain([t.as_str(), t.as_str()]) {
            if !sim.op(op, ctx).await {
                return "bad-case".to_owned();
            }
        }
        sim.finish(ctx).await
    })
}

pub fn run(case: &str, ctx: &mut Ctx) -> String {
    let w: Vec<&str> = case.split_whitespace().collect();
    fn ops<'a>(s: Option<&&'a str>) -> Vec<&'a str> {
        s.map(|s| s.split(';').filter(|o| !o.is_empty()).collect()).unwrap_or_default()
    }
    match w.first().copied() {
        Some("map") if w.len() <= 2 => run_map(&ops(w.get(1)), ctx),
        Some("ids") if w.len() <= 2 => run_ids(&ops(w.get(1)), ctx),
        Some("conn") if (w.len() == 2 || w.len() == 3) && (w[1] == "0" || w[1] == "1") => {
            run_conn(w[1] == "1", &ops(w.get(2)), ctx)
        }
        Some("conn") if w.len() == 3 && w[1].starts_with('m') => match w[1][1..].parse::<u64>() {
            Ok(ms) => run_conn_ms(ms, &ops(w.get(2)), ctx),
            Err(_) => "bad-case".to_owned(),
        },
        // the same schedule language, judged by the oracles only (the model's line is the constant `connx`)
        Some("connx") if (w.len() == 2 || w.len() == 3) && (w[1] == "0" || w[1] == "1") => {
            if run_conn(w[1] == "1", &ops(w.get(2)), ctx) == "bad-case" { "bad-case".to_owned() } else { "connx".to_owned() }
        }
        _ => "bad-case".to_owned(),
    }
}

pub fn hex(bs: &[u8]) -> String {
    if bs.is_empty() {
        return "-".to_owned();
    }
    let mut s = String::with_capacity(bs.len() * 2);
    for b in bs {
        s.push_str(&format!("{:02x}", b));
    }
    s
}

pub fn unhex(s: &str) -> Option<Vec<u8>> {
    if s == "-" {
        return Some(vec![]);
    }
    if s.len() % 2 != 0 {
        return None;
    }
    (0..s.len())
        .step_by(2)
        .map(|i| u8::from_str_radix(s.get(i..i + 2)?, 16).ok())
        .collect()
}

pub fn nat_list<T: std::fmt::Display>(xs: &[T]) -> String {
    if xs.is_empty() {
        "-".to_owned()
    } else {
        xs.iter().map(|x| x.to_string()).collect::<Vec<_>>().join(",")
    }
}

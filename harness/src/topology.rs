//! Cluster topologies and replication strategies on the case line (shared by C04 / C05 / C12).
//! Syntax (the Lean side is `lean/ScyllaVerif/Drive/Topology.lean`):
//!
//! ```text
//! topology  := peer (";" peer)*            | "-"
//! peer      := id ":" dc ":" rack ":" tokens [":" flags]
//! dc, rack  := decimal | "-"               ("-" = None; Rust names "dc<n>" / "r<n>")
//! tokens    := i64 ("," i64)* | "-"
//! strategy  := "S" rf | "N" (dc "=" rf ("," dc "=" rf)*)? | "L" | "O"
//! strategies:= strategy ("|" strategy)*    | "-"        (keyspaces k0, k1, ...)
//! ```
use crate::rng::Rng;
use scylla::cluster::ClusterState;
use scylla::cluster::metadata::Strategy;
use scylla::verif_hooks::cluster::{
    KeyspaceSpec, NodeSpec, cluster_from_topology, cluster_refresh, cluster_refresh_accepting, cluster_refresh_topology,
    cluster_refresh_topology_accepting, cluster_refresh_topology_filtered, cluster_state_filtered, cluster_state_general,
    ADDRESS_INDEX_OVERRIDE, node_has_pool, set_sharders,
};
use std::collections::HashMap;
use uuid::Uuid;

#[derive(Clone, Debug, PartialEq, Eq)]
pub struct PeerSpec {
    pub id: u64,
    pub dc: Option<u32>,
    pub rack: Option<u32>,
    pub tokens: Vec<i64>,
    /// free word (C05: liveness); empty = absent
    pub flags: String,
}

/// Strategy on the case line (DC names are numbers).
#[derive(Clone, Debug, PartialEq, Eq)]
pub enum Strat {
    Simple(usize),
    Nts(Vec<(u32, usize)>),
    Local,
    Other,
}

pub fn dc_name(dc: u32) -> String {
    format!("dc{}", dc)
}
pub fn rack_name(r: u32) -> String {
    format!("r{}", r)
}
pub fn host_id(id: u64) -> Uuid {
    Uuid::from_u128(id as u128)
}
pub fn node_id(host: Uuid) -> u64 {
    host.as_u128() as u64
}

fn opt_num(s: &str) -> Option<Option<u32>> {
    if s == "-" { Some(None) } else { s.parse().ok().map(Some) }
}
fn fmt_opt(o: Option<u32>) -> String {
    o.map(|x| x.to_string()).unwrap_or_else(|| "-".into())
}

pub fn parse_topology(s: &str) -> Option<Vec<PeerSpec>> {
    if s == "-" {
        return Some(vec![]);
    }
    let mut out: Vec<PeerSpec> = Vec::new();
    for p in s.split(';') {
        let f: Vec<&str> = p.split(':').collect();
        if f.len() != 4 && f.len() != 5 {
            return None;
        }
        let tokens = if f[3] == "-" {
            vec![]
        } else {
            f[3].split(',').map(|t| t.parse::<i64>().ok()).collect::<Option<Vec<_>>>()?
        };
        let id = f[0].parse().ok()?;
        if out.iter().any(|q| q.id == id) {
            return None;
        }
        out.push(PeerSpec {
            id,
            dc: opt_num(f[1])?,
            rack: opt_num(f[2])?,
            tokens,
            flags: f.get(4).map(|s| s.to_string()).unwrap_or_default(),
        });
    }
    Some(out)
}

pub fn fmt_topology(peers: &[PeerSpec]) -> String {
    if peers.is_empty() {
        return "-".into();
    }
    peers
        .iter()
        .map(|p| {
            let toks = if p.tokens.is_empty() {
                "-".to_owned()
            } else {
                p.tokens.iter().map(|t| t.to_string()).collect::<Vec<_>>().join(",")
            };
            let mut s = format!("{}:{}:{}:{}", p.id, fmt_opt(p.dc), fmt_opt(p.rack), toks);
            if !p.flags.is_empty() {
                s.push(':');
                s.push_str(&p.flags);
            }
            s
        })
        .collect::<Vec<_>>()
        .join(";")
}

pub fn parse_strategy(s: &str) -> Option<Strat> {
    match s {
        "L" => Some(Strat::Local),
        "O" => Some(Strat::Other),
        "N" => Some(Strat::Nts(vec![])),
        _ if s.starts_with('S') => s[1..].parse().ok().map(Strat::Simple),
        _ if s.starts_with('N') => {
            let mut v: Vec<(u32, usize)> = Vec::new();
            for e in s[1..].split(',') {
                let (dc, rf) = e.split_once('=')?;
                let dc = dc.parse().ok()?;
                if v.iter().any(|(d, _)| *d == dc) {
                    return None;
                }
                v.push((dc, rf.parse().ok()?));
            }
            Some(Strat::Nts(v))
        }
        _ => None,
    }
}

pub fn fmt_strategy(s: &Strat) -> String {
    match s {
        Strat::Local => "L".into(),
        Strat::Other => "O".into(),
        Strat::Simple(rf) => format!("S{}", rf),
        Strat::Nts(v) => format!(
            "N{}",
            v.iter().map(|(d, r)| format!("{}={}", d, r)).collect::<Vec<_>>().join(",")
        ),
    }
}

pub fn parse_strategies(s: &str) -> Option<Vec<Strat>> {
    if s == "-" {
        return Some(vec![]);
    }
    s.split('|').map(parse_strategy).collect()
}

pub fn fmt_strategies(v: &[Strat]) -> String {
    if v.is_empty() {
        "-".into()
    } else {
        v.iter().map(fmt_strategy).collect::<Vec<_>>().join("|")
    }
}

/// The driver's `Strategy` value.
pub fn to_strategy(s: &Strat) -> Strategy {
    match s {
        Strat::Simple(rf) => Strategy::SimpleStrategy { replication_factor: *rf },
        Strat::Nts(v) => Strategy::NetworkTopologyStrategy {
            datacenter_repfactors: v.iter().map(|(d, r)| (dc_name(*d), *r)).collect(),
        },
        Strat::Local => Strategy::LocalStrategy,
        Strat::Other => Strategy::Other { name: "org.example.CustomStrategy".into(), data: HashMap::new() },
    }
}

thread_local! {
    static RT: tokio::runtime::Runtime =
        tokio::runtime::Builder::new_current_thread().enable_all().build().unwrap();
}

/// Address group of a peer: flag `g<k>` (one digit).  Peers of one group share ONE address (nodes behind a NAT /
/// proxy address, told apart by host id only); the others have the address of their position in the list.
pub fn addr_group(p: &PeerSpec) -> Option<u16> {
    let i = p.flags.find('g')?;
    p.flags[i + 1..].chars().next()?.to_digit(10).map(|d| 200 + d as u16)
}

/// While alive, the hooks derive the addresses of the grouped peers from their group (process-wide static).
pub struct AddrGuard;
impl AddrGuard {
    pub fn new(peers: &[PeerSpec]) -> AddrGuard {
        let m: HashMap<Uuid, u16> = peers.iter().filter_map(|p| addr_group(p).map(|g| (host_id(p.id), g))).collect();
        *ADDRESS_INDEX_OVERRIDE.lock().unwrap() = if m.is_empty() { None } else { Some(m) };
        AddrGuard
    }
}
impl Drop for AddrGuard {
    fn drop(&mut self) {
        *ADDRESS_INDEX_OVERRIDE.lock().unwrap() = None;
    }
}

fn node_specs(peers: &[PeerSpec]) -> Vec<NodeSpec> {
    peers
        .iter()
        .map(|p| NodeSpec {
            host_id: host_id(p.id),
            datacenter: p.dc.map(dc_name),
            rack: p.rack.map(rack_name),
            tokens: p.tokens.clone(),
            enabled: !p.flags.contains('d'),
            connected: !p.flags.contains('x'),
        })
        .collect()
}

fn keyspace_specs(keyspaces: &[Strat]) -> Vec<KeyspaceSpec> {
    keyspaces
        .iter()
        .enumerate()
        .map(|(i, s)| KeyspaceSpec { name: format!("k{}", i), strategy: to_strategy(s) })
        .collect()
}

/// Flags word: contains 'd' = disabled by the host filter, 'x' = not connected (C05); default enabled+connected.
/// A node's address is derived from its position in `peers`.
pub fn build_cluster(peers: &[PeerSpec], keyspaces: &[Strat]) -> ClusterState {
    let _addr = AddrGuard::new(peers);
    RT.with(|rt| rt.block_on(cluster_from_topology(&node_specs(peers), &keyspace_specs(keyspaces))))
}

/// A full metadata refresh of `previous` (`ClusterState::new_updated`): new peers and new keyspaces.
pub fn refresh_cluster(previous: &ClusterState, peers: &[PeerSpec], keyspaces: &[Strat]) -> ClusterState {
    let _addr = AddrGuard::new(peers);
    RT.with(|rt| rt.block_on(cluster_refresh(previous, &node_specs(peers), &keyspace_specs(keyspaces), &HashMap::new())))
}

/// A topology-only refresh of `previous` (`ClusterState::new_with_updated_topology`): keyspaces are kept.
pub fn refresh_cluster_topology(previous: &ClusterState, peers: &[PeerSpec]) -> ClusterState {
    let _addr = AddrGuard::new(peers);
    RT.with(|rt| rt.block_on(cluster_refresh_topology(previous, &node_specs(peers))))
}

/// `S3|!|N0=2`: keyspace `k<i>` = the i-th entry; `!` = the fetch of that keyspace failed (or: it is absent).
pub fn parse_fetched(s: &str) -> Option<Vec<Option<Strat>>> {
    if s == "-" {
        return Some(vec![]);
    }
    s.split('|').map(|w| if w == "!" { Some(None) } else { parse_strategy(w).map(Some) }).collect()
}

pub fn fmt_fetched(v: &[Option<Strat>]) -> String {
    if v.is_empty() {
        "-".into()
    } else {
        v.iter().map(|o| o.as_ref().map(fmt_strategy).unwrap_or_else(|| "!".into())).collect::<Vec<_>>().join("|")
    }
}

/// `ClusterState::new` (`previous = None`) or `previous.new_updated(..)` with per-keyspace fetch errors: entry `i`
/// of `fetched` is keyspace `k<i>`; `None` puts an `Err` into `Metadata.keyspaces`, so that
/// `resolve_metadata_keyspaces` keeps the previous state's definition or drops the keyspace.
pub fn build_state_general(
    previous: Option<(&ClusterState, &[PeerSpec])>,
    peers: &[PeerSpec],
    fetched: &[Option<Strat>],
    accepting: bool,
) -> ClusterState {
    let _addr = AddrGuard::new(peers);
    let ks: Vec<KeyspaceSpec> = fetched
        .iter()
        .enumerate()
        .filter_map(|(i, s)| s.as_ref().map(|s| KeyspaceSpec { name: format!("k{}", i), strategy: to_strategy(s) }))
        .collect();
    let failed: Vec<String> = fetched.iter().enumerate().filter(|(_, s)| s.is_none()).map(|(i, _)| format!("k{}", i)).collect();
    if let (Some((prev, prev_peers)), true) = (previous, accepting) {
        reimpose(prev, prev_peers);
    }
    RT.with(|rt| {
        rt.block_on(cluster_state_general(
            previous.map(|p| p.0),
            &node_specs(peers),
            &ks,
            &HashMap::new(),
            &HashMap::new(),
            &failed,
            accepting,
        ))
    })
}

/// The peers the host filter accepts in a filtered refresh: flag `a`.
fn accepted_ids(peers: &[PeerSpec]) -> Vec<Uuid> {
    peers.iter().filter(|p| p.flags.contains('a')).map(|p| host_id(p.id)).collect()
}

/// As `build_state_general` with a per-peer host-filter verdict (flag `a` = accepted) and WITHOUT clearing the
/// enabled-ness of the previous nodes: an old node is enabled iff its last spec said so (flag `d` = disabled).
pub fn build_state_filtered(previous: Option<(&ClusterState, &[PeerSpec])>, peers: &[PeerSpec], fetched: &[Option<Strat>]) -> ClusterState {
    let _addr = AddrGuard::new(peers);
    let ks: Vec<KeyspaceSpec> = fetched
        .iter()
        .enumerate()
        .filter_map(|(i, s)| s.as_ref().map(|s| KeyspaceSpec { name: format!("k{}", i), strategy: to_strategy(s) }))
        .collect();
    let failed: Vec<String> = fetched.iter().enumerate().filter(|(_, s)| s.is_none()).map(|(i, _)| format!("k{}", i)).collect();
    if let Some((prev, prev_peers)) = previous {
        reimpose(prev, prev_peers);
    }
    RT.with(|rt| {
        rt.block_on(cluster_state_filtered(
            previous.map(|p| p.0),
            &node_specs(peers),
            &ks,
            &HashMap::new(),
            &HashMap::new(),
            &failed,
            &accepted_ids(peers),
        ))
    })
}

/// Topology-only refresh with the per-peer filter (see `build_state_filtered`).
pub fn refresh_topology_filtered(previous: &ClusterState, prev_peers: &[PeerSpec], peers: &[PeerSpec]) -> ClusterState {
    let _addr = AddrGuard::new(peers);
    reimpose(previous, prev_peers);
    RT.with(|rt| rt.block_on(cluster_refresh_topology_filtered(previous, &node_specs(peers), &accepted_ids(peers))))
}

/// Runs a future on the harness' runtime (hooks that are `async`).
pub fn block_on<F: std::future::Future>(f: F) -> F::Output {
    RT.with(|rt| rt.block_on(f))
}

/// Re-imposes the enabled / connected overrides of `previous`' nodes (an earlier rejecting refresh from the same
/// state may have cleared them on nodes it did not reuse), so that the accepting refreshes below meet enabled nodes.
fn reimpose(previous: &ClusterState, prev_peers: &[PeerSpec]) {
    for node in previous.get_nodes_info() {
        let id = node_id(node.host_id);
        let flags = prev_peers.iter().find(|p| p.id == id).map(|p| p.flags.as_str()).unwrap_or("");
        node.verif_override_state(!flags.contains('d'), !flags.contains('x'));
    }
}

/// As `refresh_cluster`, with a host filter accepting every peer: enabled nodes of `previous` take the accepted-node
/// arms of `calculate_new_topology` (reuse / `inherit_with_ip_changed`), changed and new nodes get `Node::new`.
pub fn refresh_cluster_accepting(
    previous: &ClusterState,
    prev_peers: &[PeerSpec],
    peers: &[PeerSpec],
    keyspaces: &[Strat],
) -> ClusterState {
    let _addr = AddrGuard::new(peers);
    reimpose(previous, prev_peers);
    RT.with(|rt| {
        rt.block_on(cluster_refresh_accepting(previous, &node_specs(peers), &keyspace_specs(keyspaces), &HashMap::new()))
    })
}

/// As `refresh_cluster_topology`, accepting every peer.
pub fn refresh_cluster_topology_accepting(previous: &ClusterState, prev_peers: &[PeerSpec], peers: &[PeerSpec]) -> ClusterState {
    let _addr = AddrGuard::new(peers);
    reimpose(previous, prev_peers);
    RT.with(|rt| rt.block_on(cluster_refresh_topology_accepting(previous, &node_specs(peers))))
}

/// Marks every node object of `state` (gives it a verification sharder).  `inherit_with_ip_changed` copies the
/// marker to the object it creates, `Node::new` / `Node::new_disabled` do not: after a refresh a marked node that
/// is not the previous `Arc` itself was inherited.  Call before refreshing from `state`.
pub fn mark_nodes(state: &ClusterState) {
    let m: HashMap<uuid::Uuid, (u16, u8)> = state.get_nodes_info().iter().map(|n| (n.host_id, (4u16, 12u8))).collect();
    set_sharders(state, &m);
}

/// Per peer of the new metadata, which arm of `calculate_new_topology`'s reuse match produced its node object:
/// `c` = the previous `Arc<Node>` itself, `i` = a new object inheriting the previous one (address changed),
/// `n` = a new node.  `previous` must have been marked (`mark_nodes`) before the refresh.
pub fn reuse_arms(previous: Option<&ClusterState>, state: &ClusterState, peers: &[PeerSpec]) -> String {
    if peers.is_empty() {
        return "-".into();
    }
    peers
        .iter()
        .map(|p| {
            let new = state.get_node_by_host_id(host_id(p.id));
            let old = previous.and_then(|s| s.get_node_by_host_id(host_id(p.id)));
            match (old, new) {
                (Some(o), Some(n)) if std::sync::Arc::ptr_eq(o, n) => 'c',
                (Some(_), Some(n)) if n.sharder().is_some() => 'i',
                (_, Some(_)) => 'n',
                (_, None) => '?',
            }
        })
        .collect()
}

/// Per peer, whether its node object in `state` really has a connection pool (`pool.is_some()`, not the
/// verification override behind `is_enabled()`): `1` / `0`, `?` = unknown host.
pub fn pool_presence(state: &ClusterState, peers: &[PeerSpec]) -> String {
    if peers.is_empty() {
        return "-".into();
    }
    peers
        .iter()
        .map(|p| match node_has_pool(state, host_id(p.id)) {
            Some(true) => '1',
            Some(false) => '0',
            None => '?',
        })
        .collect()
}

/// Does every node of `state` report the enabled-ness `enabled_of(host)` that equals its real pool presence?  (In
/// production `is_enabled()` is `pool.is_some()`; hook-built states override it.)
pub fn enabledness_is_real(state: &ClusterState, enabled_of: &dyn Fn(u64) -> bool) -> bool {
    state.get_nodes_info().iter().all(|n| Some(enabled_of(node_id(n.host_id))) == node_has_pool(state, n.host_id))
}

/// Shape of a generated topology.
#[derive(Clone, Copy, Debug)]
pub struct TopoShape {
    pub max_nodes: u64,
    pub max_dcs: u64,
    pub max_racks: u64,
    pub max_vnodes: u64,
    /// 0 = tokens pairwise distinct; 1 = some tokens shared by nodes of different datacenters;
    /// 2 = some tokens shared by arbitrary nodes (also within one datacenter)
    pub dups: u8,
}

pub const TOKEN_POOL: [i64; 9] =
    [i64::MIN, i64::MIN + 1, i64::MAX, i64::MAX - 1, -1, 0, 1, i64::MIN + 2, 1 << 62];

/// Random topology: 0..=max_nodes nodes, some without datacenter or rack, 0..=max_vnodes tokens each.
/// Tokens are pairwise distinct after `Token::new` normalisation, except (when `dups` allows) for a few tokens
/// deliberately shared between nodes (the servers refuse token collisions; the driver must stay consistent).
pub fn gen_topology(rng: &mut Rng, shape: TopoShape) -> Vec<PeerSpec> {
    let n = if rng.chance(1, 40) { 0 } else { rng.range(1, shape.max_nodes as i64) as u64 };
    let dcs = rng.range(1, shape.max_dcs as i64) as u32;
    let racks = rng.range(0, shape.max_racks as i64) as u32;
    // dc numbers need not be contiguous nor start at 0
    let dc_ids: Vec<u32> = if rng.chance(1, 4) { (0..dcs).map(|d| d * 2 + 1).collect() } else { (0..dcs).collect() };
    let wide = rng.chance(1, 3);
    let mut used: Vec<i64> = Vec::new();
    let mut fresh = |rng: &mut Rng| -> i64 {
        loop {
            let t = match rng.below(10) {
                0 => *rng.pick(&TOKEN_POOL),
                1 if wide => rng.next() as i64,
                _ => {
                    if wide {
                        rng.range(-1000, 1000) * 9_007_199_254_740
                    } else {
                        rng.range(-60, 60)
                    }
                }
            };
            let norm = if t == i64::MIN { i64::MAX } else { t };
            if !used.contains(&norm) {
                used.push(norm);
                return t;
            }
        }
    };
    let mut peers: Vec<PeerSpec> = Vec::new();
    for i in 0..n {
        let dc = if rng.chance(1, 14) { None } else { Some(*rng.pick(&dc_ids)) };
        let rack = if racks == 0 || rng.chance(1, 8) { None } else { Some(rng.below(racks as u64) as u32) };
        let vn = if rng.chance(1, 25) { 0 } else { rng.range(1, shape.max_vnodes as i64) };
        let tokens: Vec<i64> = (0..vn).map(|_| fresh(rng)).collect();
        // host ids are not in ring order and not contiguous
        peers.push(PeerSpec { id: i * 3 + 1 + (i % 2) * 40, dc, rack, tokens, flags: String::new() });
    }
    if shape.dups > 0 && peers.len() >= 2 && rng.chance(1, 3) {
        for _ in 0..rng.range(1, 3) {
            let a = rng.below(peers.len() as u64) as usize;
            let b = rng.below(peers.len() as u64) as usize;
            if a != b && (shape.dups == 2 || peers[a].dc != peers[b].dc) && !peers[a].tokens.is_empty() {
                let t = *rng.pick(&peers[a].tokens);
                if !peers[b].tokens.contains(&t) {
                    peers[b].tokens.push(t);
                }
            }
        }
    }
    if rng.chance(1, 3) {
        rng.shuffle(&mut peers);
    }
    peers
}

/// `Token::new` normalisation.
pub fn norm_token(t: i64) -> i64 {
    if t == i64::MIN { i64::MAX } else { t }
}

/// Query tokens for a topology: every ring token, its neighbours, the extremes and interval midpoints.
pub fn query_tokens(peers: &[PeerSpec]) -> Vec<i64> {
    let mut ring: Vec<i64> = peers.iter().flat_map(|p| p.tokens.iter().map(|t| norm_token(*t))).collect();
    ring.sort_unstable();
    ring.dedup();
    let mut out: Vec<i64> = vec![i64::MIN, i64::MIN + 1, i64::MAX, i64::MAX - 1, 0];
    for (i, t) in ring.iter().enumerate() {
        out.push(*t);
        out.push(t.wrapping_sub(1));
        out.push(t.wrapping_add(1));
        if i + 1 < ring.len() {
            out.push(((*t as i128 + ring[i + 1] as i128) / 2) as i64);
        }
    }
    out.sort_unstable();
    out.dedup();
    out
}

//! C01 — CQL value encoding conforms to the protocol and round-trips.
//!
//! Notation of types / values: see `lean/ScyllaVerif/Drive/C01.lean` (prefix tokens, explicit counts, hex).
//! Cases: `dyn T V` (dynamic `CqlValue`), `carrier C T V` (typed Rust carrier `C`, `V` = its embedding),
//! `dec T <hex>|null` (decoder on an arbitrary cell body).
//!
//! Oracle (independent of the Lean model): the serialized cell is well framed; for a value in the
//! property's domain (`classify`) the bytes equal an independently written protocol encoder (`spec_cell`)
//! and `decode(encode v) == pad v` bit-exactly; `SerializedValues::element_count == iter().count()`.
use crate::util::{hex, unhex};
use crate::Ctx;
use bytes::Bytes;
use scylla_cql_core::deserialize::value::{
    BuiltinDeserializationError, BuiltinDeserializationErrorKind as DK, DeserializeValue,
    MapDeserializationErrorKind as MDK, SetOrListDeserializationErrorKind as LDK,
    TupleDeserializationErrorKind as TDK, UdtDeserializationErrorKind as UDK,
    VectorDeserializationErrorKind as VDK,
};
use scylla_cql_core::deserialize::{DeserializationError, FrameSlice};
use scylla_cql_core::frame::response::result::{CollectionType, ColumnType, NativeType, UserDefinedType};
use scylla_cql_core::frame::types::RawValue;
use scylla_cql_core::serialize::row::SerializedValues;
use scylla_cql_core::serialize::value::{
    BuiltinSerializationError, BuiltinSerializationErrorKind as SK, BuiltinTypeCheckError,
    BuiltinTypeCheckErrorKind as TK, MapSerializationErrorKind as MSK, MapTypeCheckErrorKind as MTK,
    SerializeValue, SetOrListSerializationErrorKind as LSK, SetOrListTypeCheckErrorKind as LTK,
    TupleSerializationErrorKind as TSK, TupleTypeCheckErrorKind as TTK, UdtSerializationErrorKind as USK,
    UdtTypeCheckErrorKind as UTK, VectorSerializationErrorKind as VSK,
};
use scylla_cql_core::serialize::{CellWriter, SerializationError};
use scylla_cql_core::value::{
    Counter, CqlDate, CqlDecimal, CqlDuration, CqlTime, CqlTimestamp, CqlTimeuuid, CqlValue, CqlVarint, Unset,
};
use std::net::IpAddr;
use std::sync::Arc;

mod carrier;
mod external;
mod gen_cases;
mod toval;
mod vnorm;

pub use gen_cases::generate;

// ------------------------------------------------------------------------------------------------
// AST of the notation
// ------------------------------------------------------------------------------------------------

#[derive(Clone, Debug, PartialEq)]
pub enum Ty {
    Native(NativeType),
    List(Box<Ty>),
    Set(Box<Ty>),
    Map(Box<Ty>, Box<Ty>),
    Tuple(Vec<Ty>),
    Udt(String, String, Vec<(String, Ty)>),
    Vector(Box<Ty>, u16),
}

#[derive(Clone, Debug, PartialEq)]
pub enum Val {
    Null,
    Unset,
    Empty,
    Ascii(Vec<u8>),
    Text(Vec<u8>),
    Blob(Vec<u8>),
    Boolean(bool),
    TinyInt(i8),
    SmallInt(i16),
    Int(i32),
    BigInt(i64),
    Counter(i64),
    Float(u32),
    Double(u64),
    Date(u32),
    Time(i64),
    Timestamp(i64),
    Timeuuid([u8; 16]),
    Uuid([u8; 16]),
    Inet(Vec<u8>),
    Varint(Vec<u8>),
    Decimal(i32, Vec<u8>),
    Duration(i32, i32, i64),
    List(Vec<Val>),
    Set(Vec<Val>),
    Vector(Vec<Val>),
    Map(Vec<(Val, Val)>),
    Tuple(Vec<Val>),
    Udt(String, String, Vec<(String, Val)>),
}

pub const NATIVES: [(NativeType, &str); 20] = [
    (NativeType::Ascii, "ascii"),
    (NativeType::Boolean, "boolean"),
    (NativeType::Blob, "blob"),
    (NativeType::Counter, "counter"),
    (NativeType::Date, "date"),
    (NativeType::Decimal, "decimal"),
    (NativeType::Double, "double"),
    (NativeType::Duration, "duration"),
    (NativeType::Float, "float"),
    (NativeType::Int, "int"),
    (NativeType::BigInt, "bigint"),
    (NativeType::Text, "text"),
    (NativeType::Timestamp, "timestamp"),
    (NativeType::Inet, "inet"),
    (NativeType::SmallInt, "smallint"),
    (NativeType::TinyInt, "tinyint"),
    (NativeType::Time, "time"),
    (NativeType::Timeuuid, "timeuuid"),
    (NativeType::Uuid, "uuid"),
    (NativeType::Varint, "varint"),
];

fn native_name(n: &NativeType) -> &'static str {
    NATIVES.iter().find(|(m, _)| m == n).map(|(_, s)| *s).unwrap_or("?")
}

fn shex(s: &str) -> String {
    hex(s.as_bytes())
}

pub fn show_ty(t: &Ty, out: &mut Vec<String>) {
    match t {
        Ty::Native(n) => out.push(native_name(n).to_owned()),
        Ty::List(e) => {
            out.push("list".into());
            show_ty(e, out)
        }
        Ty::Set(e) => {
            out.push("set".into());
            show_ty(e, out)
        }
        Ty::Map(k, v) => {
            out.push("map".into());
            show_ty(k, out);
            show_ty(v, out)
        }
        Ty::Tuple(ts) => {
            out.push("tuple".into());
            out.push(ts.len().to_string());
            ts.iter().for_each(|t| show_ty(t, out))
        }
        Ty::Udt(ks, name, fs) => {
            out.push("udt".into());
            out.push(shex(ks));
            out.push(shex(name));
            out.push(fs.len().to_string());
            for (n, t) in fs {
                out.push(shex(n));
                show_ty(t, out)
            }
        }
        Ty::Vector(e, d) => {
            out.push("vector".into());
            out.push(d.to_string());
            show_ty(e, out)
        }
    }
}

pub fn show_val(v: &Val, out: &mut Vec<String>) {
    let mut p = |a: &str, b: String| {
        out.push(a.to_owned());
        out.push(b)
    };
    match v {
        Val::Null => out.push("null".into()),
        Val::Unset => out.push("unset".into()),
        Val::Empty => out.push("empty".into()),
        Val::Ascii(b) => p("ascii", hex(b)),
        Val::Text(b) => p("text", hex(b)),
        Val::Blob(b) => p("blob", hex(b)),
        Val::Varint(b) => p("varint", hex(b)),
        Val::Boolean(b) => p("boolean", if *b { "1".into() } else { "0".into() }),
        Val::TinyInt(x) => p("tinyint", hex(&x.to_be_bytes())),
        Val::SmallInt(x) => p("smallint", hex(&x.to_be_bytes())),
        Val::Int(x) => p("int", hex(&x.to_be_bytes())),
        Val::BigInt(x) => p("bigint", hex(&x.to_be_bytes())),
        Val::Counter(x) => p("counter", hex(&x.to_be_bytes())),
        Val::Float(x) => p("float", hex(&x.to_be_bytes())),
        Val::Double(x) => p("double", hex(&x.to_be_bytes())),
        Val::Date(x) => p("date", hex(&x.to_be_bytes())),
        Val::Time(x) => p("time", hex(&x.to_be_bytes())),
        Val::Timestamp(x) => p("timestamp", hex(&x.to_be_bytes())),
        Val::Timeuuid(x) => p("timeuuid", hex(x)),
        Val::Uuid(x) => p("uuid", hex(x)),
        Val::Inet(x) => p("inet", hex(x)),
        Val::Decimal(s, b) => {
            p("decimal", hex(&s.to_be_bytes()));
            out.push(hex(b))
        }
        Val::Duration(m, d, n) => {
            p("duration", hex(&m.to_be_bytes()));
            out.push(hex(&d.to_be_bytes()));
            out.push(hex(&n.to_be_bytes()))
        }
        Val::List(vs) | Val::Set(vs) | Val::Vector(vs) | Val::Tuple(vs) => {
            let name = match v {
                Val::List(_) => "list",
                Val::Set(_) => "set",
                Val::Vector(_) => "vector",
                _ => "tuple",
            };
            p(name, vs.len().to_string());
            vs.iter().for_each(|v| show_val(v, out))
        }
        Val::Map(kvs) => {
            p("map", kvs.len().to_string());
            for (k, v) in kvs {
                show_val(k, out);
                show_val(v, out)
            }
        }
        Val::Udt(ks, name, fs) => {
            p("udt", shex(ks));
            out.push(shex(name));
            out.push(fs.len().to_string());
            for (n, v) in fs {
                out.push(shex(n));
                show_val(v, out)
            }
        }
    }
}

pub fn ty_str(t: &Ty) -> String {
    let mut o = Vec::new();
    show_ty(t, &mut o);
    o.join(" ")
}

pub fn val_str(v: &Val) -> String {
    let mut o = Vec::new();
    show_val(v, &mut o);
    o.join(" ")
}

struct Cur<'a> {
    toks: Vec<&'a str>,
    pos: usize,
}

impl<'a> Cur<'a> {
    fn next(&mut self) -> Option<&'a str> {
        let t = self.toks.get(self.pos).copied();
        self.pos += 1;
        t
    }
    fn num(&mut self) -> Option<usize> {
        self.next()?.parse().ok()
    }
    fn hexn(&mut self, n: usize) -> Option<Vec<u8>> {
        let b = unhex(self.next()?)?;
        if b.len() == n { Some(b) } else { None }
    }
    fn hexs(&mut self) -> Option<Vec<u8>> {
        unhex(self.next()?)
    }
    fn string(&mut self) -> Option<String> {
        String::from_utf8(self.hexs()?).ok()
    }
}

fn parse_ty(c: &mut Cur) -> Option<Ty> {
    let tok = c.next()?;
    Some(match tok {
        "list" => Ty::List(Box::new(parse_ty(c)?)),
        "set" => Ty::Set(Box::new(parse_ty(c)?)),
        "map" => {
            let k = parse_ty(c)?;
            Ty::Map(Box::new(k), Box::new(parse_ty(c)?))
        }
        "tuple" => {
            let n = c.num()?;
            let mut ts = Vec::new();
            for _ in 0..n {
                ts.push(parse_ty(c)?)
            }
            Ty::Tuple(ts)
        }
        "udt" => {
            let ks = c.string()?;
            let name = c.string()?;
            let n = c.num()?;
            let mut fs = Vec::new();
            for _ in 0..n {
                let f = c.string()?;
                fs.push((f, parse_ty(c)?))
            }
            Ty::Udt(ks, name, fs)
        }
        "vector" => {
            let d = c.num()?;
            if d > 65535 {
                return None;
            }
            Ty::Vector(Box::new(parse_ty(c)?), d as u16)
        }
        other => Ty::Native(NATIVES.iter().find(|(_, s)| *s == other)?.0.clone()),
    })
}

fn arr<const N: usize>(v: Vec<u8>) -> [u8; N] {
    v.try_into().unwrap()
}

fn parse_val(c: &mut Cur) -> Option<Val> {
    let tok = c.next()?;
    Some(match tok {
        "null" => Val::Null,
        "unset" => Val::Unset,
        "empty" => Val::Empty,
        "ascii" => Val::Ascii(c.hexs()?),
        "text" => Val::Text(c.hexs()?),
        "blob" => Val::Blob(c.hexs()?),
        "varint" => Val::Varint(c.hexs()?),
        "boolean" => match c.next()? {
            "1" => Val::Boolean(true),
            "0" => Val::Boolean(false),
            _ => return None,
        },
        "tinyint" => Val::TinyInt(i8::from_be_bytes(arr(c.hexn(1)?))),
        "smallint" => Val::SmallInt(i16::from_be_bytes(arr(c.hexn(2)?))),
        "int" => Val::Int(i32::from_be_bytes(arr(c.hexn(4)?))),
        "bigint" => Val::BigInt(i64::from_be_bytes(arr(c.hexn(8)?))),
        "counter" => Val::Counter(i64::from_be_bytes(arr(c.hexn(8)?))),
        "float" => Val::Float(u32::from_be_bytes(arr(c.hexn(4)?))),
        "double" => Val::Double(u64::from_be_bytes(arr(c.hexn(8)?))),
        "date" => Val::Date(u32::from_be_bytes(arr(c.hexn(4)?))),
        "time" => Val::Time(i64::from_be_bytes(arr(c.hexn(8)?))),
        "timestamp" => Val::Timestamp(i64::from_be_bytes(arr(c.hexn(8)?))),
        "timeuuid" => Val::Timeuuid(arr(c.hexn(16)?)),
        "uuid" => Val::Uuid(arr(c.hexn(16)?)),
        "inet" => {
            let b = c.hexs()?;
            if b.len() != 4 && b.len() != 16 {
                return None;
            }
            Val::Inet(b)
        }
        "decimal" => {
            let s = i32::from_be_bytes(arr(c.hexn(4)?));
            Val::Decimal(s, c.hexs()?)
        }
        "duration" => {
            let m = i32::from_be_bytes(arr(c.hexn(4)?));
            let d = i32::from_be_bytes(arr(c.hexn(4)?));
            Val::Duration(m, d, i64::from_be_bytes(arr(c.hexn(8)?)))
        }
        "list" | "set" | "vector" | "tuple" => {
            let n = c.num()?;
            let mut vs = Vec::new();
            for _ in 0..n {
                vs.push(parse_val(c)?)
            }
            match tok {
                "list" => Val::List(vs),
                "set" => Val::Set(vs),
                "vector" => Val::Vector(vs),
                _ => Val::Tuple(vs),
            }
        }
        "map" => {
            let n = c.num()?;
            let mut kvs = Vec::new();
            for _ in 0..n {
                let k = parse_val(c)?;
                kvs.push((k, parse_val(c)?))
            }
            Val::Map(kvs)
        }
        "udt" => {
            let ks = c.string()?;
            let name = c.string()?;
            let n = c.num()?;
            let mut fs = Vec::new();
            for _ in 0..n {
                let f = c.string()?;
                fs.push((f, parse_val(c)?))
            }
            Val::Udt(ks, name, fs)
        }
        _ => return None,
    })
}

// ------------------------------------------------------------------------------------------------
// conversions to / from the driver's types
// ------------------------------------------------------------------------------------------------

pub fn to_column_type(t: &Ty) -> ColumnType<'static> {
    let coll = |typ| ColumnType::Collection { frozen: false, typ };
    match t {
        Ty::Native(n) => ColumnType::Native(n.clone()),
        Ty::List(e) => coll(CollectionType::List(Box::new(to_column_type(e)))),
        Ty::Set(e) => coll(CollectionType::Set(Box::new(to_column_type(e)))),
        Ty::Map(k, v) => coll(CollectionType::Map(Box::new(to_column_type(k)), Box::new(to_column_type(v)))),
        Ty::Tuple(ts) => ColumnType::Tuple(ts.iter().map(to_column_type).collect()),
        Ty::Udt(ks, name, fs) => ColumnType::UserDefinedType {
            frozen: false,
            definition: Arc::new(UserDefinedType {
                name: name.clone().into(),
                keyspace: ks.clone().into(),
                field_types: fs.iter().map(|(n, t)| (n.clone().into(), to_column_type(t))).collect(),
            }),
        },
        Ty::Vector(e, d) => ColumnType::Vector { typ: Box::new(to_column_type(e)), dimensions: *d },
    }
}

fn inet_of(b: &[u8]) -> IpAddr {
    if b.len() == 4 { IpAddr::from(<[u8; 4]>::try_from(b).unwrap()) } else { IpAddr::from(<[u8; 16]>::try_from(b).unwrap()) }
}

fn inet_bytes(i: &IpAddr) -> Vec<u8> {
    match i {
        IpAddr::V4(a) => a.octets().to_vec(),
        IpAddr::V6(a) => a.octets().to_vec(),
    }
}

/// `None` when the value is not the image of a `CqlValue` (null / unset outside tuple and UDT fields,
/// text that is not UTF-8).
pub fn to_cql(v: &Val) -> Option<CqlValue> {
    let seq = |vs: &Vec<Val>| vs.iter().map(to_cql).collect::<Option<Vec<_>>>();
    let field = |v: &Val| if *v == Val::Null { Some(None) } else { to_cql(v).map(Some) };
    Some(match v {
        Val::Null | Val::Unset => return None,
        Val::Empty => CqlValue::Empty,
        Val::Ascii(b) => CqlValue::Ascii(String::from_utf8(b.clone()).ok()?),
        Val::Text(b) => CqlValue::Text(String::from_utf8(b.clone()).ok()?),
        Val::Blob(b) => CqlValue::Blob(b.clone()),
        Val::Boolean(b) => CqlValue::Boolean(*b),
        Val::TinyInt(x) => CqlValue::TinyInt(*x),
        Val::SmallInt(x) => CqlValue::SmallInt(*x),
        Val::Int(x) => CqlValue::Int(*x),
        Val::BigInt(x) => CqlValue::BigInt(*x),
        Val::Counter(x) => CqlValue::Counter(Counter(*x)),
        Val::Float(x) => CqlValue::Float(f32::from_bits(*x)),
        Val::Double(x) => CqlValue::Double(f64::from_bits(*x)),
        Val::Date(x) => CqlValue::Date(CqlDate(*x)),
        Val::Time(x) => CqlValue::Time(CqlTime(*x)),
        Val::Timestamp(x) => CqlValue::Timestamp(CqlTimestamp(*x)),
        Val::Timeuuid(x) => CqlValue::Timeuuid(CqlTimeuuid::from_bytes(*x)),
        Val::Uuid(x) => CqlValue::Uuid(uuid::Uuid::from_bytes(*x)),
        Val::Inet(b) => CqlValue::Inet(inet_of(b)),
        Val::Varint(b) => CqlValue::Varint(CqlVarint::from_signed_bytes_be(b.clone())),
        Val::Decimal(s, b) => CqlValue::Decimal(CqlDecimal::from_signed_be_bytes_and_exponent(b.clone(), *s)),
        Val::Duration(m, d, n) => CqlValue::Duration(CqlDuration { months: *m, days: *d, nanoseconds: *n }),
        Val::List(vs) => CqlValue::List(seq(vs)?),
        Val::Set(vs) => CqlValue::Set(seq(vs)?),
        Val::Vector(vs) => CqlValue::Vector(seq(vs)?),
        Val::Map(kvs) => CqlValue::Map(kvs.iter().map(|(k, v)| Some((to_cql(k)?, to_cql(v)?))).collect::<Option<Vec<_>>>()?),
        Val::Tuple(fs) => CqlValue::Tuple(fs.iter().map(field).collect::<Option<Vec<_>>>()?),
        Val::Udt(ks, name, fs) => CqlValue::UserDefinedType {
            keyspace: ks.clone(),
            name: name.clone(),
            fields: fs.iter().map(|(n, v)| Some((n.clone(), field(v)?))).collect::<Option<Vec<_>>>()?,
        },
    })
}

pub fn from_cql(v: &CqlValue) -> Val {
    let field = |v: &Option<CqlValue>| v.as_ref().map(from_cql).unwrap_or(Val::Null);
    match v {
        CqlValue::Empty => Val::Empty,
        CqlValue::Ascii(s) => Val::Ascii(s.as_bytes().to_vec()),
        CqlValue::Text(s) => Val::Text(s.as_bytes().to_vec()),
        CqlValue::Blob(b) => Val::Blob(b.clone()),
        CqlValue::Boolean(b) => Val::Boolean(*b),
        CqlValue::TinyInt(x) => Val::TinyInt(*x),
        CqlValue::SmallInt(x) => Val::SmallInt(*x),
        CqlValue::Int(x) => Val::Int(*x),
        CqlValue::BigInt(x) => Val::BigInt(*x),
        CqlValue::Counter(x) => Val::Counter(x.0),
        CqlValue::Float(x) => Val::Float(x.to_bits()),
        CqlValue::Double(x) => Val::Double(x.to_bits()),
        CqlValue::Date(x) => Val::Date(x.0),
        CqlValue::Time(x) => Val::Time(x.0),
        CqlValue::Timestamp(x) => Val::Timestamp(x.0),
        CqlValue::Timeuuid(x) => Val::Timeuuid(*x.as_bytes()),
        CqlValue::Uuid(x) => Val::Uuid(*x.as_bytes()),
        CqlValue::Inet(i) => Val::Inet(inet_bytes(i)),
        CqlValue::Varint(x) => Val::Varint(x.as_signed_bytes_be_slice().to_vec()),
        CqlValue::Decimal(d) => {
            let (b, s) = d.as_signed_be_bytes_slice_and_exponent();
            Val::Decimal(s, b.to_vec())
        }
        CqlValue::Duration(d) => Val::Duration(d.months, d.days, d.nanoseconds),
        CqlValue::List(vs) => Val::List(vs.iter().map(from_cql).collect()),
        CqlValue::Set(vs) => Val::Set(vs.iter().map(from_cql).collect()),
        CqlValue::Vector(vs) => Val::Vector(vs.iter().map(from_cql).collect()),
        CqlValue::Map(kvs) => Val::Map(kvs.iter().map(|(k, v)| (from_cql(k), from_cql(v))).collect()),
        CqlValue::Tuple(fs) => Val::Tuple(fs.iter().map(field).collect()),
        CqlValue::UserDefinedType { keyspace, name, fields } => {
            Val::Udt(keyspace.clone(), name.clone(), fields.iter().map(|(n, v)| (n.clone(), field(v))).collect())
        }
        _ => Val::Unset, // non_exhaustive: unknown variant (never produced today)
    }
}

// ------------------------------------------------------------------------------------------------
// error kinds (innermost kind of the chain)
// ------------------------------------------------------------------------------------------------

pub fn ser_kind(e: &SerializationError) -> String {
    if let Some(t) = e.downcast_ref::<BuiltinTypeCheckError>() {
        return match &t.kind {
            TK::MismatchedType { .. } => "MismatchedType",
            TK::NotEmptyable => "NotEmptyable",
            TK::SetOrListError(LTK::NotSetOrList) => "NotSetOrList",
            TK::MapError(MTK::NotMap) => "NotMap",
            TK::TupleError(TTK::NotTuple) => "NotTuple",
            TK::TupleError(TTK::WrongElementCount { .. }) => "WrongElementCount",
            TK::UdtError(UTK::NotUdt) => "NotUdt",
            TK::UdtError(UTK::NameMismatch { .. }) => "NameMismatch",
            TK::UdtError(UTK::NoSuchFieldInUdt { .. }) => "NoSuchFieldInUdt",
            _ => "OtherTypeCheck",
        }
        .to_owned();
    }
    if let Some(s) = e.downcast_ref::<BuiltinSerializationError>() {
        return match &s.kind {
            SK::SizeOverflow => "SizeOverflow".to_owned(),
            SK::ValueOverflow => "ValueOverflow".to_owned(),
            SK::SetOrListError(LSK::TooManyElements) | SK::MapError(MSK::TooManyElements) => "TooManyElements".to_owned(),
            SK::SetOrListError(LSK::ElementSerializationFailed(e))
            | SK::VectorError(VSK::ElementSerializationFailed(e))
            | SK::MapError(MSK::KeySerializationFailed(e))
            | SK::MapError(MSK::ValueSerializationFailed(e))
            | SK::TupleError(TSK::ElementSerializationFailed { err: e, .. })
            | SK::UdtError(USK::FieldSerializationFailed { err: e, .. }) => ser_kind(e),
            SK::VectorError(VSK::InvalidNumberOfElements(..)) => "InvalidNumberOfElements".to_owned(),
            _ => "OtherSerialization".to_owned(),
        };
    }
    "Other".to_owned()
}

pub fn de_kind(e: &DeserializationError) -> String {
    let Some(b) = e.downcast_ref::<BuiltinDeserializationError>() else {
        // the typed tuple macro wraps the raw `read_cql_bytes` failure directly
        if e.downcast_ref::<scylla_cql_core::frame::frame_errors::LowLevelDeserializationError>().is_some() {
            return "RawCqlBytesReadError".to_owned();
        }
        return "Other".to_owned();
    };
    match &b.kind {
        DK::BadDate { .. } => "BadDate".to_owned(),
        DK::BadDecimalScale(_) => "BadDecimalScale".to_owned(),
        DK::RawCqlBytesReadError(_) => "RawCqlBytesReadError".to_owned(),
        DK::ExpectedNonNull => "ExpectedNonNull".to_owned(),
        DK::ByteLengthMismatch { .. } => "ByteLengthMismatch".to_owned(),
        DK::ExpectedAscii => "ExpectedAscii".to_owned(),
        DK::InvalidUtf8(_) => "InvalidUtf8".to_owned(),
        DK::ValueOverflow => "ValueOverflow".to_owned(),
        DK::BadInetLength { .. } => "BadInetLength".to_owned(),
        DK::SetOrListError(LDK::LengthDeserializationFailed(_)) | DK::MapError(MDK::LengthDeserializationFailed(_)) => {
            "LengthDeserializationFailed".to_owned()
        }
        DK::SetOrListError(LDK::ElementDeserializationFailed(e))
        | DK::VectorError(VDK::ElementDeserializationFailed(e))
        | DK::MapError(MDK::KeyDeserializationFailed(e))
        | DK::MapError(MDK::ValueDeserializationFailed(e))
        | DK::TupleError(TDK::FieldDeserializationFailed { err: e, .. })
        | DK::UdtError(UDK::FieldDeserializationFailed { err: e, .. }) => de_kind(e),
        _ => "OtherDeserialization".to_owned(),
    }
}

// ------------------------------------------------------------------------------------------------
// the property's domain, normal form and an independent protocol encoder (oracle side)
// ------------------------------------------------------------------------------------------------

#[derive(Clone, Copy, Debug, PartialEq)]
pub enum Dom {
    /// in the domain of the round-trip statement
    In,
    /// outside (type mismatch, out-of-range `time`, zero-length varint, degenerate type ...): differential only
    Out,
    /// in the domain, but of a shape on which the current tree is known to fail (known_findings.json)
    Known(&'static str),
}

pub const F1: &str = "C01-F1-zero-field-tuple-value";
pub const F2: &str = "C01-F2-null-or-unset-vector-element";
pub const F9: &str = "C01-F9-empty-element-in-fixed-width-vector";

fn join(a: Dom, b: Dom) -> Dom {
    match (a, b) {
        (Dom::Out, _) | (_, Dom::Out) => Dom::Out,
        (Dom::Known(t), _) | (_, Dom::Known(t)) => Dom::Known(t),
        _ => Dom::In,
    }
}

pub fn size_for_vector(t: &Ty) -> Option<usize> {
    match t {
        Ty::Native(n) => match n {
            NativeType::Boolean => Some(1),
            NativeType::Float | NativeType::Int => Some(4),
            NativeType::Double | NativeType::BigInt | NativeType::Timestamp => Some(8),
            NativeType::Timeuuid | NativeType::Uuid => Some(16),
            _ => None,
        },
        Ty::Vector(e, d) => size_for_vector(e).map(|s| s * *d as usize),
        _ => None,
    }
}

pub fn supports_empty(t: &Ty) -> bool {
    !matches!(
        t,
        Ty::Native(NativeType::Counter) | Ty::Native(NativeType::Duration) | Ty::List(_) | Ty::Set(_) | Ty::Map(..) | Ty::Udt(..)
    )
}

fn lookup_last<'a>(n: &str, fs: &'a [(String, Val)]) -> Option<&'a Val> {
    fs.iter().rev().find(|(m, _)| m == n).map(|(_, v)| v)
}

/// Is `(t, v)` in the domain of "decode(encode v) = pad v"?  `nullable`: top level / tuple / UDT field.
pub fn classify(t: &Ty, v: &Val, nullable: bool) -> Dom {
    use NativeType as N;
    let all = |e: &Ty, vs: &[Val]| vs.iter().fold(Dom::In, |d, v| join(d, classify(e, v, false)));
    match (t, v) {
        (_, Val::Null) => if nullable { Dom::In } else { Dom::Out },
        (_, Val::Unset) => Dom::Out,
        (_, Val::Empty) => if supports_empty(t) { Dom::In } else { Dom::Out },
        // `String` serves both ascii and text; the value comes back under the constructor the type dictates
        (Ty::Native(N::Ascii), Val::Ascii(b) | Val::Text(b)) => if b.is_ascii() { Dom::In } else { Dom::Out },
        (Ty::Native(N::Text), Val::Text(b) | Val::Ascii(b)) => if std::str::from_utf8(b).is_ok() { Dom::In } else { Dom::Out },
        (Ty::Native(N::Blob), Val::Blob(_))
        | (Ty::Native(N::Boolean), Val::Boolean(_))
        | (Ty::Native(N::TinyInt), Val::TinyInt(_))
        | (Ty::Native(N::SmallInt), Val::SmallInt(_))
        | (Ty::Native(N::Int), Val::Int(_))
        | (Ty::Native(N::BigInt), Val::BigInt(_))
        | (Ty::Native(N::Counter), Val::Counter(_))
        | (Ty::Native(N::Float), Val::Float(_))
        | (Ty::Native(N::Double), Val::Double(_))
        | (Ty::Native(N::Date), Val::Date(_))
        | (Ty::Native(N::Timestamp), Val::Timestamp(_))
        | (Ty::Native(N::Timeuuid), Val::Timeuuid(_))
        | (Ty::Native(N::Uuid), Val::Uuid(_))
        | (Ty::Native(N::Inet), Val::Inet(_))
        | (Ty::Native(N::Decimal), Val::Decimal(..))
        | (Ty::Native(N::Duration), Val::Duration(..)) => Dom::In,
        (Ty::Native(N::Time), Val::Time(x)) => if (0..=86399999999999).contains(x) { Dom::In } else { Dom::Out },
        (Ty::Native(N::Varint), Val::Varint(b)) => if b.is_empty() { Dom::Out } else { Dom::In },
        // `Vec<CqlValue>` serves list, set and vector alike
        (Ty::List(e) | Ty::Set(e), Val::List(vs) | Val::Set(vs) | Val::Vector(vs)) => all(e, vs),
        (Ty::Map(kt, vt), Val::Map(kvs)) => kvs
            .iter()
            .fold(Dom::In, |d, (k, v)| join(d, join(classify(kt, k, false), classify(vt, v, false)))),
        (Ty::Vector(e, dim), Val::Vector(vs) | Val::List(vs) | Val::Set(vs)) => {
            if *dim == 0 || vs.len() != *dim as usize {
                return Dom::Out;
            }
            let fixed = size_for_vector(e).is_some();
            let mut d = Dom::In;
            for v in vs.iter() {
                let di = match v {
                    Val::Null | Val::Unset => Dom::Known(F2),
                    Val::Empty if fixed => if supports_empty(e) { Dom::Known(F9) } else { Dom::Out },
                    _ => classify(e, v, false),
                };
                d = join(d, di);
            }
            d
        }
        (Ty::Tuple(ts), Val::Tuple(fs)) => {
            if ts.is_empty() || fs.len() > ts.len() {
                return Dom::Out;
            }
            let d = ts.iter().zip(fs).fold(Dom::In, |d, (t, f)| join(d, classify(t, f, true)));
            if fs.is_empty() { join(d, Dom::Known(F1)) } else { d }
        }
        (Ty::Udt(ks, name, fts), Val::Udt(vks, vname, fs)) => {
            if ks != vks || name != vname || fts.is_empty() {
                return Dom::Out;
            }
            let distinct = |names: Vec<&String>| names.iter().enumerate().all(|(i, n)| !names[..i].contains(n));
            if !distinct(fts.iter().map(|f| &f.0).collect()) || fs.iter().any(|(n, _)| !fts.iter().any(|(m, _)| m == n)) {
                return Dom::Out;
            }
            fts.iter().fold(Dom::In, |d, (n, t)| join(d, classify(t, lookup_last(n, fs).unwrap_or(&Val::Null), true)))
        }
        _ => Dom::Out,
    }
}

/// The value the driver must hand back: short tuples / UDTs padded with nulls, UDT fields in type order,
/// the *empty* value of a string-like type is its empty string.
pub fn pad(t: &Ty, v: &Val) -> Val {
    match (t, v) {
        (Ty::Native(NativeType::Ascii), Val::Empty) => Val::Ascii(vec![]),
        (Ty::Native(NativeType::Text), Val::Empty) => Val::Text(vec![]),
        (Ty::Native(NativeType::Blob), Val::Empty) => Val::Blob(vec![]),
        (Ty::Native(NativeType::Ascii), Val::Text(b)) => Val::Ascii(b.clone()),
        (Ty::Native(NativeType::Text), Val::Ascii(b)) => Val::Text(b.clone()),
        (Ty::List(e), Val::List(vs) | Val::Set(vs) | Val::Vector(vs)) => Val::List(vs.iter().map(|v| pad(e, v)).collect()),
        (Ty::Set(e), Val::List(vs) | Val::Set(vs) | Val::Vector(vs)) => Val::Set(vs.iter().map(|v| pad(e, v)).collect()),
        (Ty::Vector(e, _), Val::List(vs) | Val::Set(vs) | Val::Vector(vs)) => Val::Vector(vs.iter().map(|v| pad(e, v)).collect()),
        (Ty::Map(kt, vt), Val::Map(kvs)) => Val::Map(kvs.iter().map(|(k, v)| (pad(kt, k), pad(vt, v))).collect()),
        (Ty::Tuple(ts), Val::Tuple(fs)) => {
            Val::Tuple(ts.iter().enumerate().map(|(i, t)| fs.get(i).map(|f| pad(t, f)).unwrap_or(Val::Null)).collect())
        }
        (Ty::Udt(ks, name, fts), Val::Udt(_, _, fs)) => Val::Udt(
            ks.clone(),
            name.clone(),
            fts.iter().map(|(n, t)| (n.clone(), lookup_last(n, fs).map(|f| pad(t, f)).unwrap_or(Val::Null))).collect(),
        ),
        _ => v.clone(),
    }
}

/// Unsigned vint written from the format description (count of extra bytes = leading ones of byte 0).
fn spec_uvint(v: u64, out: &mut Vec<u8>) {
    let bits = 64 - v.leading_zeros() as usize;
    let extra = if bits <= 7 { 0 } else if bits > 56 { 8 } else { (bits - 1) / 7 };
    if extra == 8 {
        out.push(0xff);
    } else {
        let ones = (0xff00u16 >> extra) as u8;
        out.push(ones | (v >> (8 * extra)) as u8);
    }
    for i in (0..extra).rev() {
        out.push((v >> (8 * i)) as u8);
    }
}

fn spec_vint(v: i64, out: &mut Vec<u8>) {
    spec_uvint(((v << 1) ^ (v >> 63)) as u64, out)
}

/// CQL v4 content of a non-null value of the domain (`None`: no protocol encoding, e.g. null in a vector).
pub fn spec_body(t: &Ty, v: &Val) -> Option<Vec<u8>> {
    let mut o = Vec::new();
    match (t, v) {
        (_, Val::Null) | (_, Val::Unset) => return None,
        (_, Val::Empty) => {}
        (_, Val::Ascii(b) | Val::Text(b) | Val::Blob(b) | Val::Varint(b) | Val::Inet(b)) => o.extend_from_slice(b),
        (_, Val::Boolean(b)) => o.push(*b as u8),
        (_, Val::TinyInt(x)) => o.extend_from_slice(&x.to_be_bytes()),
        (_, Val::SmallInt(x)) => o.extend_from_slice(&x.to_be_bytes()),
        (_, Val::Int(x)) => o.extend_from_slice(&x.to_be_bytes()),
        (_, Val::BigInt(x) | Val::Counter(x) | Val::Time(x) | Val::Timestamp(x)) => o.extend_from_slice(&x.to_be_bytes()),
        (_, Val::Float(x) | Val::Date(x)) => o.extend_from_slice(&x.to_be_bytes()),
        (_, Val::Double(x)) => o.extend_from_slice(&x.to_be_bytes()),
        (_, Val::Timeuuid(x) | Val::Uuid(x)) => o.extend_from_slice(x),
        (_, Val::Decimal(s, b)) => {
            o.extend_from_slice(&s.to_be_bytes());
            o.extend_from_slice(b)
        }
        (_, Val::Duration(m, d, n)) => {
            spec_vint(*m as i64, &mut o);
            spec_vint(*d as i64, &mut o);
            spec_vint(*n, &mut o)
        }
        (Ty::List(e) | Ty::Set(e), Val::List(vs) | Val::Set(vs) | Val::Vector(vs)) => {
            o.extend_from_slice(&(vs.len() as i32).to_be_bytes());
            for v in vs {
                o.extend(spec_cell(e, v)?)
            }
        }
        (Ty::Map(kt, vt), Val::Map(kvs)) => {
            o.extend_from_slice(&(kvs.len() as i32).to_be_bytes());
            for (k, v) in kvs {
                o.extend(spec_cell(kt, k)?);
                o.extend(spec_cell(vt, v)?)
            }
        }
        (Ty::Vector(e, _), Val::Vector(vs) | Val::List(vs) | Val::Set(vs)) => {
            let fixed = size_for_vector(e).is_some();
            for v in vs {
                let b = spec_body(e, v)?;
                if !fixed {
                    spec_uvint(b.len() as u64, &mut o)
                }
                o.extend(b)
            }
        }
        (Ty::Tuple(ts), Val::Tuple(fs)) => {
            for (t, f) in ts.iter().zip(fs) {
                o.extend(spec_cell(t, f)?)
            }
        }
        (Ty::Udt(_, _, fts), Val::Udt(_, _, fs)) => {
            for (n, t) in fts {
                o.extend(spec_cell(t, lookup_last(n, fs).unwrap_or(&Val::Null))?)
            }
        }
        _ => return None,
    }
    Some(o)
}

/// CQL v4 `[bytes]` of a value.
pub fn spec_cell(t: &Ty, v: &Val) -> Option<Vec<u8>> {
    match v {
        Val::Null => Some(vec![0xff; 4]),
        Val::Unset => Some(vec![0xff, 0xff, 0xff, 0xfe]),
        _ => {
            let b = spec_body(t, v)?;
            let mut o = (b.len() as i32).to_be_bytes().to_vec();
            o.extend(b);
            Some(o)
        }
    }
}

// ------------------------------------------------------------------------------------------------
// running one case
// ------------------------------------------------------------------------------------------------

/// Splits a serialized cell into its body (`None` = null / unset); checks the framing.
pub fn split_cell(cell: &[u8], ctx: &mut Ctx) -> Option<Vec<u8>> {
    if cell.len() < 4 {
        ctx.fail(format!("framing: serialized cell has only {} bytes", cell.len()));
        return None;
    }
    let len = i32::from_be_bytes(cell[..4].try_into().unwrap());
    if len < 0 {
        if len < -2 || cell.len() != 4 {
            ctx.fail(format!("framing: length {} with {} bytes following", len, cell.len() - 4));
        }
        return None;
    }
    if cell.len() - 4 != len as usize {
        ctx.fail(format!("framing: length prefix {} but {} content bytes", len, cell.len() - 4));
    }
    Some(cell[4..].to_vec())
}

pub fn serialize_any<T: SerializeValue>(v: &T, ct: &ColumnType<'static>, ctx: &mut Ctx) -> Result<Vec<u8>, String> {
    let mut buf = Vec::new();
    let res = v.serialize(ct, CellWriter::new(&mut buf)).map(|_| ());
    // the same value through SerializedValues: same bytes, element_count == iter().count(), rollback on error
    let mut sv = SerializedValues::new();
    let res2 = sv.add_value(v, ct);
    if sv.element_count() as usize != sv.iter().count() {
        ctx.fail(format!("SerializedValues: element_count {} != iter().count() {}", sv.element_count(), sv.iter().count()));
    }
    match (&res, &res2) {
        (Ok(()), Ok(())) => {
            let same = match sv.iter().next() {
                Some(RawValue::Null) => buf == [0xff; 4],
                Some(RawValue::Unset) => buf == [0xff, 0xff, 0xff, 0xfe],
                Some(RawValue::Value(b)) => buf.len() >= 4 && &buf[4..] == b,
                None => false,
            };
            if !same || sv.buffer_size() != buf.len() {
                ctx.fail("SerializedValues::add_value and SerializeValue::serialize disagree on the bytes".to_owned());
            }
        }
        (Err(_), Err(_)) => {
            if sv.buffer_size() != 0 || sv.element_count() != 0 {
                ctx.fail("SerializedValues::add_value left bytes behind after an error".to_owned());
            }
        }
        _ => ctx.fail("SerializedValues::add_value and SerializeValue::serialize disagree on success".to_owned()),
    }
    res.map(|_| buf).map_err(|e| ser_kind(&e))
}

fn decode_dyn(ct: &ColumnType<'static>, body: Option<&[u8]>) -> Result<Val, String> {
    let bytes = body.map(Bytes::copy_from_slice);
    let slice = bytes.as_ref().map(FrameSlice::new);
    <Option<CqlValue> as DeserializeValue>::type_check(ct).map_err(|_| "TypeCheck".to_owned())?;
    match <Option<CqlValue> as DeserializeValue>::deserialize(ct, slice) {
        Ok(None) => Ok(Val::Null),
        Ok(Some(v)) => Ok(from_cql(&v)),
        Err(e) => Err(de_kind(&e)),
    }
}

fn show_dec(r: &Result<Val, String>) -> String {
    match r {
        Ok(v) => val_str(v),
        Err(k) => format!("err {}", k),
    }
}

fn run_dyn(ty: &Ty, val: &Val, ctx: &mut Ctx) -> String {
    let ct = to_column_type(ty);
    let res = match val {
        Val::Null => serialize_any(&None::<CqlValue>, &ct, ctx),
        Val::Unset => serialize_any(&Unset, &ct, ctx),
        v => match to_cql(v) {
            Some(c) => {
                let res = serialize_any(&c, &ct, ctx);
                // model-independent acceptance rule (written from the docs, shared with C17): a value that
                // does not fit the column type (unknown UDT field, over-long tuple, wrong vector length,
                // element of the wrong type, ...) must be refused, never partially bound
                if res.is_ok() && !crate::c17::dyn_fits(&c, ty) {
                    ctx.fail(format!("dyn-mismatch-accepted: a CqlValue that does not fit the column type was serialized ({})", case_brief(ty, val)));
                }
                res
            }
            None => return "bad-case".to_owned(),
        },
    };
    let dom = classify(ty, val, true);
    let cell = match res {
        Err(k) => {
            if dom != Dom::Out {
                ctx.fail(format!("{}encode failed with {} on a value of the type", tag(dom), k));
            }
            return format!("err {}", k);
        }
        Ok(c) => c,
    };
    let body = split_cell(&cell, ctx);
    let dec = decode_dyn(&ct, body.as_deref());
    if dom != Dom::Out {
        // also for values containing a known-finding shape, wherever the protocol defines the bytes
        match spec_cell(ty, val) {
            Some(s) if s == cell => {}
            None if dom != Dom::In => {}
            s => ctx.fail(format!("wire-bytes: driver wrote {} but the CQL v4 encoding is {}", hex(&cell), s.map(|s| hex(&s)).unwrap_or("undefined".into()))),
        }
        let want = pad(ty, val);
        if dec.as_ref() != Ok(&want) {
            ctx.fail(format!("{}roundtrip: decode(encode v) = {} but pad v = {}", tag(dom), show_dec(&dec), val_str(&want)));
        }
    }
    if let Some(want) = expected_outside(ty, val) {
        if dec != want {
            ctx.fail(format!("outside-domain: decode(encode v) = {} but {} is expected", show_dec(&dec), show_dec(&want)));
        }
    }
    format!("{} -> {}", hex(&cell), show_dec(&dec))
}

fn case_brief(ty: &Ty, val: &Val) -> String {
    let mut s = format!("{:?} <- {:?}", ty, val);
    s.truncate(200);
    s
}

/// Values outside the type's value space whose behaviour is nevertheless proved (Props/C01.lean:
/// `time_out_of_range_example`, `empty_varint_example`): what decoding the driver's own bytes must give.
fn expected_outside(ty: &Ty, v: &Val) -> Option<Result<Val, String>> {
    match (ty, v) {
        (Ty::Native(NativeType::Time), Val::Time(x)) if !(0..=86399999999999).contains(x) => Some(Err("ValueOverflow".to_owned())),
        (Ty::Native(NativeType::Varint), Val::Varint(b)) if b.is_empty() => Some(Ok(Val::Empty)),
        (Ty::Native(NativeType::Ascii), Val::Ascii(b) | Val::Text(b)) if !b.is_ascii() => Some(Err("ExpectedAscii".to_owned())),
        _ => None,
    }
}

pub fn tag(d: Dom) -> String {
    match d {
        Dom::Known(t) => format!("{}: ", t),
        _ => String::new(),
    }
}

fn run_dec(ty: &Ty, body: Option<Vec<u8>>) -> String {
    let ct = to_column_type(ty);
    show_dec(&decode_dyn(&ct, body.as_deref()))
}

pub fn run(case: &str, ctx: &mut Ctx) -> String {
    let mut c = Cur { toks: case.split_whitespace().collect(), pos: 0 };
    match c.next() {
        Some("dyn") => {
            let (Some(ty), Some(val)) = (parse_ty(&mut c), parse_val(&mut c)) else { return "bad-case".to_owned() };
            if c.pos != c.toks.len() {
                return "bad-case".to_owned();
            }
            run_dyn(&ty, &val, ctx)
        }
        Some("carrier") | Some("carrierset") | Some("carrierser") => {
            let Some(name) = c.next() else { return "bad-case".to_owned() };
            let (Some(ty), Some(val)) = (parse_ty(&mut c), parse_val(&mut c)) else { return "bad-case".to_owned() };
            if c.pos != c.toks.len() {
                return "bad-case".to_owned();
            }
            carrier::run_carrier(name, &ty, &val, ctx)
        }
        Some("dynraw") => {
            // the writer in `write_size = false` mode at the top level (as a vector element is written)
            let (Some(ty), Some(val)) = (parse_ty(&mut c), parse_val(&mut c)) else { return "bad-case".to_owned() };
            if c.pos != c.toks.len() {
                return "bad-case".to_owned();
            }
            let ct = to_column_type(&ty);
            let mut buf = Vec::new();
            let w = CellWriter::new_without_size(&mut buf);
            let res = match &val {
                Val::Null => None::<CqlValue>.serialize(&ct, w).map(|_| ()),
                Val::Unset => Unset.serialize(&ct, w).map(|_| ()),
                v => match to_cql(v) {
                    Some(cv) => cv.serialize(&ct, w).map(|_| ()),
                    None => return "bad-case".to_owned(),
                },
            };
            match res {
                Err(e) => format!("err {}", ser_kind(&e)),
                Ok(()) => {
                    if classify(&ty, &val, false) == Dom::In && spec_body(&ty, &val).as_deref() != Some(&buf[..]) {
                        ctx.fail(format!("wire-bytes: unframed content {} is not the CQL v4 content", hex(&buf)));
                    }
                    hex(&buf)
                }
            }
        }
        Some("big") => {
            // a blob of n zero bytes (lazily allocated): only the size check is exercised
            let (Some(kind), Some(n)) = (c.next(), c.num()) else { return "bad-case".to_owned() };
            if kind == "unsetvec" {
                // `Unset` is zero-sized: a Vec of 2^31 of them costs nothing; the element count check comes first
                let v = vec![Unset; n];
                let ct = to_column_type(&Ty::List(Box::new(Ty::Native(NativeType::Int))));
                let mut buf = Vec::new();
                if n > 4096 && n <= i32::MAX as usize {
                    return "bad-case".to_owned();
                }
                return match v.serialize(&ct, CellWriter::new(&mut buf)) {
                    Ok(_) => {
                        if n > i32::MAX as usize {
                            ctx.fail(format!("size: a list of {} elements was accepted", n));
                        }
                        format!("ok {}", buf.len())
                    }
                    Err(e) => {
                        if n <= i32::MAX as usize {
                            ctx.fail(format!("size: a list of {} elements was rejected", n));
                        }
                        format!("err {}", ser_kind(&e))
                    }
                };
            }
            if kind != "blob" || n > (1usize << 31) + 16 {
                return "bad-case".to_owned();
            }
            let v = vec![0u8; n];
            let mut buf = Vec::new();
            match v.serialize(&ColumnType::Native(NativeType::Blob), CellWriter::new(&mut buf)) {
                Ok(_) => {
                    if n > i32::MAX as usize {
                        ctx.fail(format!("size: a blob of {} bytes was accepted", n));
                    }
                    format!("ok {}", buf.len())
                }
                Err(e) => {
                    if n <= i32::MAX as usize {
                        ctx.fail(format!("size: a blob of {} bytes was rejected", n));
                    }
                    format!("err {}", ser_kind(&e))
                }
            }
        }
        Some("conv") => external::run_conv(&c.toks[1..]),
        Some("vnorm") => vnorm::run_vnorm(&c.toks[1..], ctx),
        Some("tdeciter") => {
            let Some(elem) = c.next() else { return "bad-case".to_owned() };
            let Some(ty) = parse_ty(&mut c) else { return "bad-case".to_owned() };
            match (c.next(), c.pos == c.toks.len()) {
                (Some("null"), true) => carrier::run_tdeciter(elem, &ty, None, ctx),
                (Some(h), true) => match unhex(h) {
                    Some(b) => carrier::run_tdeciter(elem, &ty, Some(b), ctx),
                    None => "bad-case".to_owned(),
                },
                _ => "bad-case".to_owned(),
            }
        }
        Some("tdec") => {
            let Some(name) = c.next() else { return "bad-case".to_owned() };
            let Some(ty) = parse_ty(&mut c) else { return "bad-case".to_owned() };
            match (c.next(), c.pos == c.toks.len()) {
                (Some("null"), true) => carrier::run_tdec(name, &ty, None, ctx),
                (Some(h), true) => match unhex(h) {
                    Some(b) => carrier::run_tdec(name, &ty, Some(b), ctx),
                    None => "bad-case".to_owned(),
                },
                _ => "bad-case".to_owned(),
            }
        }
        Some("dec") => {
            let Some(ty) = parse_ty(&mut c) else { return "bad-case".to_owned() };
            match (c.next(), c.pos == c.toks.len()) {
                (Some("null"), true) => run_dec(&ty, None),
                (Some(h), true) => match unhex(h) {
                    Some(b) => run_dec(&ty, Some(b)),
                    None => "bad-case".to_owned(),
                },
                _ => "bad-case".to_owned(),
            }
        }
        _ => "bad-case".to_owned(),
    }
}

//! C12 (tablet clause) end-to-end: `e2e tablet n=<nodes> sh=<shards> mix=<0|1> tab=<tablets> rf=<r> seed=<s> keys=<k>`
//!
//! `ks` is a tablet-based keyspace (`system_schema.scylla_keyspaces.initial_tablets`), every node advertises
//! TABLETS_ROUTING_V1. The token space is cut into `tab` tablets (MIN, b1], (b1, b2], ... (b_last, MAX]; each has `rf`
//! replicas (node, shard) drawn from the seed. Phase 1 (teaching): every key is executed once; each response carries
//! the `tablets-routing-v1` custom payload of the key's tablet. Then the test waits (at most 1 s) until the session's
//! published ClusterState answers for every taught tablet. Phase 2: every key is executed again.
//!
//! ORACLE (C12: "for tables with known tablets the replica and shard are those of the tablet covering the token"):
//! in phase 2 the first EXECUTE frame of every key arrives at a node that is a replica of the tablet covering the key's
//! Murmur3 token (harness reference implementation) and - on a sharded node - on a connection whose server-side shard is
//! the shard that tablet replica names (every node had a live connection on every shard).
//!
//! Optional words (C12 audit round 5: tablet tables through the rest of the Session glue; defaults = the behaviour above):
//!  * `dcs=<1|2>`   two datacenters (node i is in dc (i % 2) + 1); a tablet's replicas are drawn from all nodes.
//!  * `api=<u|i|b>` phase 2 runs `execute_unpaged` / `execute_iter` (the pager's own `RoutingInfo` literals, pager.rs:949-966
//!                  and 1017-1049) / `Session::batch` of two prepared INSERTs, the second one bound to ANOTHER key (the BATCH
//!                  frame is recognised and judged by its first statement). Phase 1 always teaches through `execute_unpaged`:
//!                  the driver learns tablets only from EXECUTE responses (connection.rs:1092, 1137), never from BATCH responses.
//!  * `pages=2`     (api=i) phase 2 reads `SELECT .. WHERE pk = ?`: page 1 carries a paging state; the first request for
//!                  page 2 of a key (it must arrive at the coordinator of page 1, or at a replica of the tablet) is answered
//!                  "is bootstrapping", so the page is asked for again on the next target of the plan built from the pages-2+
//!                  literal: ANOTHER permitted replica of the tablet while there is one, on the shard the tablet names.
//!  * `pref=<dc>`   the session prefers a datacenter (`SessionBuilder::prefer_datacenter` = `node_location_preference`, no
//!                  failover); `spref=<dc>` `svia=<p|l>`: the statement (and the batch) carries its own execution profile /
//!                  load-balancing policy preferring `spref` - that one must be consulted, not the session's.
//!                  Oracle with a preference: the first frame arrives at a replica of the tablet IN that datacenter, on its
//!                  tablet shard, when the tablet has one there; otherwise it must stay inside that datacenter.
use super::common::*;
use crate::mockcluster::*;
use crate::mocknode::{Parsed, RESP_RESULT, ShardMode, body_void};
use crate::rng::Rng;
use crate::{Ctx, Tier};
use futures::StreamExt;
use std::sync::atomic::{AtomicBool, Ordering};
use std::sync::{Arc, Mutex};
use std::time::Duration;

pub fn generate(rng: &mut Rng, tier: Tier, emit: &mut dyn FnMut(String)) {
    let n_cases = if tier == Tier::Quick { 16 } else { 160 };
    for _ in 0..n_cases {
        let n = 1 + rng.below(4);
        let sh = rng.below(5);
        emit(format!(
            "e2e tablet n={} sh={} mix={} tab={} rf={} seed={} keys={}",
            n,
            sh,
            if sh >= 2 && rng.chance(1, 3) { 1 } else { 0 },
            1 + rng.below(8),
            1 + rng.below(n.min(3)),
            rng.below(1 << 32),
            if tier == Tier::Quick { 16 } else { 24 }
        ));
    }
    // tablet tables through the pager, Session::batch, session- and statement-level datacenter preference
    let n_glue = if tier == Tier::Quick { 16 } else { 160 };
    for i in 0..n_glue {
        let dcs = if i % 4 == 3 { 1 } else { 2 };
        let n = if dcs == 2 { 3 + rng.below(3) } else { 2 + rng.below(3) };
        let sh = *rng.pick(&[0u64, 2, 3, 4]);
        let api = ["i", "b", "i", "u"][i % 4];
        let pages = if api == "i" && (i / 4) % 2 == 0 { 2 } else { 1 };
        let (pref, spref) = if dcs == 1 {
            (0, 0)
        } else {
            match (i / 4) % 4 {
                0 => (1 + rng.below(2), 0),
                1 => (0, 1 + rng.below(2)),
                2 => {
                    let sp = 1 + rng.below(2);
                    (3 - sp, sp)
                }
                _ => (0, 0),
            }
        };
        emit(format!(
            "e2e tablet n={} sh={} mix={} tab={} rf={} seed={} keys={} dcs={} api={} pages={} pref={} spref={} svia={}",
            n,
            sh,
            if sh >= 2 && rng.chance(1, 3) { 1 } else { 0 },
            1 + rng.below(6),
            1 + rng.below(n.min(3)),
            rng.below(1 << 32),
            if tier == Tier::Quick { 12 } else { 20 },
            dcs,
            api,
            pages,
            pref,
            spref,
            if rng.bool() { "p" } else { "l" }
        ));
    }
}

#[derive(Clone, Debug)]
struct Tablet {
    first_exclusive: i64,
    last: i64,
    /// (node, shard)
    replicas: Vec<(usize, u16)>,
}

fn tablet_of(tablets: &[Tablet], tok: i64) -> usize {
    tablets.iter().position(|t| (t.first_exclusive < tok || (t.first_exclusive == i64::MIN && tok == i64::MIN)) && tok <= t.last).unwrap()
}

pub fn run(words: &[&str], ctx: &mut Ctx) -> String {
    let Some(p) = Params::parse(words) else { return "bad-case".into() };
    let (Some(n), Some(sh), Some(mix), Some(tab), Some(rf), Some(seed), Some(nkeys)) =
        (p.num("n"), p.num_or("sh", 0), p.num_or("mix", 0), p.num_or("tab", 4), p.num_or("rf", 1), p.num_or("seed", 1), p.num_or("keys", 8))
    else {
        return "bad-case".into();
    };
    if !(1..=8).contains(&n) || sh > 16 || !(1..=64).contains(&tab) || rf == 0 || rf > n || nkeys > 500 {
        return "bad-case".into();
    }
    let (Some(dcs), Some(pages), Some(session_pref), Some(spref)) = (p.num_or("dcs", 1), p.num_or("pages", 1), p.num_or("pref", 0), p.num_or("spref", 0)) else {
        return "bad-case".into();
    };
    let (api_iter, api_batch) = match p.str("api") {
        None | Some("u") => (false, false),
        Some("i") => (true, false),
        Some("b") => (false, true),
        _ => return "bad-case".into(),
    };
    let svia_policy = match p.str("svia") {
        None | Some("p") => false,
        Some("l") => true,
        _ => return "bad-case".into(),
    };
    if !(1..=2).contains(&dcs) || dcs > n || !(1..=2).contains(&pages) || (pages == 2 && !api_iter) || session_pref > dcs || spref > dcs {
        return "bad-case".into();
    }
    // the preference the oracle judges by: the statement's own wins over the session's
    let pref = if spref > 0 { spref } else { session_pref };
    let n = n as usize;
    let dcs = dcs as usize;
    let strat = if dcs == 1 { Strat::Nts(vec![rf as usize]) } else { Strat::Nts(vec![1; dcs]) };
    let shape = Shape { nodes: n, dcs, racks: 1, shards: sh as u16, msb: 12, vnodes: 2, strat, seed };
    let mut topo = shape.topology();
    topo.tablets_ext = true;
    topo.keyspaces[0].initial_tablets = Some(tab as i32);
    if mix != 0 && sh >= 2 {
        for (i, nd) in topo.nodes.iter_mut().enumerate() {
            nd.shards = ShardMode::ByPort(1 + ((i as u64 * 7 + seed) % sh) as u16, 12);
        }
    }
    let nodes = topo.nodes.clone();
    let shard_count = |i: usize| match nodes[i].shards {
        ShardMode::ByPort(k, _) => k,
        _ => 1,
    };
    // tablets
    let mut rng = Rng::new(seed ^ 0x7461_626c);
    let mut bounds: Vec<i64> = Vec::new();
    while bounds.len() + 1 < tab as usize {
        let b = match rng.below(8) {
            0 => *rng.pick(&[i64::MIN + 1, -1, 0, 1, i64::MAX - 1]),
            _ => rng.next() as i64,
        };
        if b != i64::MIN && b != i64::MAX && !bounds.contains(&b) {
            bounds.push(b);
        }
    }
    bounds.sort();
    let mut tablets: Vec<Tablet> = Vec::new();
    for i in 0..tab as usize {
        let first_exclusive = if i == 0 { i64::MIN } else { bounds[i - 1] };
        let last = if i + 1 == tab as usize { i64::MAX } else { bounds[i] };
        let mut order: Vec<usize> = (0..n).collect();
        rng.shuffle(&mut order);
        let replicas = order[..rf as usize].iter().map(|nd| (*nd, rng.below(shard_count(*nd) as u64) as u16)).collect();
        tablets.push(Tablet { first_exclusive, last, replicas });
    }
    let keys = super::route::gen_keys(seed, nkeys as usize);
    let taught: Arc<Mutex<Vec<bool>>> = Arc::new(Mutex::new(vec![false; tablets.len()]));
    let (taught_h, tablets_h, nodes_h) = (Arc::clone(&taught), tablets.clone(), nodes.clone());
    let phase2 = Arc::new(AtomicBool::new(false));
    let phase2_h = Arc::clone(&phase2);
    let mut page2_seen: std::collections::HashSet<Vec<u8>> = std::collections::HashSet::new();
    let handler = with_std_prepare(move |r: &Req| {
        let Parsed::Execute { params, .. } = &r.parsed else { return vec![act_void()] };
        let Some(Some(pk)) = params.values.first() else { return vec![act_void()] };
        if pages == 2 && phase2_h.load(Ordering::SeqCst) {
            // the paged SELECT of phase 2 (every tablet it may be judged for was taught in phase 1)
            let row = vec![Some(pk.clone()), c_int(0)];
            return match &params.paging_state {
                None => vec![Act::Respond(RESP_RESULT, rows_body(&row_specs(), !params.skip_metadata, Some(b"page-2"), &[row]))],
                Some(_) if page2_seen.insert(pk.clone()) => vec![act_error(0x1002, "bootstrapping", &[])],
                Some(_) => vec![Act::Respond(RESP_RESULT, rows_body(&row_specs(), !params.skip_metadata, None, &[row]))],
            };
        }
        let ti = tablet_of(&tablets_h, token_of(pk));
        let t = &tablets_h[ti];
        let at_replica = t.replicas.iter().any(|(nd, s)| *nd == r.node && (r.shard.is_none() || r.shard == Some(*s)));
        let first_time = !std::mem::replace(&mut taught_h.lock().unwrap()[ti], true);
        if at_replica && !first_time {
            return vec![act_void()];
        }
        let reps: Vec<([u8; 16], i32)> = t.replicas.iter().map(|(nd, s)| (nodes_h[*nd].host_id, *s as i32)).collect();
        let payload = tablet_payload(t.first_exclusive, t.last, &reps);
        vec![Act::RespondFlags(0x04, RESP_RESULT, with_custom_payload(&[("tablets-routing-v1", payload)], &body_void()))]
    });
    let rt = runtime(1);
    rt.block_on(async {
        let cluster = MockCluster::start(topo, handler).await;
        let session = match connect(&cluster, |b| if session_pref > 0 { b.prefer_datacenter(Shape::dc_name(session_pref as usize - 1)) } else { b }).await {
            Ok(s) => s,
            Err(skip) => return skip,
        };
        let mut ps = match session.prepare(INSERT).await {
            Ok(ps) => ps,
            Err(_) => return "e2e-skip prepare-failed".to_owned(),
        };
        let mut sel = if pages == 2 {
            match session.prepare(SELECT).await {
                Ok(ps) => Some(ps),
                Err(_) => return "e2e-skip prepare-failed".to_owned(),
            }
        } else {
            None
        };
        let mut batch = scylla::statement::batch::Batch::new(scylla::statement::batch::BatchType::Unlogged);
        if spref > 0 {
            use scylla::client::execution_profile::ExecutionProfile;
            use scylla::policies::load_balancing::DefaultPolicy;
            let lb = DefaultPolicy::builder().prefer_datacenter(Shape::dc_name(spref as usize - 1)).build();
            if svia_policy {
                ps.set_load_balancing_policy(Some(lb.clone()));
                if let Some(s) = sel.as_mut() {
                    s.set_load_balancing_policy(Some(lb.clone()));
                }
                batch.set_load_balancing_policy(Some(lb));
            } else {
                let handle = ExecutionProfile::builder().load_balancing_policy(lb).build().into_handle();
                ps.set_execution_profile_handle(Some(handle.clone()));
                if let Some(s) = sel.as_mut() {
                    s.set_execution_profile_handle(Some(handle.clone()));
                }
                batch.set_execution_profile_handle(Some(handle));
            }
        }
        batch.append_statement(ps.clone());
        batch.append_statement(ps.clone());
        let ps = ps;
        // phase 1
        for (i, k) in keys.iter().enumerate() {
            let _ = (i, session.execute_unpaged(&ps, (k.clone(), i as i32)).await);
        }
        // barrier: the session's published view answers for every taught tablet (bounded: a session that never learns
        // is judged by the oracle below, not excused)
        let taught_now = taught.lock().unwrap().clone();
        let t0 = std::time::Instant::now();
        loop {
            let cs = session.get_cluster_state();
            let known = tablets
                .iter()
                .zip(&taught_now)
                .filter(|(_, t)| **t)
                .all(|(t, _)| !cs.get_token_endpoints("ks", "t", scylla::routing::Token::new(t.last)).is_empty());
            if known || t0.elapsed() > Duration::from_secs(1) {
                break;
            }
            tokio::time::sleep(Duration::from_millis(5)).await;
        }
        // phase 2
        phase2.store(true, Ordering::SeqCst);
        let start = cluster.mark("phase2");
        for (i, k) in keys.iter().enumerate() {
            if api_batch {
                let other = keys[(i + 1) % keys.len()].clone();
                let _ = session.batch(&batch, ((k.clone(), i as i32), (other, -1i32))).await;
            } else if let Some(sel) = &sel {
                if let Ok(pager) = session.execute_iter(sel.clone(), (k.clone(),)).await {
                    if let Ok(mut stream) = pager.rows_stream::<(Vec<u8>, i32)>() {
                        while let Some(item) = stream.next().await {
                            if item.is_err() {
                                break;
                            }
                        }
                    }
                }
            } else if api_iter {
                let _ = session.execute_iter(ps.clone(), (k.clone(), i as i32)).await;
            } else {
                let _ = session.execute_unpaged(&ps, (k.clone(), i as i32)).await;
            }
        }
        let frames: Vec<Req> = cluster.user_frames().into_iter().filter(|f| f.seq > start).collect();
        let (mut good, mut judged, mut page2) = (0, 0, 0);
        let pref_dc = (pref > 0).then(|| Shape::dc_name(pref as usize - 1));
        for (i, k) in keys.iter().enumerate() {
            let carries_key = |f: &Req, later_page: bool| match &f.parsed {
                Parsed::Execute { params, .. } if !api_batch => params.values.first() == Some(&Some(k.clone())) && params.paging_state.is_some() == later_page,
                Parsed::Batch { statements, .. } if api_batch && !later_page => {
                    matches!(statements.first(), Some(crate::mocknode::BatchStmt::Prepared(_, vals)) if vals.first() == Some(&Some(k.clone())))
                }
                _ => false,
            };
            let mine: Vec<&Req> = frames.iter().filter(|f| carries_key(f, false)).collect();
            let Some(f) = mine.first().copied() else {
                if api_batch || api_iter {
                    ctx.fail(format!("e2e tablet: no request frame for key #{} arrived in phase 2", i));
                }
                continue;
            };
            let tok = token_of(k);
            let ti = tablet_of(&tablets, tok);
            if !taught_now[ti] {
                continue;
            }
            judged += 1;
            let t = &tablets[ti];
            // the replicas of the tablet the load-balancing configuration permits
            let want: Vec<(usize, u16)> = match &pref_dc {
                None => t.replicas.clone(),
                Some(dc) => t.replicas.iter().copied().filter(|(nd, _)| nodes[*nd].dc == *dc).collect(),
            };
            let via = if api_batch { "BATCH" } else if api_iter { "execute_iter" } else { "execute" };
            if want.is_empty() {
                // a preferred datacenter without a replica of the tablet, failover not permitted: stay there
                let dc = pref_dc.as_ref().unwrap();
                if nodes[f.node].dc != *dc {
                    ctx.fail(format!(
                        "e2e tablet: key #{} ({}) went to node {} outside the preferred datacenter {} ({} preference; the tablet has no replica there, failover is not permitted)",
                        i, via, f.node, dc, if spref > 0 { "the statement's own" } else { "the session's" }
                    ));
                } else {
                    good += 1;
                }
                continue;
            }
            match want.iter().find(|(nd, _)| *nd == f.node) {
                None => {
                    ctx.fail(format!(
                        "e2e tablet: key #{} (token {}, {}) lies in the known tablet ({}, {}] with replicas {:?}{} but was first sent to node {}",
                        i,
                        tok,
                        via,
                        t.first_exclusive,
                        t.last,
                        t.replicas,
                        match &pref_dc {
                            Some(dc) => format!(", of which {:?} are in the preferred datacenter {} ({} preference)", want, dc, if spref > 0 { "the statement's own" } else { "the session's" }),
                            None => String::new(),
                        },
                        f.node
                    ));
                    continue;
                }
                Some((_, s)) => {
                    if f.shard.is_some() && f.shard != Some(*s) {
                        ctx.fail(format!(
                            "e2e tablet: key #{} (token {}, {}) lies in the known tablet ({}, {}] whose replica on node {} is shard {}, but arrived on a connection of shard {:?}",
                            i, tok, via, t.first_exclusive, t.last, f.node, s, f.shard
                        ));
                        continue;
                    }
                    good += 1;
                }
            }
            if pages == 2 {
                let later: Vec<&Req> = frames.iter().filter(|f| carries_key(f, true)).collect();
                // is there any other node the configuration permits (without failover: of the preferred datacenter)?
                let elsewhere = (0..nodes.len()).any(|nd| nd != f.node && pref_dc.as_ref().is_none_or(|dc| nodes[nd].dc == *dc));
                let (Some(f1), Some(f2)) = (later.first().copied(), later.get(1).or(if elsewhere { None } else { later.first() }).copied()) else {
                    ctx.fail(format!("e2e tablet: key #{}: {} request(s) for page 2 arrived, 2 expected (the first was answered \"is bootstrapping\")", i, later.len()));
                    continue;
                };
                let same = f1.node == f.node && f1.shard == f.shard;
                let owner = want.iter().any(|(nd, s)| *nd == f1.node && (f1.shard.is_none() || f1.shard == Some(*s)));
                if !same && !owner {
                    ctx.fail(format!(
                        "e2e tablet: key #{} (token {}): page 2 was first asked of node {} shard {:?} - neither the coordinator of page 1 (node {} shard {:?}) nor a permitted replica of the tablet {:?}",
                        i, tok, f1.node, f1.shard, f.node, f.shard, want
                    ));
                    continue;
                }
                let others: Vec<(usize, u16)> = want.iter().copied().filter(|(nd, _)| *nd != f.node).collect();
                if !others.is_empty() {
                    match others.iter().find(|(nd, _)| *nd == f2.node) {
                        None => {
                            ctx.fail(format!(
                                "e2e tablet: key #{} (token {}): page 2 was retried on node {} which is not among the remaining permitted replicas {:?} of the tablet ({}, {}] (page 1 answered by node {})",
                                i, tok, f2.node, others, t.first_exclusive, t.last, f.node
                            ));
                            continue;
                        }
                        Some((_, s)) if f2.shard.is_some() && f2.shard != Some(*s) => {
                            ctx.fail(format!(
                                "e2e tablet: key #{} (token {}): the retried request for page 2 arrived at node {} on a connection of shard {:?}, the tablet names shard {}",
                                i, tok, f2.node, f2.shard, s
                            ));
                            continue;
                        }
                        _ => {}
                    }
                }
                page2 += 1;
            }
        }
        if pages == 2 {
            return format!("tablet keys={} judged={} good={} page2={}", keys.len(), judged, good, page2);
        }
        format!("tablet keys={} judged={} good={}", keys.len(), judged, good)
    })
}

//! C12 (tablet clause) end-to-end: `e2e tablet n=<nodes> sh=<shards> mix=<0|1> tab=<tablets> rf=<r> seed=<s> keys=<k>`
//!
//! `ks` is a tablet-based keyspace (`system_schema.scylla_keyspaces.initial_tablets`), every node advertises
//! TABLETS_ROUTING_V1. The token space is cut into `tab` tablets (MIN, b1], (b1, b2], ... (b_last, MAX]; each has `rf`
//! replicas (node, shard) drawn from the seed. Phase 1 (teaching): every key is executed once; each response carries
//! the `tablets-routing-v1` custom payload of the key's tablet. Then the test waits (at most 1 s) until the session's
//! published ClusterState answers for every taught tablet. Phase 2: every key is executed again.
//!
//! ORACLE (C12: "for tables with known tablets the replica and shard are those of the tablet covering the token"):
//! in phase 2 the first EXECUTE frame of every key arrives at a node that is a replica of the tablet covering the key's
//! Murmur3 token (harness reference implementation) and - on a sharded node - on a connection whose server-side shard is
//! the shard that tablet replica names (every node had a live connection on every shard).
use super::common::*;
use crate::mockcluster::*;
use crate::mocknode::{Parsed, RESP_RESULT, ShardMode, body_void};
use crate::rng::Rng;
use crate::{Ctx, Tier};
use std::sync::{Arc, Mutex};
use std::time::Duration;

pub fn generate(rng: &mut Rng, tier: Tier, emit: &mut dyn FnMut(String)) {
    let n_cases = if tier == Tier::Quick { 16 } else { 160 };
    for _ in 0..n_cases {
        let n = 1 + rng.below(4);
        let sh = rng.below(5);
        emit(format!(
            "e2e tablet n={} sh={} mix={} tab={} rf={} seed={} keys={}",
            n,
            sh,
            if sh >= 2 && rng.chance(1, 3) { 1 } else { 0 },
            1 + rng.below(8),
            1 + rng.below(n.min(3)),
            rng.below(1 << 32),
            if tier == Tier::Quick { 16 } else { 24 }
        ));
    }
}

#[derive(Clone, Debug)]
struct Tablet {
    first_exclusive: i64,
    last: i64,
    /// (node, shard)
    replicas: Vec<(usize, u16)>,
}

fn tablet_of(tablets: &[Tablet], tok: i64) -> usize {
    tablets.iter().position(|t| (t.first_exclusive < tok || (t.first_exclusive == i64::MIN && tok == i64::MIN)) && tok <= t.last).unwrap()
}

pub fn run(words: &[&str], ctx: &mut Ctx) -> String {
    let Some(p) = Params::parse(words) else { return "bad-case".into() };
    let (Some(n), Some(sh), Some(mix), Some(tab), Some(rf), Some(seed), Some(nkeys)) =
        (p.num("n"), p.num_or("sh", 0), p.num_or("mix", 0), p.num_or("tab", 4), p.num_or("rf", 1), p.num_or("seed", 1), p.num_or("keys", 8))
    else {
        return "bad-case".into();
    };
    if !(1..=8).contains(&n) || sh > 16 || !(1..=64).contains(&tab) || rf == 0 || rf > n || nkeys > 500 {
        return "bad-case".into();
    }
    let n = n as usize;
    let shape = Shape { nodes: n, dcs: 1, racks: 1, shards: sh as u16, msb: 12, vnodes: 2, strat: Strat::Nts(vec![rf as usize]), seed };
    let mut topo = shape.topology();
    topo.tablets_ext = true;
    topo.keyspaces[0].initial_tablets = Some(tab as i32);
    if mix != 0 && sh >= 2 {
        for (i, nd) in topo.nodes.iter_mut().enumerate() {
            nd.shards = ShardMode::ByPort(1 + ((i as u64 * 7 + seed) % sh) as u16, 12);
        }
    }
    let nodes = topo.nodes.clone();
    let shard_count = |i: usize| match nodes[i].shards {
        ShardMode::ByPort(k, _) => k,
        _ => 1,
    };
    // tablets
    let mut rng = Rng::new(seed ^ 0x7461_626c);
    let mut bounds: Vec<i64> = Vec::new();
    while bounds.len() + 1 < tab as usize {
        let b = match rng.below(8) {
            0 => *rng.pick(&[i64::MIN + 1, -1, 0, 1, i64::MAX - 1]),
            _ => rng.next() as i64,
        };
        if b != i64::MIN && b != i64::MAX && !bounds.contains(&b) {
            bounds.push(b);
        }
    }
    bounds.sort();
    let mut tablets: Vec<Tablet> = Vec::new();
    for i in 0..tab as usize {
        let first_exclusive = if i == 0 { i64::MIN } else { bounds[i - 1] };
        let last = if i + 1 == tab as usize { i64::MAX } else { bounds[i] };
        let mut order: Vec<usize> = (0..n).collect();
        rng.shuffle(&mut order);
        let replicas = order[..rf as usize].iter().map(|nd| (*nd, rng.below(shard_count(*nd) as u64) as u16)).collect();
        tablets.push(Tablet { first_exclusive, last, replicas });
    }
    let keys = super::route::gen_keys(seed, nkeys as usize);
    let taught: Arc<Mutex<Vec<bool>>> = Arc::new(Mutex::new(vec![false; tablets.len()]));
    let (taught_h, tablets_h, nodes_h) = (Arc::clone(&taught), tablets.clone(), nodes.clone());
    let handler = with_std_prepare(move |r: &Req| {
        let Parsed::Execute { params, .. } = &r.parsed else { return vec![act_void()] };
        let Some(Some(pk)) = params.values.first() else { return vec![act_void()] };
        let ti = tablet_of(&tablets_h, token_of(pk));
        let t = &tablets_h[ti];
        let at_replica = t.replicas.iter().any(|(nd, s)| *nd == r.node && (r.shard.is_none() || r.shard == Some(*s)));
        let first_time = !std::mem::replace(&mut taught_h.lock().unwrap()[ti], true);
        if at_replica && !first_time {
            return vec![act_void()];
        }
        let reps: Vec<([u8; 16], i32)> = t.replicas.iter().map(|(nd, s)| (nodes_h[*nd].host_id, *s as i32)).collect();
        let payload = tablet_payload(t.first_exclusive, t.last, &reps);
        vec![Act::RespondFlags(0x04, RESP_RESULT, with_custom_payload(&[("tablets-routing-v1", payload)], &body_void()))]
    });
    let rt = runtime(1);
    rt.block_on(async {
        let cluster = MockCluster::start(topo, handler).await;
        let session = match connect(&cluster, |b| b).await {
            Ok(s) => s,
            Err(skip) => return skip,
        };
        let ps = match session.prepare(INSERT).await {
            Ok(ps) => ps,
            Err(_) => return "e2e-skip prepare-failed".to_owned(),
        };
        // phase 1
        for (i, k) in keys.iter().enumerate() {
            let _ = (i, session.execute_unpaged(&ps, (k.clone(), i as i32)).await);
        }
        // barrier: the session's published view answers for every taught tablet (bounded: a session that never learns
        // is judged by the oracle below, not excused)
        let taught_now = taught.lock().unwrap().clone();
        let t0 = std::time::Instant::now();
        loop {
            let cs = session.get_cluster_state();
            let known = tablets
                .iter()
                .zip(&taught_now)
                .filter(|(_, t)| **t)
                .all(|(t, _)| !cs.get_token_endpoints("ks", "t", scylla::routing::Token::new(t.last)).is_empty());
            if known || t0.elapsed() > Duration::from_secs(1) {
                break;
            }
            tokio::time::sleep(Duration::from_millis(5)).await;
        }
        // phase 2
        let start = cluster.mark("phase2");
        for (i, k) in keys.iter().enumerate() {
            let _ = session.execute_unpaged(&ps, (k.clone(), i as i32)).await;
        }
        let frames: Vec<Req> = cluster.user_frames().into_iter().filter(|f| f.seq > start).collect();
        let (mut good, mut judged) = (0, 0);
        for (i, k) in keys.iter().enumerate() {
            let mine: Vec<&Req> = frames
                .iter()
                .filter(|f| matches!(&f.parsed, Parsed::Execute { params, .. } if params.values.first() == Some(&Some(k.clone()))))
                .collect();
            let Some(f) = mine.first().copied() else { continue };
            let tok = token_of(k);
            let ti = tablet_of(&tablets, tok);
            if !taught_now[ti] {
                continue;
            }
            judged += 1;
            let t = &tablets[ti];
            match t.replicas.iter().find(|(nd, _)| *nd == f.node) {
                None => ctx.fail(format!(
                    "e2e tablet: key #{} (token {}) lies in the known tablet ({}, {}] with replicas {:?} but was first sent to node {}",
                    i, tok, t.first_exclusive, t.last, t.replicas, f.node
                )),
                Some((_, s)) => {
                    if f.shard.is_some() && f.shard != Some(*s) {
                        ctx.fail(format!(
                            "e2e tablet: key #{} (token {}) lies in the known tablet ({}, {}] whose replica on node {} is shard {}, but arrived on a connection of shard {:?}",
                            i, tok, t.first_exclusive, t.last, f.node, s, f.shard
                        ));
                    } else {
                        good += 1;
                    }
                }
            }
        }
        format!("tablet keys={} judged={} good={}", keys.len(), judged, good)
    })
}

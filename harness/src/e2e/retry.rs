//! C06 end-to-end: `e2e retry n=<nodes> sh=<shards> pol=<def|fall|down> idem=<0|1>
//! kind=<exec|query|batch|qvals|batchv|itere|iterq> cl=<q|serial|localserial|all|eachquorum> via=<session|caching>
//! [cfg=<stmt|profile|handle|both>] [pages=<P>] [tmo=<ms> tmoat=<stmt|profile>] seed=<s> scripts=<o.o.o[~p.p]/...>`
//! (`wire retry …` in c06.rs runs this same code and is additionally compared with the frame-level model
//! `Model/RetryFrames.lean` + `Model/RetryPager.lean`).
//!
//! One logical request per script, sent one after another through a real Session; the k-th STATEMENT frame of a
//! logical request that reaches ANY node is answered with the k-th outcome of its script (then `ok`):
//! `ok`, `un` Unavailable, `bs` IsBootstrapping, `rt` ReadTimeout (enough replies, no data), `rtd` ReadTimeout (data
//! present), `ov` Overloaded, `se` ServerError, `tr` TruncateError, `wt` WriteTimeout SIMPLE, `wtb` WriteTimeout
//! BATCH_LOG, `inv` Invalid, `cl` the node closes the connection without answering, `unp` UNPREPARED (naming the id
//! of the frame's own prepared statement), `unpx` UNPREPARED naming an id that belongs to no statement of the
//! request, `slow` the answer (ok) comes after 400 ms, and three answers the driver cannot parse: `gres` a RESULT of
//! an unknown kind, `gerr` a truncated ERROR, `gsup` a garbled SUPPORTED (errors.rs:1031-1049).
//! A script may be followed by `~<p.p.p>`: the answers to the PREPARE frames sent during that request
//! (`PREP_ANSWERS`; default `p`).
//!
//! kinds: `exec` a prepared INSERT; `query` an unprepared one without values; `qvals` an unprepared one WITH values
//! (PREPARE + EXECUTE in every attempt, session.rs:1424-1438); `batch`; `batchv` a batch with an unprepared statement
//! with values (`prepare_batch` sends a PREPARE in every attempt); `itere` / `iterq`: `execute_iter` / `query_iter`
//! of a SELECT over `pages` pages (the transparent pager: one run of the execution core per page, with the pager's
//! own copy of the execution parameters, pager.rs:146-186, 303-370) - an `ok` serves the page the frame asks for.
//! `cfg`: WHERE the retry policy and the consistency are configured: on the statement (`stmt`), on the session's
//! default execution profile (`profile`), on an execution-profile handle attached to the statement (`handle`; the
//! session default then carries the fall-through policy and another consistency), or on the statement with decoy
//! values on BOTH profiles (`both`) - execution.rs:122-160 and its copy pager.rs:146-186.
//! `via=caching`: through a `CachingSession`.  `idems=<0110…>`: the idempotence flag of every single request (same
//! text, different flags: what a caller passes must govern THAT call, whatever an earlier call cached).
//! `cfg=none`: NOTHING is configured anywhere (needs pol=def cl=q): the built-in defaults of an untouched profile
//! (`defaults::retry_policy()` = DefaultRetryPolicy, LOCAL_QUORUM; execution_profile.rs:180-199) decide.
//! `idem=-` (and `-` inside `idems=`): `set_is_idempotent` is NOT called: `StatementConfig::default()` (not idempotent).
//! `cfg=dprofile` / `cfg=dhandle` with `der=<op.op…|->`: the policy (consistency, timeout) is set on a BASE profile and
//! the request runs under a profile DERIVED from it - `base.to_builder().<setters>.build()` as the session default
//! (`dprofile`, through `ExecutionProfile::to_builder`) or as the statement's handle (`dhandle`, through
//! `ExecutionProfileHandle::pointee_to_builder`; the session default is a decoy).  Setters: `lb` load-balancing
//! policy, `ser` serial consistency, `sp` speculative execution (none), `cl` the consistency (the base then carries
//! the decoy THREE), `tm` the profile-level request timeout (the base then carries a decoy of 50 ms), `pol` the retry
//! policy (the base then carries the fall-through decoy).  Model: Model/RetryProfile.lean `derive`.
//! kind `ctl`: the single-connection pager (`Connection::execute_iter` -> `SingleConnectionPagingExecutor`,
//! pager.rs:535-600, used for the control connection's queries) through the hook `VerifConn`: its retry policy is
//! hard-coded (fall-through): exactly one attempt per page, whatever the answer.
//! kind `sameconn` (`pool=<k>` connections per node): a custom policy answers RetrySameTarget to a broken connection;
//! the node closes the connection that carried the attempt: the next attempt must go out on ANOTHER connection of
//! the node (`get_connection()` is asked again before every attempt, execution.rs:536) and succeed.
//!
//! ORACLE (C06's statement, judged on the frames the nodes saw, interleaved with the decisions a recording wrapper
//! around the REAL policy saw; no model involved):
//!  * a statement not marked idempotent - and every page request of it - is put on the wire again only directly after
//!    Unavailable / IsBootstrapping / ReadTimeout or UNPREPARED - never after a closed connection, Overloaded /
//!    ServerError / TruncateError, WriteTimeout, an unparsable answer (or anything else);
//!  * with the default policy a request at serial consistency (SERIAL or LOCAL_SERIAL) is attempted once, with the
//!    fall-through policy every request (every page) is attempted once; at most (number of nodes) + 2 attempts;
//!  * every frame carries the consistency that the policy decided at the previous attempt of that request (page), else
//!    the configured one;
//!  * nothing is sent after an attempt was answered `ok` / after the request timeout fired, and then the caller gets
//!    Ok / RequestTimeout;
//!  * "exactly the attempts the policy decided - no more": between a statement frame and its re-send (same page, the
//!    previous answer not UNPREPARED) the CONFIGURED policy (the recording wrapper) decided a retry.
use super::common::*;
use crate::mockcluster::*;
use crate::mocknode::{BatchStmt, Parsed, RESP_ERROR, RESP_RESULT, RESP_SUPPORTED};
use crate::rng::Rng;
use crate::{Ctx, Tier};
use scylla::policies::retry::{RequestInfo, RetryDecision, RetryPolicy, RetrySession};
use std::sync::{Arc, Mutex};
use std::time::Duration;

const OUTCOMES: &[&str] =
    &["ok", "un", "bs", "rt", "rtd", "ov", "se", "tr", "wt", "wtb", "inv", "cl", "unp", "unpx", "slow", "gres", "gerr", "gsup"];
/// answers to the PREPARE frames sent DURING a request (via=session only): ok, ok with ANOTHER id, Overloaded,
/// IsBootstrapping, the node closes the connection
const PREP_ANSWERS: &[&str] = &["p", "pc", "pov", "pbs", "pcl"];
/// outcomes that prove the attempt was not applied
const PROOF: &[&str] = &["un", "bs", "rt", "rtd"];
const SLOW_MS: u64 = 400;

/// The oracle's own table of consistency codes (CQL protocol).
fn cl_code(cl: &str) -> Option<u16> {
    Some(match cl {
        "q" => 0x0006, // the driver's default: LOCAL_QUORUM
        "serial" => 0x0008,
        "localserial" => 0x0009,
        "all" => 0x0005,
        "eachquorum" => 0x0007,
        _ => return None,
    })
}

fn cl_short(code: u16) -> String {
    match code {
        0x0000 => "any".into(),
        0x0001 => "one".into(),
        0x0002 => "two".into(),
        0x0003 => "three".into(),
        0x0004 => "quorum".into(),
        0x0005 => "all".into(),
        0x0006 => "localquorum".into(),
        0x0007 => "eachquorum".into(),
        0x0008 => "serial".into(),
        0x0009 => "localserial".into(),
        0x000A => "localone".into(),
        c => format!("0x{:04x}", c),
    }
}

/// A random chain of builder setters for a derived profile (`der=`); mostly without the retry-policy setter.
pub fn gen_der(rng: &mut Rng) -> String {
    let k = rng.below(4) as usize;
    let mut v: Vec<&str> = (0..k).map(|_| *rng.pick(&["lb", "ser", "sp", "cl", "cl", "tm", "tm"])).collect();
    if rng.chance(1, 8) {
        let at = rng.below(v.len() as u64 + 1) as usize;
        v.insert(at, "pol");
    }
    if v.is_empty() { "-".to_owned() } else { v.join(".") }
}

pub fn generate(rng: &mut Rng, tier: Tier, emit: &mut dyn FnMut(String)) {
    // the attempt target asks the node's pool for a connection before EVERY attempt: after the connection that carried
    // an attempt was closed, a RetrySameTarget attempt must go out on another connection of the node
    for i in 0..(if tier == Tier::Quick { 6 } else { 30 }) {
        let pool = 2 + rng.below(2);
        let n = 1 + rng.below(2);
        let scripts: Vec<&str> = (0..3).map(|_| *rng.pick(if pool == 3 { &["cl.ok", "cl.cl.ok", "ok"][..] } else { &["cl.ok", "ok"][..] })).collect();
        emit(format!(
            "e2e retry n={} sh=0 pol=def idem={} kind=sameconn cl=q via=session pool={} seed={} scripts={}",
            n, i % 2, pool, rng.below(1 << 32), scripts.join("/")
        ));
    }
    // (they all land in the runner's last chunk: keep the family small; the `wire` cases of c06.rs run the same code,
    //  spread over all chunks and compared with the model as well)
    let n_cases = if tier == Tier::Quick { 60 } else { 200 };
    for i in 0..n_cases {
        let n = 1 + rng.below(4);
        let sh = *rng.pick(&[0u64, 0, 2]);
        let pol = *rng.pick(&["def", "def", "def", "down", "fall"]);
        // the statement is about non-idempotent requests: most cases
        let idem = if i % 3 == 2 { 1 } else { 0 };
        // (the transparent pagers included: every page request is an execution of its own, with the pager's own
        //  copy of the statement's idempotence flag, policy and consistency)
        let kind = *rng.pick(&["exec", "exec", "query", "batch", "itere", "itere", "iterq"]);
        let iter_kind = kind == "itere" || kind == "iterq";
        let cl = if pol == "def" && rng.chance(1, 8) {
            *rng.pick(&["serial", "localserial"])
        } else if pol == "down" && rng.bool() {
            "all"
        } else {
            "q"
        };
        let n_req = 3 + rng.below(3);
        let mut scripts = Vec::new();
        for _ in 0..n_req {
            let len = 1 + rng.below(n + 3) + if iter_kind { 3 } else { 0 };
            let mut s = Vec::new();
            let mut oks = 0;
            for k in 0..len {
                let o = if k + 1 == len && rng.bool() {
                    "ok"
                } else if iter_kind && rng.chance(2, 5) {
                    "ok"
                } else if rng.chance(1, 2) {
                    // weight the proof-of-non-application outcomes, so that histories get long
                    *rng.pick(PROOF)
                } else {
                    *rng.pick(&["un", "bs", "rt", "rtd", "ov", "se", "tr", "wt", "wtb", "inv", "cl", "gres", "gsup"])
                };
                s.push(o);
                if o == "ok" {
                    oks += 1;
                    if oks >= if iter_kind { 3 } else { 1 } {
                        break;
                    }
                }
            }
            scripts.push(s.join("."));
        }
        let via = if i % 4 == 1 && !iter_kind { "caching" } else { "session" };
        // where the policy is configured: on the statement (default); on a base profile from which the profile in force
        // was DERIVED; nowhere (the built-in defaults decide)
        let (pol, cl, cfg) = if via == "session" && i % 3 == 0 {
            (pol, cl, format!(" cfg={} der={}", rng.pick(&["dprofile", "dhandle"]), gen_der(rng)))
        } else if via == "session" && i % 8 == 5 {
            ("def", "q", " cfg=none".to_owned())
        } else {
            (pol, cl, String::new())
        };
        // "not marked idempotent" = the setter was never called
        let idem_s = if idem == 0 && rng.chance(1, 3) { "-".to_owned() } else { idem.to_string() };
        emit(format!(
            "e2e retry n={} sh={} pol={} idem={} kind={} cl={} via={}{} pages=3 seed={} scripts={}",
            n,
            sh,
            pol,
            idem_s,
            kind,
            cl,
            via,
            cfg,
            rng.below(1 << 32),
            scripts.join("/")
        ));
    }
}

fn outcome_acts(o: &str) -> Vec<Act> {
    match o {
        "ok" => vec![act_void()],
        "un" => vec![err_unavailable(0x0004, 2, 1)],
        "bs" => vec![act_error(0x1002, "bootstrapping", &[])],
        "rt" => vec![err_read_timeout(0x0004, 2, 2, false)],
        "rtd" => vec![err_read_timeout(0x0004, 1, 2, true)],
        "ov" => vec![act_error(0x1001, "overloaded", &[])],
        "se" => vec![act_error(0x0000, "server error", &[])],
        "tr" => vec![act_error(0x1003, "truncate error", &[])],
        "wt" => vec![err_write_timeout(0x0004, 1, 2, "SIMPLE")],
        "wtb" => vec![err_write_timeout(0x0004, 1, 2, "BATCH_LOG")],
        "inv" => vec![act_error(0x2200, "invalid", &[])],
        "cl" => vec![Act::Close],
        // answers the driver cannot parse
        "gres" => vec![Act::Respond(RESP_RESULT, vec![0x00, 0x00, 0x77, 0x77])],
        "gerr" => vec![Act::Respond(RESP_ERROR, vec![0x00])],
        "gsup" => vec![Act::Respond(RESP_SUPPORTED, vec![0xff])],
        _ => vec![act_void()],
    }
}

/// UNPREPARED naming the prepared statement of the frame itself (so that the driver re-prepares and sends again).
fn unprepared_for(r: &Req) -> Vec<Act> {
    let id: Vec<u8> = match &r.parsed {
        Parsed::Execute { id, .. } => id.clone(),
        Parsed::Batch { statements, .. } => statements
            .iter()
            .find_map(|s| match s {
                BatchStmt::Prepared(id, _) => Some(id.clone()),
                _ => None,
            })
            .unwrap_or_else(|| stmt_id(INSERT)),
        _ => stmt_id(INSERT),
    };
    vec![Act::Respond(crate::mocknode::RESP_ERROR, crate::mocknode::body_unprepared(&id))]
}

/// `std_prepared` with a chosen statement id.
fn std_prepared_with_id(text: &str, id: &[u8]) -> Vec<u8> {
    let marks = text.matches('?').count();
    let mut bind: Vec<(&str, CqlT)> = Vec::new();
    if marks >= 1 {
        bind.push(("pk", CqlT::Native(T_BLOB)));
    }
    if marks >= 2 {
        bind.push(("v", CqlT::Native(T_INT)));
    }
    let pk: &[u16] = if marks >= 1 { &[0] } else { &[] };
    prepared_body(id, &Specs::new("ks", "t", &bind), pk, None)
}

/// Kind of the error the caller got (the model prints the same names).
fn attempt_error_kind(a: &scylla::errors::RequestAttemptError) -> &'static str {
    use scylla::errors::{DbError, RequestAttemptError};
    match a {
            RequestAttemptError::DbError(db, _) => match db {
                DbError::Unavailable { .. } => "un",
                DbError::IsBootstrapping => "bs",
                DbError::ReadTimeout { .. } => "rt",
                DbError::Overloaded => "ov",
                DbError::ServerError => "se",
                DbError::TruncateError => "tr",
                DbError::WriteTimeout { .. } => "wt",
                DbError::Invalid => "inv",
                DbError::Unprepared { .. } => "unp",
                _ => "db-other",
            },
            RequestAttemptError::BrokenConnectionError(_) => "cl",
            RequestAttemptError::RepreparedIdChanged { .. } => "idchg",
            RequestAttemptError::RepreparedIdMissingInBatch => "idmiss",
            RequestAttemptError::CqlResultParseError(_) => "resparse",
            RequestAttemptError::CqlErrorParseError(_) => "errparse",
            RequestAttemptError::UnexpectedResponse(_) => "unexpected",
            RequestAttemptError::UnableToAllocStreamId => "alloc",
            _ => "attempt-other",
    }
}

fn error_kind(e: &scylla::errors::ExecutionError) -> &'static str {
    use scylla::errors::ExecutionError;
    match e {
        ExecutionError::LastAttemptError(a) => attempt_error_kind(a),
        ExecutionError::ConnectionPoolError(_) => "pool",
        ExecutionError::EmptyPlan => "emptyplan",
        ExecutionError::RequestTimeout(_) => "timeout",
        _ => "other",
    }
}

fn request_error_kind(e: &scylla::errors::RequestError) -> &'static str {
    use scylla::errors::RequestError;
    match e {
        RequestError::LastAttemptError(a) => attempt_error_kind(a),
        RequestError::ConnectionPoolError(_) => "pool",
        RequestError::EmptyPlan => "emptyplan",
        RequestError::RequestTimeout(_) => "timeout",
        _ => "other",
    }
}

fn next_row_error_kind(e: &scylla::errors::NextRowError) -> &'static str {
    use scylla::errors::{NextPageError, NextRowError};
    match e {
        NextRowError::NextPageError(NextPageError::RequestFailure(r)) => request_error_kind(r),
        _ => "pager-other",
    }
}

fn key_of(req: usize) -> Vec<u8> {
    vec![0xE0, req as u8, 0x5A]
}

fn text_of(req: usize) -> String {
    format!("INSERT INTO ks.t (pk, v) VALUES (0x{}, 0)", crate::util::hex(&key_of(req)))
}

/// Which logical request a frame belongs to.
fn request_of(r: &Req, n_req: usize) -> Option<usize> {
    let by_key = |v: &Option<Vec<u8>>| (0..n_req).find(|i| v.as_deref() == Some(&key_of(*i)[..]));
    let by_text = |t: &str| (0..n_req).find(|i| t == text_of(*i));
    match &r.parsed {
        Parsed::Execute { id, params, .. } => {
            params.values.first().and_then(by_key).or_else(|| (0..n_req).find(|i| *id == stmt_id(&text_of(*i))))
        }
        Parsed::Query { text, .. } => by_text(text),
        Parsed::Batch { statements, .. } => statements.iter().find_map(|s| match s {
            BatchStmt::Query(t, _) => by_text(t),
            BatchStmt::Prepared(_, v) => v.first().and_then(by_key),
        }),
        _ => None,
    }
}

/// What the nodes and the retry policy saw of one logical request, in the order it happened.
#[derive(Clone, Debug)]
enum Ev {
    /// a statement frame: scripted outcome, node, page it asks for, consistency it carries
    Frame { o: String, node: usize, conn: usize, page: usize, cl: u16 },
    /// a PREPARE frame sent during the request and its scripted answer
    Prep { o: String },
    /// a decision of the (real) retry session: name and the consistency a retry decision names
    Dec { name: String, retry: bool, new_cl: Option<u16> },
}

type EvLog = Arc<Mutex<Vec<Vec<Ev>>>>;

/// Records every decision of the real policy (which request it belongs to: the one being executed).
struct RecPolicy {
    inner: Arc<dyn RetryPolicy>,
    log: EvLog,
    current: Arc<Mutex<Option<usize>>>,
}
impl std::fmt::Debug for RecPolicy {
    fn fmt(&self, f: &mut std::fmt::Formatter<'_>) -> std::fmt::Result {
        write!(f, "RecPolicy({:?})", self.inner)
    }
}
struct RecSession {
    inner: Box<dyn RetrySession>,
    log: EvLog,
    current: Arc<Mutex<Option<usize>>>,
}
impl RetryPolicy for RecPolicy {
    fn new_session(&self) -> Box<dyn RetrySession> {
        Box::new(RecSession { inner: self.inner.new_session(), log: Arc::clone(&self.log), current: Arc::clone(&self.current) })
    }
}
impl RetrySession for RecSession {
    fn decide_should_retry(&mut self, ri: RequestInfo) -> RetryDecision {
        let d = self.inner.decide_should_retry(ri);
        let (name, retry, new_cl) = match &d {
            RetryDecision::RetrySameTarget(c) => ("same", true, c.map(|c| c as u16)),
            RetryDecision::RetryNextTarget(c) => ("next", true, c.map(|c| c as u16)),
            RetryDecision::DontRetry => ("dont", false, None),
            RetryDecision::IgnoreWriteError => ("ignore", false, None),
            _ => ("unknown", false, None),
        };
        if let Some(q) = *self.current.lock().unwrap() {
            self.log.lock().unwrap()[q].push(Ev::Dec { name: name.to_owned(), retry, new_cl });
        }
        d
    }
    fn reset(&mut self) {
        self.inner.reset()
    }
}

/// `sameconn`: RetrySameTarget on a broken connection (at most 5 times per request), DontRetry otherwise.
#[derive(Debug)]
struct SameOnBroken;
struct SameOnBrokenSession(usize);
impl RetryPolicy for SameOnBroken {
    fn new_session(&self) -> Box<dyn RetrySession> {
        Box::new(SameOnBrokenSession(0))
    }
}
impl RetrySession for SameOnBrokenSession {
    fn decide_should_retry(&mut self, ri: RequestInfo) -> RetryDecision {
        if matches!(ri.error, scylla::errors::RequestAttemptError::BrokenConnectionError(_)) && self.0 < 5 {
            self.0 += 1;
            RetryDecision::RetrySameTarget(None)
        } else {
            RetryDecision::DontRetry
        }
    }
    fn reset(&mut self) {
        self.0 = 0;
    }
}

fn page_state(q: usize, j: usize) -> Vec<u8> {
    vec![0x50, q as u8, j as u8]
}

pub fn run(words: &[&str], ctx: &mut Ctx) -> String {
    let Some(p) = Params::parse(words) else { return "bad-case".into() };
    // `idem=-`: the flag is never set (StatementConfig::default())
    let idem_unset = p.str("idem") == Some("-");
    let (Some(n), Some(sh), Some(idem), Some(seed)) =
        (p.num("n"), p.num_or("sh", 0), if idem_unset { Some(0) } else { p.num_or("idem", 0) }, p.num_or("seed", 1))
    else {
        return "bad-case".into();
    };
    let (pol, kind, cl) = (p.str("pol").unwrap_or("def"), p.str("kind").unwrap_or("exec"), p.str("cl").unwrap_or("q"));
    let Some(stmt_cl) = cl_code(cl) else { return "bad-case".into() };
    // `cl=q` configures no consistency anywhere: the chosen profile's applies - the driver's default LOCAL_QUORUM,
    // except under cfg=both, where the statement's (decoy) profile handle says TWO
    let stmt_cl = if cl == "q" && p.str("cfg") == Some("both") { 0x0002 } else { stmt_cl };
    if !(1..=8).contains(&n)
        || sh > 8
        || !["def", "fall", "down"].contains(&pol)
        || !["exec", "query", "batch", "qvals", "batchv", "itere", "iterq", "ctl", "sameconn"].contains(&kind)
    {
        return "bad-case".into();
    }
    let via = p.str("via").unwrap_or("session");
    let cfg = p.str("cfg").unwrap_or("stmt");
    let (Some(pages), Some(tmo)) = (p.num_or("pages", 3), p.num_or("tmo", 0)) else { return "bad-case".into() };
    let tmoat = p.str("tmoat").unwrap_or("stmt");
    let iter_kind = kind == "itere" || kind == "iterq" || kind == "ctl";
    let Some(pool) = p.num_or("pool", if kind == "sameconn" { 2 } else { 0 }) else { return "bad-case".into() };
    // per-request idempotence flags (default: `idem` for every request)
    let idems: Option<Vec<Option<bool>>> = p.str("idems").map(|s| s.chars().map(|c| if c == '-' { None } else { Some(c == '1') }).collect());
    if pool > 4 || p.str("idems").is_some_and(|s| s.chars().any(|c| c != '0' && c != '1' && c != '-')) {
        return "bad-case".into();
    }
    let derived = cfg == "dprofile" || cfg == "dhandle";
    const DER_OPS: &[&str] = &["lb", "ser", "sp", "cl", "tm", "pol"];
    let der: Vec<&str> = match p.str("der") {
        None | Some("-") => Vec::new(),
        Some(d) => d.split('.').collect(),
    };
    if der.iter().any(|o| !DER_OPS.contains(o)) || der.len() > 8 || (!derived && p.str("der").is_some()) {
        return "bad-case".into();
    }
    if cfg == "none" && (pol != "def" || cl != "q" || tmo != 0 || kind == "sameconn") {
        return "bad-case".into();
    }
    if !["session", "caching"].contains(&via)
        || !["stmt", "profile", "handle", "both", "none", "dprofile", "dhandle"].contains(&cfg)
        || !["stmt", "profile"].contains(&tmoat)
        || !(1..=6).contains(&pages)
        || tmo > 100_000
        || (via != "session" && (cfg != "stmt" || iter_kind || tmo != 0 || kind == "sameconn"))
        || ((kind == "ctl" || kind == "sameconn") && (cfg != "stmt" || tmo != 0))
    {
        return "bad-case".into();
    }
    let Some(scripts_s) = p.str("scripts") else { return "bad-case".into() };
    let split2 = |s: &str| -> (String, String) {
        match s.split_once('~') {
            Some((a, b)) => (a.to_owned(), b.to_owned()),
            None => (s.to_owned(), String::new()),
        }
    };
    let scripts: Vec<Vec<String>> = scripts_s.split('/').map(|s| split2(s).0.split('.').map(|o| o.to_owned()).collect()).collect();
    let prep_scripts: Vec<Vec<String>> =
        scripts_s.split('/').map(|s| split2(s).1.split('.').filter(|o| !o.is_empty()).map(|o| o.to_owned()).collect()).collect();
    if scripts.len() > 64
        || scripts.iter().flatten().any(|o| !OUTCOMES.contains(&o.as_str()))
        || prep_scripts.iter().flatten().any(|o| !PREP_ANSWERS.contains(&o.as_str()))
        || (via != "session" && (prep_scripts.iter().any(|p| !p.is_empty()) || kind == "qvals" || kind == "batchv"))
    {
        return "bad-case".into();
    }
    let n = n as usize;
    let pages = pages as usize;
    if idems.as_ref().is_some_and(|v| v.len() != scripts.len()) {
        return "bad-case".into();
    }
    // what the caller sets (None: no setter call), and what then holds (an untouched statement is not idempotent)
    let idem_set_of = |q: usize| -> Option<bool> { idems.as_ref().map(|v| v[q]).unwrap_or(if idem_unset { None } else { Some(idem != 0) }) };
    let idem_of = |q: usize| -> bool { idem_set_of(q).unwrap_or(false) };
    let shape = Shape { nodes: n, dcs: 1, racks: 1, shards: sh as u16, msb: 12, vnodes: 2, strat: Strat::Simple(n.min(2)), seed };
    let n_req = scripts.len();
    let log: EvLog = Arc::new(Mutex::new(vec![Vec::new(); n_req]));
    // the request being executed (requests run one after another); PREPARE frames, decisions and the frames of the
    // pagers (which all carry the same text) seen meanwhile belong to it
    let current: Arc<Mutex<Option<usize>>> = Arc::new(Mutex::new(None));
    let (log_h, current_h) = (Arc::clone(&log), Arc::clone(&current));
    let (scripts_h, prep_scripts_h) = (scripts.clone(), prep_scripts.clone());
    let scripted_prepares = via == "session";
    let handler: ClusterHandler = Box::new(move |r: &Req| {
        let cur = *current_h.lock().unwrap();
        if let Parsed::Prepare { text } = &r.parsed {
            let Some(q) = cur.filter(|_| scripted_prepares) else {
                return vec![Act::Respond(RESP_RESULT, std_prepared(text))];
            };
            let mut lg = log_h.lock().unwrap();
            let k = lg[q].iter().filter(|e| matches!(e, Ev::Prep { .. })).count();
            let o = prep_scripts_h[q].get(k).cloned().unwrap_or_else(|| "p".to_owned());
            lg[q].push(Ev::Prep { o: o.clone() });
            return match o.as_str() {
                "pc" => {
                    let mut id = stmt_id(text);
                    if let Some(b) = id.last_mut() {
                        *b ^= 0xFF;
                    }
                    vec![Act::Respond(RESP_RESULT, std_prepared_with_id(text, &id))]
                }
                "pov" => vec![act_error(0x1001, "overloaded", &[])],
                "pbs" => vec![act_error(0x1002, "bootstrapping", &[])],
                "pcl" => vec![Act::Close],
                _ => vec![Act::Respond(RESP_RESULT, std_prepared(text))],
            };
        }
        // which request, which page, which consistency
        let (params, batch_cl) = match &r.parsed {
            Parsed::Query { params, .. } => (Some(params), None),
            Parsed::Execute { params, .. } => (Some(params), None),
            Parsed::Batch { consistency, .. } => (None, Some(*consistency)),
            _ => return vec![act_void()],
        };
        let q = if iter_kind { cur } else { request_of(r, n_req).or(cur) };
        let Some(q) = q else { return vec![act_void()] };
        let frame_cl = params.map(|p| p.consistency).or(batch_cl).unwrap_or(0xffff);
        let page = match params.and_then(|p| p.paging_state.as_ref()) {
            None => 0,
            Some(ps) if ps.len() == 3 && ps[0] == 0x50 && ps[1] == q as u8 => ps[2] as usize + 1,
            Some(_) => usize::MAX,
        };
        let mut lg = log_h.lock().unwrap();
        let k = lg[q].iter().filter(|e| matches!(e, Ev::Frame { .. })).count();
        let o = scripts_h[q].get(k).cloned().unwrap_or_else(|| "ok".to_owned());
        lg[q].push(Ev::Frame { o: o.clone(), node: r.node, conn: r.conn, page, cl: frame_cl });
        let ok_acts = || -> Vec<Act> {
            if iter_kind && page < pages {
                let rows: Vec<Vec<Cell>> =
                    (0..2).map(|i| { let v = (page * 2 + i) as i32; vec![Some(v.to_be_bytes().to_vec()), c_int(v)] }).collect();
                let st = if page + 1 < pages { Some(page_state(q, page)) } else { None };
                let with_cols = !params.map(|p| p.skip_metadata).unwrap_or(false);
                vec![Act::Respond(RESP_RESULT, rows_body(&row_specs(), with_cols, st.as_deref(), &rows))]
            } else {
                vec![act_void()]
            }
        };
        match o.as_str() {
            "ok" => ok_acts(),
            "slow" => {
                let mut v = vec![Act::Delay(Duration::from_millis(SLOW_MS))];
                v.extend(ok_acts());
                v
            }
            "unp" => unprepared_for(r),
            "unpx" => vec![Act::Respond(RESP_ERROR, crate::mocknode::body_unprepared(&[0xBA; 16]))],
            _ => outcome_acts(&o),
        }
    });
    let rt = runtime(1);
    rt.block_on(async {
        use scylla::client::execution_profile::ExecutionProfile;
        use scylla::policies::retry::*;
        use scylla::statement::Consistency;
        use scylla::statement::batch::{Batch, BatchType};
        use scylla::statement::unprepared::Statement;
        let inner: Arc<dyn RetryPolicy> = match pol {
            _ if kind == "sameconn" => Arc::new(SameOnBroken),
            "fall" => Arc::new(FallthroughRetryPolicy::new()),
            "down" => Arc::new(DowngradingConsistencyRetryPolicy::new()),
            _ => Arc::new(DefaultRetryPolicy::new()),
        };
        let policy: Arc<dyn RetryPolicy> = Arc::new(RecPolicy { inner, log: Arc::clone(&log), current: Arc::clone(&current) });
        let consistency = match cl {
            "serial" => Some(Consistency::Serial),
            "localserial" => Some(Consistency::LocalSerial),
            "all" => Some(Consistency::All),
            "eachquorum" => Some(Consistency::EachQuorum),
            _ => None,
        };
        let timeout = if tmo > 0 { Some(Duration::from_millis(tmo)) } else { None };
        // a profile carrying the policy / consistency under test, and decoys that must NOT be selected
        let real_profile = |with_timeout: bool| {
            let mut b = ExecutionProfile::builder().retry_policy(Arc::clone(&policy));
            if let Some(c) = consistency {
                b = b.consistency(c);
            }
            if with_timeout && timeout.is_some() {
                b = b.request_timeout(timeout);
            }
            b.build().into_handle()
        };
        let decoy_profile = |c: Consistency| {
            ExecutionProfile::builder().retry_policy(Arc::new(FallthroughRetryPolicy::new())).consistency(c).build().into_handle()
        };
        let tmo_profile = tmoat == "profile";
        // a profile DERIVED from a base profile: base.to_builder().<setters>.build(); what a setter of the chain sets is
        // a decoy on the base
        let derived_profile = |through_handle: bool| {
            let mut b = ExecutionProfile::builder();
            b = b.retry_policy(if der.contains(&"pol") { Arc::new(FallthroughRetryPolicy::new()) as Arc<dyn RetryPolicy> } else { Arc::clone(&policy) });
            if der.contains(&"cl") {
                b = b.consistency(Consistency::Three);
            } else if let Some(c) = consistency {
                b = b.consistency(c);
            }
            if der.contains(&"tm") {
                b = b.request_timeout(Some(Duration::from_millis(50)));
            } else if tmo_profile && timeout.is_some() {
                b = b.request_timeout(timeout);
            }
            let base = b.build();
            let mut d = if through_handle { base.into_handle().pointee_to_builder() } else { base.to_builder() };
            for op in &der {
                d = match *op {
                    "lb" => d.load_balancing_policy(Arc::new(scylla::policies::load_balancing::DefaultPolicy::default())),
                    "ser" => d.serial_consistency(Some(scylla::statement::SerialConsistency::Serial)),
                    "sp" => d.speculative_execution_policy(None),
                    "cl" => d.consistency(consistency.unwrap_or(Consistency::LocalQuorum)),
                    "tm" => d.request_timeout(if tmo_profile { timeout } else { None }),
                    _ => d.retry_policy(Arc::clone(&policy)),
                };
            }
            d.build().into_handle()
        };
        let session_default = match cfg {
            "profile" => Some(real_profile(tmo_profile)),
            "dprofile" => Some(derived_profile(false)),
            "handle" | "both" | "dhandle" => Some(decoy_profile(Consistency::Three)),
            // nothing configured anywhere: the driver's own default profile
            "none" => None,
            // cfg=stmt: only a profile-level timeout, if any
            _ if tmo_profile && timeout.is_some() => Some(ExecutionProfile::builder().request_timeout(timeout).build().into_handle()),
            _ => None,
        };
        let stmt_handle = match cfg {
            "handle" => Some(real_profile(tmo_profile)),
            "both" => Some(decoy_profile(Consistency::Two)),
            "dhandle" => Some(derived_profile(true)),
            _ => None,
        };
        let on_stmt = cfg == "stmt" || cfg == "both";
        let cluster = MockCluster::start(shape.topology(), handler).await;
        let sd = session_default.clone();
        let session = match connect(&cluster, move |b| {
            let b = match &sd {
                Some(h) => b.default_execution_profile_handle(h.clone()),
                None => b,
            };
            match std::num::NonZeroUsize::new(pool as usize) {
                Some(k) => b.pool_size(scylla::client::PoolSize::PerHost(k)),
                None => b,
            }
        })
        .await
        {
            Ok(s) => s,
            Err(skip) => return skip,
        };
        let stmt_timeout = if tmoat == "stmt" { timeout } else { None };
        let mut ps = match session.prepare(if iter_kind { SELECT_ALL } else { INSERT }).await {
            Ok(ps) => ps,
            Err(_) => return "e2e-skip prepare-failed".to_owned(),
        };
        if on_stmt {
            ps.set_retry_policy(Some(Arc::clone(&policy)));
            if let Some(c) = consistency {
                ps.set_consistency(c);
            }
        }
        if stmt_timeout.is_some() {
            ps.set_request_timeout(stmt_timeout);
        }
        ps.set_execution_profile_handle(stmt_handle.clone());
        if iter_kind {
            ps.set_page_size(2);
        }
        let configured = |text: String, idem: Option<bool>| {
            let mut st = Statement::new(text);
            if let Some(i) = idem {
                st.set_is_idempotent(i);
            }
            if on_stmt {
                st.set_retry_policy(Some(Arc::clone(&policy)));
                if let Some(c) = consistency {
                    st.set_consistency(c);
                }
            }
            if stmt_timeout.is_some() {
                st.set_request_timeout(stmt_timeout);
            }
            st.set_execution_profile_handle(stmt_handle.clone());
            st
        };
        // (the CachingSession owns the Session)
        let (plain, caching): (Option<scylla::client::session::Session>, Option<scylla::client::caching_session::CachingSession>) = if via == "caching" {
            (None, Some(scylla::client::caching_session::CachingSession::from(session, 4)))
        } else {
            (Some(session), None)
        };
        let session: &scylla::client::session::Session = match (&plain, &caching) {
            (Some(s), _) => s,
            (_, Some(cs)) => cs.get_session(),
            _ => unreachable!(),
        };
        // the single-connection pager: one hooked connection to node 0, the statement prepared on it
        let ctl_conn = if kind == "ctl" {
            match scylla::verif_hooks::connection::VerifConn::open(cluster.addr(0), Default::default()).await {
                Ok(c) => Some(c),
                Err(_) => return "e2e-skip ctl-connection-failed".to_owned(),
            }
        } else {
            None
        };
        let ctl_prepared = match &ctl_conn {
            Some(c) => match c.prepare(&Statement::new(SELECT_ALL)).await {
                Ok(mut p) => {
                    if let Some(c) = consistency {
                        p.set_consistency(c);
                    }
                    p.set_page_size(2);
                    Some(p)
                }
                Err(_) => return "e2e-skip ctl-prepare-failed".to_owned(),
            },
            None => None,
        };
        let mut kinds: Vec<String> = Vec::new();
        for q in 0..n_req {
            if kind == "sameconn" {
                // every node must have all its `pool` connections before the request (the cluster's own notion of a
                // full pool is one connection per shard)
                let t0 = std::time::Instant::now();
                let live = |i: usize| cluster.conns().iter().filter(|c| c.node == i && c.ready.is_some() && c.closed.is_none() && !c.control).count();
                while (0..n).any(|i| live(i) < pool as usize) && t0.elapsed() < Duration::from_secs(8) {
                    tokio::time::sleep(Duration::from_millis(10)).await;
                }
                if (0..n).any(|i| live(i) < pool as usize) {
                    return "e2e-skip pool-not-filled".to_owned();
                }
            }
            let idem_q = idem_set_of(q);
            let mut ps = ps.clone();
            if let Some(i) = idem_q {
                ps.set_is_idempotent(i);
            }
            let configured = |text: String| configured(text, idem_q);
            *current.lock().unwrap() = Some(q);
            let res: Result<(), String> = match (kind, &caching) {
                ("exec", None) => session.execute_unpaged(&ps, (key_of(q), 0i32)).await.map(|_| ()).map_err(|e| error_kind(&e).to_owned()),
                ("exec", Some(cs)) => {
                    cs.execute_unpaged(configured(INSERT.to_owned()), (key_of(q), 0i32)).await.map(|_| ()).map_err(|e| error_kind(&e).to_owned())
                }
                ("query", None) => session.query_unpaged(configured(text_of(q)), ()).await.map(|_| ()).map_err(|e| error_kind(&e).to_owned()),
                // an unprepared statement WITH values: prepared and executed inside every attempt
                ("qvals", _) => {
                    session.query_unpaged(configured(INSERT.to_owned()), (key_of(q), 0i32)).await.map(|_| ()).map_err(|e| error_kind(&e).to_owned())
                }
                // prepared by the CachingSession, executed without values
                ("query", Some(cs)) => cs.execute_unpaged(configured(text_of(q)), ()).await.map(|_| ()).map_err(|e| error_kind(&e).to_owned()),
                ("ctl", _) => {
                    let mut p = ctl_prepared.clone().unwrap();
                    if let Some(i) = idem_q {
                        p.set_is_idempotent(i);
                    }
                    match ctl_conn.as_ref().unwrap().execute_iter_raw(p, scylla_cql::serialize::row::SerializedValues::new()).await {
                        Err(e) => Err(next_row_error_kind(&e).to_owned()),
                        Ok(pager) => match pager.rows_stream::<(Vec<u8>, i32)>() {
                            Err(_) => Err("typecheck".to_owned()),
                            Ok(mut stream) => {
                                use futures::StreamExt;
                                let mut out = Ok(());
                                while let Some(item) = stream.next().await {
                                    if let Err(e) = item {
                                        out = Err(next_row_error_kind(&e).to_owned());
                                        break;
                                    }
                                }
                                out
                            }
                        },
                    }
                }
                ("sameconn", _) => session.execute_unpaged(&ps, (key_of(q), 0i32)).await.map(|_| ()).map_err(|e| error_kind(&e).to_owned()),
                ("itere", _) | ("iterq", _) => {
                    // the transparent pager: consume the row stream to its end or first error
                    let pager = if kind == "itere" {
                        session.execute_iter(ps.clone(), ()).await
                    } else {
                        let mut st = configured(SELECT_ALL.to_owned());
                        st.set_page_size(2);
                        session.query_iter(st, ()).await
                    };
                    match pager {
                        Err(e) => Err(match &e {
                            scylla::errors::PagerExecutionError::NextPageError(scylla::errors::NextPageError::RequestFailure(r)) => {
                                request_error_kind(r).to_owned()
                            }
                            _ => "pager-other".to_owned(),
                        }),
                        Ok(pager) => match pager.rows_stream::<(Vec<u8>, i32)>() {
                            Err(_) => Err("typecheck".to_owned()),
                            Ok(mut stream) => {
                                use futures::StreamExt;
                                let mut out = Ok(());
                                while let Some(item) = stream.next().await {
                                    if let Err(e) = item {
                                        out = Err(next_row_error_kind(&e).to_owned());
                                        break;
                                    }
                                }
                                out
                            }
                        },
                    }
                }
                ("batchv", _) => {
                    let mut b = Batch::new(BatchType::Logged);
                    b.append_statement(ps.clone());
                    // unprepared WITH a value: prepare_batch prepares it on the connection in every attempt
                    b.append_statement(Statement::new("INSERT INTO ks.t (pk, v) VALUES (?, 1)"));
                    if let Some(i) = idem_q {
                        b.set_is_idempotent(i);
                    }
                    if on_stmt {
                        b.set_retry_policy(Some(Arc::clone(&policy)));
                        if let Some(c) = consistency {
                            b.set_consistency(c);
                        }
                    }
                    if stmt_timeout.is_some() {
                        b.set_request_timeout(stmt_timeout);
                    }
                    b.set_execution_profile_handle(stmt_handle.clone());
                    session.batch(&b, ((key_of(q), 0i32), (vec![0u8],))).await.map(|_| ()).map_err(|e| error_kind(&e).to_owned())
                }
                _ => {
                    let mut b = Batch::new(BatchType::Logged);
                    b.append_statement(ps.clone());
                    b.append_statement(Statement::new("INSERT INTO ks.t (pk, v) VALUES (0x00, 1)"));
                    if let Some(i) = idem_q {
                        b.set_is_idempotent(i);
                    }
                    if on_stmt {
                        b.set_retry_policy(Some(Arc::clone(&policy)));
                        if let Some(c) = consistency {
                            b.set_consistency(c);
                        }
                    }
                    if stmt_timeout.is_some() {
                        b.set_request_timeout(stmt_timeout);
                    }
                    b.set_execution_profile_handle(stmt_handle.clone());
                    match &caching {
                        None => session.batch(&b, ((key_of(q), 0i32), ())).await.map(|_| ()).map_err(|e| error_kind(&e).to_owned()),
                        // the unprepared statement sends the batch through prepare_batch
                        Some(cs) => cs.batch(&b, ((key_of(q), 0i32), ())).await.map(|_| ()).map_err(|e| error_kind(&e).to_owned()),
                    }
                }
            };
            // (a node that answers `slow` after the request timeout still writes its late answer: let it)
            if tmo > 0 {
                tokio::time::sleep(Duration::from_millis(SLOW_MS + 50)).await;
            }
            *current.lock().unwrap() = None;
            kinds.push(match &res {
                Ok(()) => "ok".to_owned(),
                Err(k) => format!("err:{}", k),
            });
            // a closed connection is re-opened by the pool; start the next request from full pools again
            cluster.wait_pools_full(&session, Duration::from_secs(3)).await;
        }
        // ------------------------------------------------------------------ oracle
        let log = log.lock().unwrap().clone();
        let mut summary = Vec::new();
        let unp = |o: &str| o == "unp" || o == "unpx";
        for q in 0..n_req {
            let idem = if idem_of(q) { 1 } else { 0 };
            let conns: Vec<usize> = log[q].iter().filter_map(|e| match e { Ev::Frame { conn, .. } => Some(*conn), _ => None }).collect();
            let frames: Vec<(&str, usize, usize, u16)> = log[q]
                .iter()
                .filter_map(|e| match e {
                    Ev::Frame { o, node, page, cl, .. } => Some((o.as_str(), *node, *page, *cl)),
                    _ => None,
                })
                .collect();
            let sv: Vec<&str> = frames.iter().map(|f| f.0).collect();
            let preps: Vec<&str> = log[q].iter().filter_map(|e| match e { Ev::Prep { o } => Some(o.as_str()), _ => None }).collect();
            let what = format!(
                "request {} ({}, {}, policy {} configured on {}{}, cl {}, via {})",
                q, if idem != 0 { "idempotent" } else { "NOT idempotent" }, kind, pol, cfg,
                if derived { format!(" der={}", if der.is_empty() { "-".to_owned() } else { der.join(".") }) } else { String::new() }, cl, via
            );
            // (a) frame level: a frame asking for the same page as its predecessor is a RE-SEND of that page request
            if idem == 0 && kind != "sameconn" {
                for k in 1..frames.len() {
                    let prev = frames[k - 1].0;
                    if frames[k].2 == frames[k - 1].2 && !PROOF.contains(&prev) && !unp(prev) {
                        ctx.fail(format!(
                            "e2e retry: {} was sent again (frame {} for page {} at node {}) after `{}`, which does not prove that the previous attempt was not applied; served outcomes {:?}",
                            what, k + 1, frames[k].2, frames[k].1, prev, sv
                        ));
                        break;
                    }
                }
            }
            // (a') `sameconn`: after a closed connection the policy asked for the SAME node again: the frame must go out on
            //      another connection of it, and the request must succeed in the end
            if kind == "sameconn" {
                for k in 1..frames.len() {
                    if frames[k - 1].0 == "cl" && (frames[k].1 != frames[k - 1].1 || conns[k] == conns[k - 1]) {
                        ctx.fail(format!("e2e retry: {}: after connection {} of node {} was closed, the RetrySameTarget attempt went to node {} connection {}; served {:?}", what, conns[k - 1], frames[k - 1].1, frames[k].1, conns[k], sv));
                    }
                }
                let closes = sv.iter().filter(|o| **o == "cl").count();
                if closes >= 1 && closes < pool as usize && sv.iter().all(|o| *o == "cl" || *o == "ok") && sv.last() != Some(&"ok") {
                    ctx.fail(format!("e2e retry: {}: {} of the node's {} connections were closed and the policy keeps asking for the same node, but the request was not sent on a live connection (result `{}`); served {:?}", what, closes, pool, kinds[q], sv));
                }
            }
            // (a'') the single-connection pager never retries: one attempt per page
            if kind == "ctl" {
                for pg in 0..pages {
                    let fv: Vec<&str> = frames.iter().filter(|f| f.2 == pg).map(|f| f.0).collect();
                    let attempts = if fv.is_empty() { 0 } else { 1 + (1..fv.len()).filter(|k| !unp(fv[k - 1])).count() };
                    if attempts > 1 {
                        ctx.fail(format!("e2e retry: {}: page {} of the single-connection pager was attempted {} times; served {:?}", what, pg, attempts, sv));
                    }
                }
            }
            // (f) "exactly the attempts the policy decided - no more": between a statement frame and its re-send the
            //     CONFIGURED policy (recording wrapper) decided a retry.  (cfg=none: the driver's own default policy
            //     object decides, nothing records; ctl: hard-coded policy, judged by (a'').)
            if cfg != "none" && kind != "ctl" {
                let mut prev: Option<(&str, usize)> = None;
                let mut decided = false;
                let mut k = 0usize;
                for e in &log[q] {
                    match e {
                        Ev::Dec { retry, .. } => decided = decided || *retry,
                        Ev::Frame { o, page, .. } => {
                            k += 1;
                            if let Some((po, pp)) = prev {
                                if pp == *page && !unp(po) && !decided {
                                    ctx.fail(format!(
                                        "e2e retry: {} was sent again (frame {} for page {}, previous answer `{}`) although the configured retry policy decided no retry in between (a policy nobody configured governs the request); events {:?}",
                                        what, k, page, po, log[q]
                                    ));
                                    break;
                                }
                            }
                            prev = Some((o.as_str(), *page));
                            decided = false;
                        }
                        Ev::Prep { .. } => {}
                    }
                }
            }
            // (b) pages are asked for in order, the next one only after an `ok`
            for k in 0..frames.len() {
                let expect_page = frames[..k].iter().filter(|f| f.0 == "ok" || f.0 == "slow").count();
                if frames[k].2 != expect_page {
                    ctx.fail(format!("e2e retry: {}: frame {} asks for page {} but {} page(s) were served; served {:?}", what, k + 1, frames[k].2 as i64, expect_page, sv));
                    break;
                }
            }
            // (c) every frame carries the consistency decided at the previous attempt of the same page request, else
            //     the configured one (the events are in the order they happened)
            let mut cur_cl = stmt_cl;
            let mut cur_page = 0usize;
            for e in &log[q] {
                match e {
                    Ev::Dec { retry: true, new_cl: Some(c), .. } => cur_cl = *c,
                    Ev::Frame { page, cl: fcl, o, .. } => {
                        if *page != cur_page {
                            cur_page = *page;
                            cur_cl = stmt_cl; // every page request starts from the statement's consistency again
                        }
                        if *fcl != cur_cl {
                            ctx.fail(format!(
                                "e2e retry: {}: a frame (answered `{}`) carried consistency {} but the policy's last decision / the configuration says {}; events {:?}",
                                what, o, cl_short(*fcl), cl_short(cur_cl), log[q]
                            ));
                            break;
                        }
                    }
                    _ => {}
                }
            }
            // (d) attempts: exact when every PREPARE of the request was answered normally and nothing was paged
            let plain_prepares = preps.iter().all(|p| *p == "p") && kind != "qvals" && kind != "batchv";
            for pg in 0..=frames.iter().map(|f| f.2).filter(|p| *p != usize::MAX).max().unwrap_or(0) {
                let fv: Vec<&str> = frames.iter().filter(|f| f.2 == pg).map(|f| f.0).collect();
                if fv.is_empty() || !plain_prepares {
                    continue;
                }
                let attempts = 1 + (1..fv.len()).filter(|k| !unp(fv[k - 1])).count();
                if kind == "sameconn" || kind == "ctl" {
                    continue;
                }
                if pol == "fall" && attempts > 1 {
                    ctx.fail(format!("e2e retry: {} (page {}) was attempted {} times although the fall-through policy never retries; served {:?}", what, pg, attempts, sv));
                }
                if (cl == "serial" || cl == "localserial") && pol == "def" && attempts > 1 {
                    ctx.fail(format!("e2e retry: {} (page {}) at serial consistency was attempted {} times by the default policy; served {:?}", what, pg, attempts, sv));
                }
                if attempts > n + 2 {
                    ctx.fail(format!("e2e retry: {} (page {}) was attempted {} times on a cluster of {} nodes (bound: nodes + 2); served {:?}", what, pg, attempts, n, sv));
                }
                // QUERY without values is never re-sent inside an attempt, EXECUTE at most once (connection.rs:1102-1133)
                let plain_query = (kind == "query" && via == "session") || kind == "iterq";
                for k in 1..fv.len() {
                    if plain_query && unp(fv[k - 1]) {
                        ctx.fail(format!("e2e retry: {} (a QUERY without values) was sent again after UNPREPARED; served {:?}", what, sv));
                    }
                    if kind != "batch" && !plain_query && k >= 2 && unp(fv[k - 1]) && unp(fv[k - 2]) {
                        ctx.fail(format!("e2e retry: {} was sent a third time inside one attempt (two UNPREPARED answers in a row); served {:?}", what, sv));
                    }
                }
            }
            // (e) the end: nothing after the last page was served / after the timeout fired
            let served_ok = sv.iter().filter(|o| **o == "ok" || **o == "slow").count();
            let want_ok = if iter_kind { pages } else { 1 };
            // (under cfg=both the profile-level timeout sits on neither decoy profile: none is in force)
            let tmo_in_force = tmo > 0 && (tmoat == "stmt" || cfg != "both");
            let timed_out = tmo_in_force && tmo < SLOW_MS && sv.contains(&"slow");
            if timed_out {
                if sv.last() != Some(&"slow") {
                    ctx.fail(format!("e2e retry: {} was sent again after the request timeout of {} ms had fired; served {:?}", what, tmo, sv));
                }
                if kinds[q] != "err:timeout" {
                    ctx.fail(format!("e2e retry: {}: the node answered after {} ms, the request timeout is {} ms, but the caller got `{}`", what, SLOW_MS, tmo, kinds[q]));
                }
            } else if served_ok == want_ok {
                if !matches!(sv.last(), Some(&"ok") | Some(&"slow")) {
                    ctx.fail(format!("e2e retry: {} was sent again after it had succeeded; served {:?}", what, sv));
                } else if kinds[q] != "ok" {
                    ctx.fail(format!("e2e retry: {} got `{}` although its last attempt was answered with success; served {:?}", what, kinds[q], sv));
                }
            } else if served_ok > want_ok {
                ctx.fail(format!("e2e retry: {} was answered with success {} times; served {:?}", what, served_ok, sv));
            }
            // statement frames (per page for the pagers), PREPARE frames sent during the request (via=session), result
            // with the error kind, consistency of every statement frame
            let counts = if iter_kind {
                let maxp = frames.iter().map(|f| f.2).filter(|p| *p != usize::MAX).max().unwrap_or(0);
                (0..=maxp).map(|pg| frames.iter().filter(|f| f.2 == pg).count().to_string()).collect::<Vec<_>>().join("+")
            } else {
                frames.len().to_string()
            };
            let np = if scripted_prepares { preps.len().to_string() } else { "-".to_owned() };
            let cls = if frames.is_empty() { "-".to_owned() } else { frames.iter().map(|f| cl_short(f.3)).collect::<Vec<_>>().join(",") };
            if std::env::var("C06_DEBUG").is_ok() {
                eprintln!("request {} events {:?}", q, log[q]);
            }
            summary.push(format!("{}/{}:{}@{}", counts, np, kinds[q], cls));
        }
        format!("retry {}", summary.join(" "))
    })
}

//! C06 end-to-end: `e2e retry n=<nodes> sh=<shards> pol=<def|fall|down> idem=<0|1> kind=<exec|query|batch>
//! cl=<q|serial|localserial> via=<session|caching>
//! seed=<s> scripts=<o.o.o/o.o/...>`
//!
//! One logical request per script, sent one after another through a real Session; the k-th frame of a logical
//! request that reaches ANY node is answered with the k-th outcome of its script (then `ok`):
//! `ok`, `un` Unavailable, `bs` IsBootstrapping, `rt` ReadTimeout (enough replies, no data), `rtd` ReadTimeout (data
//! present), `ov` Overloaded, `se` ServerError, `tr` TruncateError, `wt` WriteTimeout SIMPLE, `wtb` WriteTimeout
//! BATCH_LOG, `inv` Invalid, `cl` the node closes the connection without answering, `unp` UNPREPARED (naming the id
//! of the frame's own prepared statement; only scripted by the `wire` cases of c06.rs, which run this same code and
//! are additionally compared with the frame-level model `Model/RetryFrames.lean`).
//!
//! `unpx`: UNPREPARED naming an id that belongs to no statement of the request. A script may be followed by
//! `~<p.p.p>`: the answers to the PREPARE frames sent during that request (`PREP_ANSWERS`; default `p`); kinds `qvals`
//! (an unprepared statement WITH values: PREPARE + EXECUTE in every attempt, session.rs:1424-1438) and `batchv` (a batch
//! with an unprepared statement with values: `prepare_batch` sends a PREPARE in every attempt) exist for the `wire` cases.
//!
//! With `unp` the statement is sent again INSIDE one attempt (EXECUTE once more after the re-prepare, BATCH in a
//! loop), so the oracle below is stated at frame level: an ATTEMPT starts at the first frame and after every frame
//! whose predecessor was not answered `unp`.
//!
//! `via=caching`: the requests go through a `CachingSession` (`execute_unpaged(text, values)`; `batch` with an
//! unprepared statement, i.e. through `prepare_batch`) - idempotence, retry policy and consistency are set on the
//! Statement / Batch handed to it and must still govern the retries.
//!
//! ORACLE (C06's statement, counted at the nodes; no model, no policy code involved):
//!  * a request not marked idempotent is sent again only directly after Unavailable / IsBootstrapping / ReadTimeout -
//!    never after a closed connection, Overloaded / ServerError / TruncateError, WriteTimeout (or anything else);
//!  * with the default policy a request at serial consistency (SERIAL or LOCAL_SERIAL) is sent once;
//!  * with the fall-through policy every request is sent once (the driver sends exactly the attempts the policy decided);
//!  * the number of frames of one request is at most (number of nodes) + 2;
//!  * nothing is sent after an attempt was answered `ok`, and then the caller gets Ok.
use super::common::*;
use crate::mockcluster::*;
use crate::mocknode::{BatchStmt, Parsed};
use crate::rng::Rng;
use crate::{Ctx, Tier};
use std::sync::{Arc, Mutex};
use std::time::Duration;

const OUTCOMES: &[&str] = &["ok", "un", "bs", "rt", "rtd", "ov", "se", "tr", "wt", "wtb", "inv", "cl", "unp", "unpx"];
/// answers to the PREPARE frames sent DURING a request (via=session only): ok, ok with ANOTHER id, Overloaded,
/// IsBootstrapping, the node closes the connection
const PREP_ANSWERS: &[&str] = &["p", "pc", "pov", "pbs", "pcl"];
/// outcomes that prove the attempt was not applied
const PROOF: &[&str] = &["un", "bs", "rt", "rtd"];

pub fn generate(rng: &mut Rng, tier: Tier, emit: &mut dyn FnMut(String)) {
    let n_cases = if tier == Tier::Quick { 48 } else { 480 };
    for i in 0..n_cases {
        let n = 1 + rng.below(4);
        let sh = *rng.pick(&[0u64, 0, 2]);
        let pol = *rng.pick(&["def", "def", "def", "down", "fall"]);
        // the statement is about non-idempotent requests: most cases
        let idem = if i % 3 == 2 { 1 } else { 0 };
        let kind = *rng.pick(&["exec", "exec", "query", "batch"]);
        let cl = if pol == "def" && rng.chance(1, 8) { *rng.pick(&["serial", "localserial"]) } else { "q" };
        let n_req = 3 + rng.below(3);
        let mut scripts = Vec::new();
        for _ in 0..n_req {
            let len = 1 + rng.below(n + 3);
            let mut s = Vec::new();
            for k in 0..len {
                let o = if k + 1 == len && rng.bool() {
                    "ok"
                } else if rng.chance(1, 2) {
                    // weight the proof-of-non-application outcomes, so that histories get long
                    *rng.pick(PROOF)
                } else {
                    *rng.pick(&OUTCOMES[1..])
                };
                s.push(o);
                if o == "ok" {
                    break;
                }
            }
            scripts.push(s.join("."));
        }
        emit(format!(
            "e2e retry n={} sh={} pol={} idem={} kind={} cl={} via={} seed={} scripts={}",
            n,
            sh,
            pol,
            idem,
            kind,
            cl,
            if i % 4 == 1 { "caching" } else { "session" },
            rng.below(1 << 32),
            scripts.join("/")
        ));
    }
}

fn outcome_acts(o: &str) -> Vec<Act> {
    match o {
        "ok" => vec![act_void()],
        "un" => vec![err_unavailable(0x0004, 2, 1)],
        "bs" => vec![act_error(0x1002, "bootstrapping", &[])],
        "rt" => vec![err_read_timeout(0x0004, 2, 2, false)],
        "rtd" => vec![err_read_timeout(0x0004, 1, 2, true)],
        "ov" => vec![act_error(0x1001, "overloaded", &[])],
        "se" => vec![act_error(0x0000, "server error", &[])],
        "tr" => vec![act_error(0x1003, "truncate error", &[])],
        "wt" => vec![err_write_timeout(0x0004, 1, 2, "SIMPLE")],
        "wtb" => vec![err_write_timeout(0x0004, 1, 2, "BATCH_LOG")],
        "inv" => vec![act_error(0x2200, "invalid", &[])],
        "cl" => vec![Act::Close],
        _ => vec![act_void()],
    }
}

/// UNPREPARED naming the prepared statement of the frame itself (so that the driver re-prepares and sends again).
fn unprepared_for(r: &Req) -> Vec<Act> {
    let id: Vec<u8> = match &r.parsed {
        Parsed::Execute { id, .. } => id.clone(),
        Parsed::Batch { statements, .. } => statements
            .iter()
            .find_map(|s| match s {
                BatchStmt::Prepared(id, _) => Some(id.clone()),
                _ => None,
            })
            .unwrap_or_else(|| stmt_id(INSERT)),
        _ => stmt_id(INSERT),
    };
    vec![Act::Respond(crate::mocknode::RESP_ERROR, crate::mocknode::body_unprepared(&id))]
}

/// `std_prepared` with a chosen statement id.
fn std_prepared_with_id(text: &str, id: &[u8]) -> Vec<u8> {
    let marks = text.matches('?').count();
    let mut bind: Vec<(&str, CqlT)> = Vec::new();
    if marks >= 1 {
        bind.push(("pk", CqlT::Native(T_BLOB)));
    }
    if marks >= 2 {
        bind.push(("v", CqlT::Native(T_INT)));
    }
    let pk: &[u16] = if marks >= 1 { &[0] } else { &[] };
    prepared_body(id, &Specs::new("ks", "t", &bind), pk, None)
}

/// Kind of the error the caller got (the model prints the same names).
fn error_kind(e: &scylla::errors::ExecutionError) -> &'static str {
    use scylla::errors::{DbError, ExecutionError, RequestAttemptError};
    match e {
        ExecutionError::LastAttemptError(a) => match a {
            RequestAttemptError::DbError(db, _) => match db {
                DbError::Unavailable { .. } => "un",
                DbError::IsBootstrapping => "bs",
                DbError::ReadTimeout { .. } => "rt",
                DbError::Overloaded => "ov",
                DbError::ServerError => "se",
                DbError::TruncateError => "tr",
                DbError::WriteTimeout { .. } => "wt",
                DbError::Invalid => "inv",
                DbError::Unprepared { .. } => "unp",
                _ => "db-other",
            },
            RequestAttemptError::BrokenConnectionError(_) => "cl",
            RequestAttemptError::RepreparedIdChanged { .. } => "idchg",
            RequestAttemptError::RepreparedIdMissingInBatch => "idmiss",
            RequestAttemptError::UnableToAllocStreamId => "alloc",
            _ => "attempt-other",
        },
        ExecutionError::ConnectionPoolError(_) => "pool",
        ExecutionError::EmptyPlan => "emptyplan",
        ExecutionError::RequestTimeout(_) => "timeout",
        _ => "other",
    }
}

fn key_of(req: usize) -> Vec<u8> {
    vec![0xE0, req as u8, 0x5A]
}

fn text_of(req: usize) -> String {
    format!("INSERT INTO ks.t (pk, v) VALUES (0x{}, 0)", crate::util::hex(&key_of(req)))
}

/// Which logical request a frame belongs to.
fn request_of(r: &Req, n_req: usize) -> Option<usize> {
    let by_key = |v: &Option<Vec<u8>>| (0..n_req).find(|i| v.as_deref() == Some(&key_of(*i)[..]));
    let by_text = |t: &str| (0..n_req).find(|i| t == text_of(*i));
    match &r.parsed {
        Parsed::Execute { id, params, .. } => {
            params.values.first().and_then(by_key).or_else(|| (0..n_req).find(|i| *id == stmt_id(&text_of(*i))))
        }
        Parsed::Query { text, .. } => by_text(text),
        Parsed::Batch { statements, .. } => statements.iter().find_map(|s| match s {
            BatchStmt::Query(t, _) => by_text(t),
            BatchStmt::Prepared(_, v) => v.first().and_then(by_key),
        }),
        _ => None,
    }
}

pub fn run(words: &[&str], ctx: &mut Ctx) -> String {
    let Some(p) = Params::parse(words) else { return "bad-case".into() };
    let (Some(n), Some(sh), Some(idem), Some(seed)) = (p.num("n"), p.num_or("sh", 0), p.num_or("idem", 0), p.num_or("seed", 1)) else {
        return "bad-case".into();
    };
    let (pol, kind, cl) = (p.str("pol").unwrap_or("def"), p.str("kind").unwrap_or("exec"), p.str("cl").unwrap_or("q"));
    if !(1..=8).contains(&n) || sh > 8 || !["def", "fall", "down"].contains(&pol) || !["exec", "query", "batch", "qvals", "batchv"].contains(&kind) || !["q", "serial", "localserial"].contains(&cl) {
        return "bad-case".into();
    }
    let via = p.str("via").unwrap_or("session");
    if !["session", "caching"].contains(&via) {
        return "bad-case".into();
    }
    let Some(scripts_s) = p.str("scripts") else { return "bad-case".into() };
    let split2 = |s: &str| -> (String, String) {
        match s.split_once('~') {
            Some((a, b)) => (a.to_owned(), b.to_owned()),
            None => (s.to_owned(), String::new()),
        }
    };
    let scripts: Vec<Vec<String>> = scripts_s.split('/').map(|s| split2(s).0.split('.').map(|o| o.to_owned()).collect()).collect();
    let prep_scripts: Vec<Vec<String>> =
        scripts_s.split('/').map(|s| split2(s).1.split('.').filter(|o| !o.is_empty()).map(|o| o.to_owned()).collect()).collect();
    if scripts.len() > 64
        || scripts.iter().flatten().any(|o| !OUTCOMES.contains(&o.as_str()))
        || prep_scripts.iter().flatten().any(|o| !PREP_ANSWERS.contains(&o.as_str()))
        || (via != "session" && (prep_scripts.iter().any(|p| !p.is_empty()) || kind == "qvals" || kind == "batchv"))
    {
        return "bad-case".into();
    }
    let n = n as usize;
    let shape = Shape { nodes: n, dcs: 1, racks: 1, shards: sh as u16, msb: 12, vnodes: 2, strat: Strat::Simple(n.min(2)), seed };
    let n_req = scripts.len();
    // served[r] = outcomes actually served for request r, with the node
    let served: Arc<Mutex<Vec<Vec<(String, usize)>>>> = Arc::new(Mutex::new(vec![Vec::new(); n_req]));
    let served_h = Arc::clone(&served);
    let scripts_h = scripts.clone();
    // the request being executed (requests run one after another); PREPARE frames seen meanwhile belong to it
    let current: Arc<Mutex<Option<usize>>> = Arc::new(Mutex::new(None));
    let current_h = Arc::clone(&current);
    let prep_served: Arc<Mutex<Vec<Vec<String>>>> = Arc::new(Mutex::new(vec![Vec::new(); n_req]));
    let prep_served_h = Arc::clone(&prep_served);
    let prep_scripts_h = prep_scripts.clone();
    let scripted_prepares = via == "session";
    let handler: ClusterHandler = Box::new(move |r: &Req| {
        if let Parsed::Prepare { text } = &r.parsed {
            let cur = *current_h.lock().unwrap();
            let Some(q) = cur.filter(|_| scripted_prepares) else {
                return vec![Act::Respond(crate::mocknode::RESP_RESULT, std_prepared(text))];
            };
            let mut ps = prep_served_h.lock().unwrap();
            let k = ps[q].len();
            let o = prep_scripts_h[q].get(k).cloned().unwrap_or_else(|| "p".to_owned());
            ps[q].push(o.clone());
            return match o.as_str() {
                "pc" => {
                    let mut id = stmt_id(text);
                    if let Some(b) = id.last_mut() {
                        *b ^= 0xFF;
                    }
                    vec![Act::Respond(crate::mocknode::RESP_RESULT, std_prepared_with_id(text, &id))]
                }
                "pov" => vec![act_error(0x1001, "overloaded", &[])],
                "pbs" => vec![act_error(0x1002, "bootstrapping", &[])],
                "pcl" => vec![Act::Close],
                _ => vec![Act::Respond(crate::mocknode::RESP_RESULT, std_prepared(text))],
            };
        }
        let Some(q) = request_of(r, n_req) else { return vec![act_void()] };
        let mut sv = served_h.lock().unwrap();
        let k = sv[q].len();
        let o = scripts_h[q].get(k).cloned().unwrap_or_else(|| "ok".to_owned());
        sv[q].push((o.clone(), r.node));
        if o == "unp" {
            unprepared_for(r)
        } else if o == "unpx" {
            vec![Act::Respond(crate::mocknode::RESP_ERROR, crate::mocknode::body_unprepared(&[0xBA; 16]))]
        } else {
            outcome_acts(&o)
        }
    });
    let rt = runtime(1);
    rt.block_on(async {
        use scylla::policies::retry::*;
        use scylla::statement::Consistency;
        use scylla::statement::batch::{Batch, BatchType};
        use scylla::statement::unprepared::Statement;
        let cluster = MockCluster::start(shape.topology(), handler).await;
        let session = match connect(&cluster, |b| b).await {
            Ok(s) => s,
            Err(skip) => return skip,
        };
        let policy: Arc<dyn RetryPolicy> = match pol {
            "fall" => Arc::new(FallthroughRetryPolicy::new()),
            "down" => Arc::new(DowngradingConsistencyRetryPolicy::new()),
            _ => Arc::new(DefaultRetryPolicy::new()),
        };
        let mut ps = match session.prepare(INSERT).await {
            Ok(ps) => ps,
            Err(_) => return "e2e-skip prepare-failed".to_owned(),
        };
        let consistency = match cl {
            "serial" => Some(Consistency::Serial),
            "localserial" => Some(Consistency::LocalSerial),
            _ => None,
        };
        ps.set_is_idempotent(idem != 0);
        ps.set_retry_policy(Some(Arc::clone(&policy)));
        if let Some(c) = consistency {
            ps.set_consistency(c);
        }
        let configured = |text: String| {
            let mut st = Statement::new(text);
            st.set_is_idempotent(idem != 0);
            st.set_retry_policy(Some(Arc::clone(&policy)));
            if let Some(c) = consistency {
                st.set_consistency(c);
            }
            st
        };
        // (the CachingSession owns the Session)
        let (plain, caching): (Option<scylla::client::session::Session>, Option<scylla::client::caching_session::CachingSession>) = if via == "caching" {
            (None, Some(scylla::client::caching_session::CachingSession::from(session, 4)))
        } else {
            (Some(session), None)
        };
        let session: &scylla::client::session::Session = match (&plain, &caching) {
            (Some(s), _) => s,
            (_, Some(cs)) => cs.get_session(),
            _ => unreachable!(),
        };
        let mut results: Vec<bool> = Vec::new();
        let mut kinds: Vec<String> = Vec::new();
        for q in 0..n_req {
            *current.lock().unwrap() = Some(q);
            let res: Result<(), scylla::errors::ExecutionError> = match (kind, &caching) {
                ("exec", None) => session.execute_unpaged(&ps, (key_of(q), 0i32)).await.map(|_| ()),
                ("exec", Some(cs)) => cs.execute_unpaged(configured(INSERT.to_owned()), (key_of(q), 0i32)).await.map(|_| ()),
                ("query", None) => session.query_unpaged(configured(text_of(q)), ()).await.map(|_| ()),
                // an unprepared statement WITH values: prepared and executed inside every attempt
                ("qvals", _) => session.query_unpaged(configured(INSERT.to_owned()), (key_of(q), 0i32)).await.map(|_| ()),
                // prepared by the CachingSession, executed without values
                ("query", Some(cs)) => cs.execute_unpaged(configured(text_of(q)), ()).await.map(|_| ()),
                ("batchv", _) => {
                    let mut b = Batch::new(BatchType::Logged);
                    b.append_statement(ps.clone());
                    // unprepared WITH a value: prepare_batch prepares it on the connection in every attempt
                    b.append_statement(Statement::new("INSERT INTO ks.t (pk, v) VALUES (?, 1)"));
                    b.set_is_idempotent(idem != 0);
                    b.set_retry_policy(Some(Arc::clone(&policy)));
                    if let Some(c) = consistency {
                        b.set_consistency(c);
                    }
                    session.batch(&b, ((key_of(q), 0i32), (vec![0u8],))).await.map(|_| ())
                }
                _ => {
                    let mut b = Batch::new(BatchType::Logged);
                    b.append_statement(ps.clone());
                    b.append_statement(Statement::new("INSERT INTO ks.t (pk, v) VALUES (0x00, 1)"));
                    b.set_is_idempotent(idem != 0);
                    b.set_retry_policy(Some(Arc::clone(&policy)));
                    if let Some(c) = consistency {
                        b.set_consistency(c);
                    }
                    match &caching {
                        None => session.batch(&b, ((key_of(q), 0i32), ())).await.map(|_| ()),
                        // the unprepared statement sends the batch through prepare_batch
                        Some(cs) => cs.batch(&b, ((key_of(q), 0i32), ())).await.map(|_| ()),
                    }
                }
            };
            *current.lock().unwrap() = None;
            results.push(res.is_ok());
            kinds.push(match &res {
                Ok(()) => "ok".to_owned(),
                Err(e) => format!("err:{}", error_kind(e)),
            });
            // a closed connection is re-opened by the pool; start the next request from full pools again
            cluster.wait_pools_full(&session, Duration::from_secs(3)).await;
        }
        // ------------------------------------------------------------------ oracle
        let served = served.lock().unwrap().clone();
        let prep_served = prep_served.lock().unwrap().clone();
        let mut summary = Vec::new();
        for q in 0..n_req {
            let sv: Vec<&str> = served[q].iter().map(|x| x.0.as_str()).collect();
            let what = format!("request {} ({}, {}, policy {}, cl {}, via {})", q, if idem != 0 { "idempotent" } else { "NOT idempotent" }, kind, pol, cl, via);
            // frames that START an attempt: the first one and every one whose predecessor was not answered UNPREPARED
            let attempts = if sv.is_empty() { 0 } else { 1 + (1..sv.len()).filter(|k| sv[k - 1] != "unp" && sv[k - 1] != "unpx").count() };
            if idem == 0 {
                for k in 1..sv.len() {
                    // frame level: UNPREPARED also proves that the statement was not applied
                    if !PROOF.contains(&sv[k - 1]) && sv[k - 1] != "unp" && sv[k - 1] != "unpx" {
                        ctx.fail(format!(
                            "e2e retry: {} was sent again (frame {} at node {}) after `{}`, which does not prove that the previous attempt was not applied; served outcomes {:?}",
                            what,
                            k + 1,
                            served[q][k].1,
                            sv[k - 1],
                            sv
                        ));
                        break;
                    }
                }
            }
            // a failed (re-)prepare ends an attempt without a statement frame of its own: the attempt count below is
            // only exact when every PREPARE of the request was answered normally
            let plain_prepares = prep_served[q].iter().all(|p| p == "p") && kind != "qvals" && kind != "batchv";
            let attempts = if plain_prepares { attempts } else { attempts.min(1) };
            let unp = |o: &str| o == "unp" || o == "unpx";
            if pol == "fall" && attempts > 1 {
                ctx.fail(format!("e2e retry: {} was attempted {} times although the fall-through policy never retries; served {:?}", what, attempts, sv));
            }
            if cl != "q" && pol == "def" && attempts > 1 {
                ctx.fail(format!("e2e retry: {} at serial consistency was attempted {} times by the default policy; served {:?}", what, attempts, sv));
            }
            if attempts > n + 2 {
                ctx.fail(format!("e2e retry: {} was attempted {} times on a cluster of {} nodes (bound: nodes + 2); served {:?}", what, attempts, n, sv));
            }
            // QUERY is never re-sent inside an attempt, EXECUTE at most once (connection.rs:1102-1133)
            let plain_query = kind == "query" && via == "session";
            for k in 1..sv.len() {
                if plain_query && unp(sv[k - 1]) {
                    ctx.fail(format!("e2e retry: {} (a QUERY without values) was sent again after UNPREPARED; served {:?}", what, sv));
                }
                if plain_prepares && kind != "batch" && !plain_query && k >= 2 && unp(sv[k - 1]) && unp(sv[k - 2]) {
                    ctx.fail(format!("e2e retry: {} was sent a third time inside one attempt (two UNPREPARED answers in a row); served {:?}", what, sv));
                }
            }
            if let Some(i) = sv.iter().position(|o| *o == "ok") {
                if i + 1 != sv.len() {
                    ctx.fail(format!("e2e retry: {} was sent again after an attempt had succeeded; served {:?}", what, sv));
                } else if !results[q] {
                    ctx.fail(format!("e2e retry: {} got an error although its last attempt was answered with success; served {:?}", what, sv));
                }
            }
            // statement frames, PREPARE frames sent during the request (via=session), result with the error kind
            let preps = if scripted_prepares { prep_served[q].len().to_string() } else { "-".to_owned() };
            if std::env::var("C06_DEBUG").is_ok() {
                eprintln!("request {} served {:?}", q, served[q]);
            }
            summary.push(format!("{}/{}:{}", sv.len(), preps, kinds[q]));
        }
        format!("retry {}", summary.join(" "))
    })
}

//! C13 end-to-end: `e2e spec n=<nodes> sh=<shards, 0 = unsharded> idem=<0|1> max=<speculative executions>
//! iv=<interval ms> slow=<page 0|1|2> kind=<query|exec> lb=<default|st:<node>:<shard|->> api=<iter|unpaged|batch>
//! order=<node:shard|-,...> seed=<s>` (`api`: the paged stream, or ONE unpaged query/execute, or a BATCH - `slow=0`;
//! `order`: a scripted in-order load-balancing policy, see `run_pplan`)
//!
//! A real `Session` with a `SimpleSpeculativeExecutionPolicy { max, iv }` and the Fallthrough retry policy pages through
//! three pages (`Session::query_iter` / `execute_iter`, i.e. the real `PagingExecutor::fetch_one_page`: page 0 over the
//! load-balancing plan, pages >= 1 over "the stable coordinator of the previous page, then the load-balancing plan with
//! that coordinator filtered out" — pager.rs:337-365). EVERY request for page `slow` is held by the node for longer than
//! `(max + 2) * iv`, so every execution the policy may start is started while all earlier ones are still in flight, and
//! each of them makes exactly one attempt, on the first target it draws from the shared plan.
//!
//! ORACLE (C13's statement, no model involved):
//!  * the targets of all executions of one page fetch are pairwise distinct — a target is the node for an unsharded
//!    (Cassandra-like) node and (node, shard) for a sharded one — whatever the position of the stable coordinator in the
//!    load-balancing plan (max >= n makes the executions draw the whole plan);
//!  * at most 1 + max requests for one page; a request that is not idempotent: exactly one request per page (never two
//!    in flight), whatever the policy;
//!  * the row stream delivers every row once, in order.
use super::common::*;
use crate::mockcluster::*;
use crate::mocknode::{Parsed, RESP_RESULT};
use crate::rng::Rng;
use crate::{Ctx, Tier};
use futures::StreamExt;
use scylla::client::execution_profile::ExecutionProfile;
use scylla::policies::retry::FallthroughRetryPolicy;
use scylla::policies::speculative_execution::SimpleSpeculativeExecutionPolicy;
use std::sync::{Arc, Mutex};
use std::time::Duration;

pub fn generate(rng: &mut Rng, tier: Tier, emit: &mut dyn FnMut(String)) {
    let mut emit_one = |n: u64, sh: u64, idem: u64, max: u64, slow: u64, kind: &str, seed: u64| {
        emit(format!("e2e spec n={} sh={} idem={} max={} iv=25 slow={} kind={} seed={}", n, sh, idem, max, slow, kind, seed));
    };
    // unsharded and sharded coordinators, first page (no stable coordinator) and later pages (stable coordinator first)
    let mut seed = 1 + rng.below(1 << 20);
    for (n, sh) in [(3u64, 0u64), (2, 0), (3, 2)] {
        for slow in [1u64, 0] {
            emit_one(n, sh, 1, n, slow, if slow == 1 { "exec" } else { "query" }, seed);
            seed += 1;
        }
    }
    emit_one(3, 0, 0, 3, 1, "exec", seed);
    emit_one(3, 0, 1, 1, 2, "query", seed + 1);
    drop(emit_one);
    // single-target execution profile (SingleTargetLoadBalancingPolicy), with and without an explicit shard, on
    // unsharded and sharded nodes: its plan is ONE target, so the speculative executions find the plan exhausted
    let mut st = |n: u64, sh: u64, node: u64, shard: &str, max: u64, slow: u64, kind: &str, seed: u64| {
        emit(format!(
            "e2e spec n={} sh={} idem=1 max={} iv=25 slow={} kind={} lb=st:{}:{} seed={}",
            n, sh, max, slow, kind, node, shard, seed
        ));
    };
    st(3, 2, 1, "1", 2, 0, "exec", seed + 2);
    st(3, 2, 0, "0", 2, 1, "query", seed + 3);
    st(3, 2, 2, "-", 2, 0, "exec", seed + 4);
    st(2, 0, 1, "-", 2, 1, "exec", seed + 5);
    st(2, 0, 0, "0", 1, 0, "query", seed + 6);
    st(3, 3, 1, "2", 3, 2, "exec", seed + 7);
    drop(st);
    let mut emit_one = |n: u64, sh: u64, idem: u64, max: u64, slow: u64, kind: &str, seed: u64| {
        emit(format!("e2e spec n={} sh={} idem={} max={} iv=25 slow={} kind={} seed={}", n, sh, idem, max, slow, kind, seed));
    };
    {
        let extra = if tier == Tier::Thorough { 60 } else { 10 };
        for _ in 0..extra {
            let n = 2 + rng.below(3);
            emit_one(
                n,
                *rng.pick(&[0u64, 0, 2, 3]),
                if rng.chance(1, 5) { 0 } else { 1 },
                rng.below(n + 2),
                rng.below(3),
                *rng.pick(&["query", "exec"]),
                rng.below(1 << 32),
            );
        }
    }
    drop(emit_one);
    // the non-paged session APIs and BATCH: idempotence must reach the gate from the statement / the batch itself
    {
        let mut k = 0u64;
        for api in ["batch", "unpaged"] {
            for idem in [0u64, 1] {
                for kind in ["query", "exec"] {
                    if api == "batch" && kind == "exec" {
                        continue;
                    }
                    emit(format!("e2e spec n=3 sh={} idem={} max=2 iv=25 slow=0 kind={} api={} seed={}", if k % 3 == 2 { 2 } else { 0 }, idem, kind, api, seed + 20 + k));
                    k += 1;
                }
            }
        }
        if tier == Tier::Thorough {
            for _ in 0..24 {
                emit(format!(
                    "e2e spec n={} sh={} idem={} max={} iv=25 slow=0 kind={} api={} seed={}",
                    1 + rng.below(4),
                    *rng.pick(&[0u64, 0, 2]),
                    rng.below(2),
                    1 + rng.below(3),
                    *rng.pick(&["query", "exec"]),
                    *rng.pick(&["batch", "unpaged", "unpaged"]),
                    rng.below(1 << 32)
                ));
            }
        }
    }
    // BATCH: the batch's flag vs. its members' flags in every combination, through Session::batch and CachingSession::batch,
    // with unprepared and prepared members: unmarked batch x {all, some, no} members marked; marked batch x members unmarked
    {
        let mut k = 0u64;
        for (idem, bms) in [(0u64, vec!["11", "10", "01", "00", "111", "010"]), (1, vec!["00", "10", "000"])] {
            for bm in bms {
                for (via, kind) in [("session", "query"), ("session", "exec"), ("caching", "query")] {
                    if tier == Tier::Quick && (k % 27) % 2 == 1 && bm.len() == 3 {
                        k += 1;
                        continue;
                    }
                    emit(format!(
                        "e2e spec n=3 sh={} idem={} max=2 iv=25 slow=0 kind={} api=batch bm={} via={} seed={}",
                        if k % 5 == 4 { 2 } else { 0 }, idem, kind, bm, via, seed + 100 + k
                    ));
                    k += 1;
                }
            }
        }
    }
    // the speculative policy on the STATEMENT's profile (max 1) while the session default carries another one (max 3) or
    // none, directly or through map_to_another_profile; paged, unpaged and batch; 4 nodes so that a wrong policy shows
    {
        let mut k = 0u64;
        for prof in ["stmt:3", "remap:3", "stmt:-", "remap:-"] {
            for (api, kind, slow) in [("iter", "exec", 1u64), ("iter", "query", 2), ("unpaged", "query", 0), ("unpaged", "exec", 0), ("batch", "query", 0)] {
                if tier == Tier::Quick && k % 2 == 1 {
                    k += 1;
                    continue;
                }
                emit(format!(
                    "e2e spec n=4 sh=0 idem=1 max=1 iv=25 slow={} kind={} api={} prof={} seed={}",
                    slow, kind, api, prof, seed + 200 + k
                ));
                k += 1;
            }
        }
    }
    // other entry points: CachingSession::execute_unpaged / execute_iter, query_unpaged / query_iter WITH values
    for idem in [0u64, 1] {
        emit(format!("e2e spec n=3 sh=0 idem={} max=2 iv=25 slow=0 kind=query api=unpaged via=caching seed={}", idem, seed + 300 + idem));
        emit(format!("e2e spec n=3 sh=0 idem={} max=2 iv=25 slow=1 kind=query via=caching seed={}", idem, seed + 310 + idem));
        emit(format!("e2e spec n=3 sh=0 idem={} max=2 iv=25 slow=0 kind=query api=unpaged vals=1 seed={}", idem, seed + 320 + idem));
        emit(format!("e2e spec n=3 sh=0 idem={} max=2 iv=25 slow=1 kind=query vals=1 seed={}", idem, seed + 330 + idem));
    }
    // a statement that was NEVER marked idempotent but has other things configured on it (tracing, timestamp,
    // consistencies, timeout, listener): still exactly one request, through every entry point; and the config copied by
    // Session::prepare (src=1)
    {
        let mut k = 0u64;
        let pres = ["tr1", "ts+cons+ser+to+hl", "tr0+tr1", "tr1+ts+hl"];
        let shapes: [(&str, &str, u64, &str); 11] = [
            ("iter", "query", 1, ""),
            ("iter", "exec", 1, ""),
            ("iter", "exec", 2, " src=1"),
            ("iter", "query", 1, " via=caching"),
            ("unpaged", "query", 0, ""),
            ("unpaged", "exec", 0, ""),
            ("unpaged", "exec", 0, " src=1"),
            ("unpaged", "query", 0, " via=caching"),
            ("unpaged", "query", 0, " vals=1"),
            ("batch", "query", 0, ""),
            ("single", "exec", 0, " src=1"),
        ];
        for (pi, pre) in pres.iter().enumerate() {
            for (si, (api, kind, slow, extra)) in shapes.iter().enumerate() {
                // quick: every shape with tracing, the other call lists on a rotating third of the shapes
                if tier == Tier::Quick && pi != 0 && (si + pi) % 3 != 0 {
                    continue;
                }
                emit(format!("e2e spec n=3 sh=0 idem=0 max=2 iv=25 slow={} kind={} api={} pre={}{} seed={}", slow, kind, api, pre, extra, seed + 400 + k));
                k += 1;
            }
        }
        // marked idempotent with the same calls on top: the executions the policy allows are still bounded and distinct
        emit(format!("e2e spec n=3 sh=0 idem=1 max=2 iv=25 slow=1 kind=query pre=tr0+ts seed={}", seed + 460));
        emit(format!("e2e spec n=3 sh=0 idem=1 max=2 iv=25 slow=0 kind=exec api=unpaged pre=tr1 src=1 seed={}", seed + 461));
    }
    // the REVERSE profile direction (the statement's profile has no policy, the session default has one), the single-page
    // entry points, and a session default derived through to_builder()
    for (api, kind, slow, extra) in [("iter", "exec", 1u64, ""), ("iter", "query", 2, ""), ("unpaged", "query", 0, ""), ("unpaged", "exec", 0, ""), ("batch", "query", 0, ""), ("single", "query", 0, ""), ("iter", "query", 1, " via=caching")] {
        emit(format!("e2e spec n=4 sh=0 idem=1 max=1 iv=25 slow={} kind={} api={} prof=nostmt:3{} seed={}", slow, kind, api, extra, seed + 500));
    }
    for idem in [0u64, 1] {
        for (kind, extra) in [("query", ""), ("exec", ""), ("query", " via=caching"), ("query", " vals=1")] {
            emit(format!("e2e spec n=3 sh=0 idem={} max=2 iv=25 slow=0 kind={} api=single{} seed={}", idem, kind, extra, seed + 510 + idem));
        }
    }
    emit(format!("e2e spec n=4 sh=0 idem=1 max=3 iv=25 slow=1 kind=exec prof=derived seed={}", seed + 520));
    emit(format!("e2e spec n=4 sh=0 idem=1 max=3 iv=25 slow=0 kind=query api=unpaged prof=derived seed={}", seed + 521));
    emit(format!("e2e spec n=4 sh=0 idem=0 max=3 iv=25 slow=0 kind=query api=single prof=derived seed={}", seed + 522));
    if tier == Tier::Thorough {
        for _ in 0..20 {
            let n = 1 + rng.below(3);
            let sh = *rng.pick(&[0u64, 2, 3]);
            let explicit = rng.chance(2, 3);
            let shard = if explicit { rng.below(sh.max(1)).to_string() } else { "-".to_owned() };
            // without an explicit shard on sharded nodes only the first page is judged strictly (see run)
            let slow = if !explicit && sh > 0 { 0 } else { rng.below(3) };
            emit(format!(
                "e2e spec n={} sh={} idem=1 max={} iv=25 slow={} kind={} lb=st:{}:{} seed={}",
                n,
                sh,
                1 + rng.below(3),
                slow,
                *rng.pick(&["query", "exec"]),
                rng.below(n),
                shard,
                rng.below(1 << 32)
            ));
        }
    }
}

/// One request for a page: (page, node, server-side shard of the connection).
type Seen = (usize, usize, Option<u16>, std::time::Instant);

pub fn run(words: &[&str], ctx: &mut Ctx) -> String {
    run_mode(words, ctx, false)
}

/// `pplan ...` (dispatched from c13.rs, NOT an `e2e` line, so the Lean driver runs `pagerPlan` on it): the same run with a
/// scripted in-order load-balancing policy (`order=<node>:<shard|->,...`: `pick` = the first entry, `fallback` = all of
/// them), printing the (node, shard) of every request of every page in arrival order: `pages=<t,t,..>/<..>/<..>`.
pub fn run_pplan(words: &[&str], ctx: &mut Ctx) -> String {
    run_mode(words, ctx, true)
}

fn run_mode(words: &[&str], ctx: &mut Ctx, detail: bool) -> String {
    let Some(p) = Params::parse(words) else { return "bad-case".into() };
    let (Some(n), Some(sh), Some(idem), Some(max), Some(iv), Some(slow), Some(seed)) = (
        p.num("n"),
        p.num_or("sh", 0),
        p.num_or("idem", 1),
        p.num("max"),
        p.num_or("iv", 25),
        p.num_or("slow", 1),
        p.num_or("seed", 1),
    ) else {
        return "bad-case".into();
    };
    let kind = p.str("kind").unwrap_or("exec");
    // load balancing: the default policy, or `st:<node>:<shard|->` = SingleTargetLoadBalancingPolicy
    // api: `iter` (paged stream, default), `unpaged` (query_unpaged / execute_unpaged by `kind`), `batch` (a BATCH whose
    // statements carry the OPPOSITE idempotence flag: only `batch.set_is_idempotent` counts)
    let api = p.str("api").unwrap_or("iter");
    // `single`: ONE page through query_single_page / execute_single_page / CachingSession::execute_single_page
    if !["iter", "unpaged", "batch", "single"].contains(&api) || (api != "iter" && slow != 0) {
        return "bad-case".into();
    }
    // member flags of a batch (`bm=010`: one char per member statement; default: two members with the OPPOSITE flag)
    let bm: Vec<bool> = match p.str("bm") {
        None => vec![idem == 0; 2],
        Some(x) if !x.is_empty() && x.len() <= 6 && x.chars().all(|c| c == '0' || c == '1') => x.chars().map(|c| c == '1').collect(),
        Some(_) => return "bad-case".into(),
    };
    // entry point: `session` (Session::*) or `caching` (CachingSession::batch / execute_unpaged / execute_iter);
    // `vals=1`: query_unpaged / query_iter WITH values (prepared internally). (`execute_iter_preserialized` is compiled
    // only with cfg(scylla_unstable) + feature unstable-csharp-rs; it is a wrapper of the `execute_iter_nongeneric` that
    // `execute_iter` goes through.)
    let via = p.str("via").unwrap_or("session");
    let Some(vals) = p.num_or("vals", 0) else { return "bad-case".into() };
    if !["session", "caching"].contains(&via) || vals > 1 || (vals == 1 && kind != "query") {
        return "bad-case".into();
    }
    // `pre=<tok+tok..>`: OTHER setters called on the statement object (the Statement, the PreparedStatement or the Batch
    // that is submitted) after its idempotence was set: tr1 tr0 (set_tracing) ts (set_timestamp) cons ser to
    // (set_request_timeout) hl (set_history_listener) - none of them may mark the request idempotent;
    // `src=1` (kind=exec): the calls, set_is_idempotent included, are made on the Statement that is then PREPARED
    // (Session::prepare copies the statement's config into the prepared statement), which is executed untouched
    let pre: Vec<&str> = match p.str("pre") {
        None => Vec::new(),
        Some(x) => x.split('+').collect(),
    };
    if !pre.iter().all(|t| ["tr1", "tr0", "ts", "cons", "ser", "to", "hl"].contains(t)) || pre.len() > 8 {
        return "bad-case".into();
    }
    let Some(src) = p.num_or("src", 0) else { return "bad-case".into() };
    if src > 1 || (src == 1 && (kind != "exec" || api == "batch" || via != "session")) {
        return "bad-case".into();
    }
    macro_rules! apply_pre {
        ($o:expr) => {
            for t in pre.iter() {
                match *t {
                    "tr1" => $o.set_tracing(true),
                    "tr0" => $o.set_tracing(false),
                    "ts" => $o.set_timestamp(Some(1_700_000_000_000_000)),
                    "cons" => $o.set_consistency(scylla::statement::Consistency::One),
                    "ser" => $o.set_serial_consistency(Some(scylla::statement::SerialConsistency::LocalSerial)),
                    "to" => $o.set_request_timeout(Some(Duration::from_secs(25))),
                    _ => $o.set_history_listener(Arc::new(scylla::observability::history::HistoryCollector::new())),
                }
            }
        };
    }
    // where the speculative policy (max, iv) lives: `default` = the session's default profile; `stmt:<dmax|->` = on the
    // STATEMENT's profile handle while the session default carries another policy (max = dmax) or none; `remap:<dmax|->` =
    // the statement's handle first points to a policy-less profile and is then re-mapped (`map_to_another_profile`);
    // `nostmt:<dmax>` = the REVERSE: the statement's profile has NO policy while the session default has one (max = dmax):
    // the chosen profile's `None` must not fall back to the session default - exactly one request; `derived` = the
    // session default is `profile.to_builder().build()` of the profile that carries the policy
    let prof = p.str("prof").unwrap_or("default");
    let (prof_kind, dmax): (&str, Option<u64>) = match prof.split_once(':') {
        None if prof == "default" => ("default", None),
        None if prof == "derived" => ("derived", None),
        Some((k, d)) if k == "stmt" || k == "remap" || k == "nostmt" => match d {
            "-" => (k, None),
            x => match x.parse::<u64>() {
                Ok(v) if v <= 8 => (k, Some(v)),
                _ => return "bad-case".into(),
            },
        },
        _ => return "bad-case".into(),
    };
    let order: Option<Vec<(usize, Option<u32>)>> = match p.str("order") {
        None => None,
        Some(o) => {
            let v: Option<Vec<(usize, Option<u32>)>> = o
                .split(',')
                .map(|t| {
                    let (k, s) = t.split_once(':')?;
                    let k = k.parse::<usize>().ok()?;
                    if k >= n as usize {
                        return None;
                    }
                    Some((k, if s == "-" { None } else { Some(s.parse::<u32>().ok()?) }))
                })
                .collect();
            match v {
                Some(v) if !v.is_empty() && v.len() <= 8 => Some(v),
                _ => return "bad-case".into(),
            }
        }
    };
    if detail && order.is_none() {
        return "bad-case".into();
    }
    let lb = p.str("lb").unwrap_or("default");
    let single: Option<(usize, Option<u32>)> = if lb == "default" {
        None
    } else {
        let parts: Vec<&str> = lb.split(':').collect();
        if parts.len() != 3 || parts[0] != "st" {
            return "bad-case".into();
        }
        let Ok(k) = parts[1].parse::<usize>() else { return "bad-case".into() };
        let shard = match parts[2] {
            "-" => None,
            x => match x.parse::<u32>() {
                Ok(v) => Some(v),
                Err(_) => return "bad-case".into(),
            },
        };
        Some((k, shard))
    };
    if !(1..=6).contains(&n) || sh > 8 || max > 8 || !(5..=200).contains(&iv) || slow > 2 || !["query", "exec"].contains(&kind) {
        return "bad-case".into();
    }
    let n = n as usize;
    if prof_kind == "nostmt" && dmax.is_none() {
        return "bad-case".into();
    }
    let hold = Duration::from_millis((max.max(dmax.unwrap_or(0)) + 2) * iv + 150);
    // `nostmt`: the policy in force is the statement profile's: none
    let max = if prof_kind == "nostmt" { 0 } else { max };
    let mut rng = Rng::new(seed ^ 0x7370_6563);
    // three pages of two rows; paging states P0, P1
    let pages: Vec<Vec<i32>> = vec![vec![0, 1], vec![2, 3], vec![4, 5]];
    let states: Vec<Vec<u8>> = (0..2u8)
        .map(|j| {
            let len = 1 + rng.below(12) as usize;
            let mut s = rng.bytes(len);
            s.push(j);
            s
        })
        .collect();
    let shape = Shape { nodes: n, dcs: 1, racks: 1, shards: sh as u16, msb: 12, vnodes: 2, strat: Strat::Simple(1), seed };
    let seen: Arc<Mutex<Vec<Seen>>> = Arc::new(Mutex::new(Vec::new()));
    let (seen_h, pages_h, states_h) = (Arc::clone(&seen), pages.clone(), states.clone());
    let slow_page = slow as usize;
    let unpaged = api != "iter";
    let handler = with_std_prepare(move |r: &Req| {
        let params = match &r.parsed {
            Parsed::Query { text, params } if text == SELECT_ALL => params,
            Parsed::Execute { params, .. } => params,
            Parsed::Batch { .. } => {
                seen_h.lock().unwrap().push((0, r.node, r.shard, r.at));
                return if slow_page == 0 { vec![Act::Delay(hold), act_void()] } else { vec![act_void()] };
            }
            _ => return vec![act_void()],
        };
        let j = match &params.paging_state {
            None => 0,
            Some(ps) => match states_h.iter().position(|s| s == ps) {
                Some(j) => j + 1,
                None => return vec![act_error(0x2200, "unknown paging state", &[])],
            },
        };
        seen_h.lock().unwrap().push((j, r.node, r.shard, r.at));
        let rows: Vec<Vec<Cell>> = pages_h[j].iter().map(|i| vec![Some(i.to_be_bytes().to_vec()), c_int(*i)]).collect();
        let next_state = if unpaged { None } else { states_h.get(j).map(|s| &s[..]) };
        let resp = Act::Respond(RESP_RESULT, rows_body(&row_specs(), !params.skip_metadata, next_state, &rows));
        if j == slow_page { vec![Act::Delay(hold), resp] } else { vec![resp] }
    });
    let rt = runtime(2);
    rt.block_on(async {
        use scylla::statement::unprepared::Statement;
        let cluster = MockCluster::start(shape.topology(), handler).await;
        let mut builder = ExecutionProfile::builder();
        if let Some(order) = &order {
            use crate::c13_lbscript::{NodeKey, ScriptedLb};
            let key = |e: &(usize, Option<u32>)| (NodeKey::Addr(cluster.addr(e.0)), e.1);
            builder = builder.load_balancing_policy(Arc::new(ScriptedLb { pick: order.first().map(key), fallback: order.iter().map(key).collect() }));
        }
        if let Some((k, shard)) = single {
            if k >= n {
                return "bad-case".to_owned();
            }
            builder = builder.load_balancing_policy(scylla::policies::load_balancing::SingleTargetLoadBalancingPolicy::new(
                scylla::policies::load_balancing::NodeIdentifier::NodeAddress(cluster.addr(k)),
                shard,
            ));
        }
        let builder = builder.retry_policy(Arc::new(FallthroughRetryPolicy::new())).request_timeout(Some(Duration::from_secs(30)));
        let with_policy = |m: Option<u64>| {
            builder
                .clone()
                .speculative_execution_policy(m.map(|m| {
                    Arc::new(SimpleSpeculativeExecutionPolicy { max_retry_count: m as usize, retry_interval: Duration::from_millis(iv) })
                        as Arc<dyn scylla::policies::speculative_execution::SpeculativeExecutionPolicy>
                }))
                .build()
        };
        // the profile that carries THE policy (max), the session default, and the handle put on the statement (if any)
        let policy_profile = with_policy(Some(max));
        let (default_handle, stmt_handle) = match prof_kind {
            "default" => (policy_profile.into_handle(), None),
            "derived" => (policy_profile.to_builder().build().into_handle(), None),
            "nostmt" => (with_policy(dmax).into_handle(), Some(with_policy(None).into_handle())),
            "stmt" => (with_policy(dmax).into_handle(), Some(policy_profile.into_handle())),
            _ => {
                let mut h = with_policy(None).into_handle();
                h.map_to_another_profile(policy_profile);
                (with_policy(dmax).into_handle(), Some(h))
            }
        };
        let session = match connect(&cluster, |b| b.default_execution_profile_handle(default_handle.clone())).await {
            Ok(s) => s,
            Err(skip) => return skip,
        };
        let caching = scylla::client::caching_session::CachingSession::<std::collections::hash_map::RandomState>::from(session, 16);
        let session = caching.get_session();
        let use_caching = via == "caching";
        if api != "iter" {
            // unpaged APIs: one request; the reply is held, so every execution the policy may start is started
            let res: Result<(), String> = if api == "batch" {
                use scylla::statement::batch::{Batch, BatchType};
                let mut batch = Batch::new(BatchType::Logged);
                let mut values: Vec<(Vec<u8>, i32)> = Vec::new();
                for (i, member_idem) in bm.iter().enumerate() {
                    // members are unprepared or prepared statements; their flag must never reach the gate
                    if kind == "exec" && !use_caching {
                        match session.prepare(INSERT).await {
                            Err(_) => return "e2e-skip prepare-failed".to_owned(),
                            Ok(mut ps) => {
                                ps.set_is_idempotent(*member_idem);
                                batch.append_statement(ps);
                            }
                        }
                    } else {
                        let mut st = Statement::new(INSERT);
                        st.set_is_idempotent(*member_idem);
                        batch.append_statement(st);
                    }
                    values.push((vec![i as u8], i as i32));
                }
                batch.set_is_idempotent(idem != 0);
                apply_pre!(batch);
                batch.set_execution_profile_handle(stmt_handle.clone());
                if use_caching {
                    caching.batch(&batch, values).await.map(|_| ()).map_err(|e| e.to_string())
                } else {
                    session.batch(&batch, values).await.map(|_| ()).map_err(|e| e.to_string())
                }
            } else if use_caching {
                let mut st = Statement::new(SELECT_ALL);
                st.set_is_idempotent(idem != 0);
                apply_pre!(st);
                st.set_execution_profile_handle(stmt_handle.clone());
                if api == "single" {
                    caching.execute_single_page(st, (), scylla::response::PagingState::start()).await.map(|_| ()).map_err(|e| e.to_string())
                } else {
                    caching.execute_unpaged(st, ()).await.map(|_| ()).map_err(|e| e.to_string())
                }
            } else if kind == "query" {
                let mut st = Statement::new(if vals == 1 { SELECT } else { SELECT_ALL });
                st.set_is_idempotent(idem != 0);
                apply_pre!(st);
                st.set_execution_profile_handle(stmt_handle.clone());
                let start = scylla::response::PagingState::start;
                match (vals == 1, api == "single") {
                    (true, false) => session.query_unpaged(st, (vec![7u8],)).await.map(|_| ()).map_err(|e| e.to_string()),
                    (false, false) => session.query_unpaged(st, ()).await.map(|_| ()).map_err(|e| e.to_string()),
                    (true, true) => session.query_single_page(st, (vec![7u8],), start()).await.map(|_| ()).map_err(|e| e.to_string()),
                    (false, true) => session.query_single_page(st, (), start()).await.map(|_| ()).map_err(|e| e.to_string()),
                }
            } else {
                let mut source = Statement::new(SELECT_ALL);
                if src == 1 {
                    source.set_is_idempotent(idem != 0);
                    apply_pre!(source);
                    source.set_execution_profile_handle(stmt_handle.clone());
                }
                match session.prepare(source).await {
                    Err(_) => return "e2e-skip prepare-failed".to_owned(),
                    Ok(mut ps) => {
                        if src == 0 {
                            ps.set_is_idempotent(idem != 0);
                            apply_pre!(ps);
                            ps.set_execution_profile_handle(stmt_handle.clone());
                        }
                        if api == "single" {
                            session.execute_single_page(&ps, (), scylla::response::PagingState::start()).await.map(|_| ()).map_err(|e| e.to_string())
                        } else {
                            session.execute_unpaged(&ps, ()).await.map(|_| ()).map_err(|e| e.to_string())
                        }
                    }
                }
            };
            tokio::time::sleep(Duration::from_millis(20)).await;
            let seen = seen.lock().unwrap().clone();
            let what = format!("n={} sh={} idem={} max={} api={} kind={} via={} bm={:?} prof={} lb={} pre={:?} src={} seen(page,node,shard)={:?}", n, sh, idem, max, api, kind, via, bm, prof, lb, pre, src, seen.iter().map(|s| (s.0, s.1, s.2)).collect::<Vec<_>>());
            if let Err(e) = res {
                ctx.fail(format!("e2e spec: the unpaged request failed ({}); {}", e.replace(['\n', '\t'], " "), what));
            }
            if seen.len() as u64 > 1 + max {
                ctx.fail(format!("e2e spec: {} requests, the policy allows 1 + {}; {}", seen.len(), max, what));
            }
            if idem == 0 && seen.len() != 1 {
                ctx.fail(format!(
                    "e2e spec: a request that is not idempotent ({} API) was sent {} times - in flight on several nodes at once; {}",
                    api, seen.len(), what
                ));
            }
            for a in 0..seen.len() {
                for b in a + 1..seen.len() {
                    if seen[a].1 == seen[b].1 && (sh == 0 || seen[a].2 == seen[b].2) {
                        ctx.fail(format!("e2e spec: two executions used the same plan target (node {}, shard {:?}); {}", seen[a].1, seen[a].2, what));
                    }
                }
            }
            return format!("spec {} requests={} {}", api, seen.len(), "end");
        }
        let pager = if use_caching {
            let mut st = Statement::new(SELECT_ALL);
            st.set_is_idempotent(idem != 0);
            apply_pre!(st);
            st.set_page_size(2);
            st.set_execution_profile_handle(stmt_handle.clone());
            caching.execute_iter(st, ()).await
        } else if kind == "query" {
            let mut st = Statement::new(if vals == 1 { SELECT } else { SELECT_ALL });
            st.set_is_idempotent(idem != 0);
            apply_pre!(st);
            st.set_page_size(2);
            st.set_execution_profile_handle(stmt_handle.clone());
            if vals == 1 { session.query_iter(st, (vec![7u8],)).await } else { session.query_iter(st, ()).await }
        } else {
            let mut source = Statement::new(SELECT_ALL);
            if src == 1 {
                source.set_is_idempotent(idem != 0);
                apply_pre!(source);
                source.set_page_size(2);
                source.set_execution_profile_handle(stmt_handle.clone());
            }
            let mut ps = match session.prepare(source).await {
                Ok(ps) => ps,
                Err(_) => return "e2e-skip prepare-failed".to_owned(),
            };
            if src == 0 {
                ps.set_is_idempotent(idem != 0);
                apply_pre!(ps);
                ps.set_page_size(2);
                ps.set_execution_profile_handle(stmt_handle.clone());
            }
            session.execute_iter(ps, ()).await
        };
        let mut got: Vec<i32> = Vec::new();
        let mut failed = false;
        let consume = async {
            match pager {
                Err(_) => failed = true,
                Ok(pager) => match pager.rows_stream::<(Vec<u8>, i32)>() {
                    Err(_) => failed = true,
                    Ok(mut stream) => {
                        while let Some(item) = stream.next().await {
                            match item {
                                Ok((_, v)) => got.push(v),
                                Err(_) => {
                                    failed = true;
                                    break;
                                }
                            }
                        }
                    }
                },
            }
        };
        if tokio::time::timeout(Duration::from_secs(40), consume).await.is_err() {
            ctx.fail("e2e spec: the row stream neither ended nor failed within 40 s");
            return "hang".to_owned();
        }
        // give cancelled executions' frames that are already on the wire the time to be recorded
        tokio::time::sleep(Duration::from_millis(20)).await;
        // ------------------------------------------------------------------ oracle
        let seen = seen.lock().unwrap().clone();
        let what = format!("n={} sh={} idem={} max={} slow={} kind={} via={} prof={} lb={} pre={:?} src={} seen(page,node,shard)={:?}", n, sh, idem, max, slow, kind, via, prof, lb, pre, src, seen.iter().map(|s| (s.0, s.1, s.2)).collect::<Vec<_>>());
        if failed || got != vec![0, 1, 2, 3, 4, 5] {
            ctx.fail(format!("e2e spec: the stream {} with rows {:?}; {}", if failed { "failed" } else { "ended" }, got, what));
        }
        let mut per_page = Vec::new();
        for j in 0..3usize {
            let reqs: Vec<&Seen> = seen.iter().filter(|s| s.0 == j).collect();
            per_page.push(reqs.len());
            if reqs.len() as u64 > 1 + max {
                ctx.fail(format!("e2e spec: {} requests for page {}, the policy allows 1 + {}; {}", reqs.len(), j, max, what));
            }
            if let Some((k, shard)) = single {
                // the single-target plan is ONE target: every request goes there, and (the speculative executions find
                // the plan exhausted) exactly one request per page. Not judged: a shard-less single target on a sharded
                // node for pages >= 1, where the stable coordinator (node, its shard) is followed by (node, random shard).
                if let Some(r) = reqs.iter().find(|r| r.1 != k) {
                    ctx.fail(format!("e2e spec: single-target policy for node {} but a request for page {} went to node {}; {}", k, j, r.1, what));
                }
                let strict = shard.is_some() || sh == 0 || j == 0;
                if strict && reqs.len() != 1 {
                    ctx.fail(format!(
                        "e2e spec: the single-target plan has one target, but {} executions of the fetch of page {} were sent to node {} (same plan target used twice); {}",
                        reqs.len(), j, k, what
                    ));
                }
            }
            if idem == 0 && reqs.len() != 1 {
                ctx.fail(format!("e2e spec: a non-idempotent request was sent {} times for page {}; {}", reqs.len(), j, what));
            }
            // targets pairwise distinct: the node if it is unsharded, (node, shard) if it is sharded
            for a in 0..reqs.len() {
                for b in a + 1..reqs.len() {
                    let same = reqs[a].1 == reqs[b].1 && (sh == 0 || reqs[a].2 == reqs[b].2);
                    if same {
                        ctx.fail(format!(
                            "e2e spec: two executions of the fetch of page {} used the same plan target (node {}, shard {:?}); {}",
                            j, reqs[a].1, reqs[a].2, what
                        ));
                    }
                }
            }
        }
        if detail {
            let page = |j: usize| {
                let t: Vec<String> = seen
                    .iter()
                    .filter(|s| s.0 == j)
                    .map(|s| format!("{}:{}", s.1, s.2.map(|x| x.to_string()).unwrap_or_else(|| "-".to_owned())))
                    .collect();
                if t.is_empty() { "-".to_owned() } else { t.join(",") }
            };
            // `timing=ok`: the k-th request of every page arrived no later than k * iv + 100 ms after the first one (the
            // timers ran on time, so with the 150 ms slack of the hold every execution the policy allows was started and the
            // first one answered first); otherwise `timing=stalled` and the model only demands a prefix
            let mut ok = true;
            for j in 0..3usize {
                let at: Vec<std::time::Instant> = seen.iter().filter(|s| s.0 == j).map(|s| s.3).collect();
                for (k, t) in at.iter().enumerate() {
                    if t.duration_since(at[0]) > Duration::from_millis(k as u64 * iv + 100) {
                        ok = false;
                    }
                }
            }
            return format!("pages={}/{}/{} timing={}", page(0), page(1), page(2), if ok { "ok" } else { "stalled" });
        }
        format!("spec rows={} requests={} {}", got.len(), per_page.iter().map(|c| c.to_string()).collect::<Vec<_>>().join("."), if failed { "err" } else { "end" })
    })
}

//! C10 end-to-end: `e2e break inflight=<N> fault=<fin|rst|badver|badop|unsol|stall> cut=<frames>+<bytes> order=<seed>
//! seed=<s>`
//!
//! One node, one pool connection. N requests (QUERY / EXECUTE / BATCH in turn, each with its own id) are submitted
//! concurrently; the node answers none of them until all N frames have arrived on the connection, then writes the
//! concatenation of the N response frames (in an order shuffled by `order`; a Rows response carries the request's id)
//! up to the cut - `frames` whole frames plus `bytes` bytes of the next one (fin / rst only) - and then
//!   fin    closes the connection            rst     resets it
//!   badver writes a header of version 0x85   badop  writes a frame with an unknown opcode on a waiting stream
//!   unsol  writes a well-formed RESULT for a stream nobody waits on (then stays silent)
//!   stall  stays silent, keep-alives included (session keep-alive: 150 ms interval, 150 ms timeout)
//! Afterwards the node behaves normally again (new connections, immediate answers).
//!
//! ORACLE (C10's statement):
//!  * every one of the N futures completes (Ok or Err) within 10 s (a healthy run needs milliseconds; stall: the
//!    keep-alive interval + timeout);
//!  * a future that completes Ok got a response the node had written IN FULL for that very request: its frame lies
//!    before the cut and the row it holds carries the request's own id (no foreign or partial body);
//!  * a request submitted afterwards succeeds (through the re-established connection) within 10 s.
use super::common::*;
use crate::mockcluster::*;
use crate::mocknode::{BatchStmt, Parsed, RESP_RESULT, body_void, frame};
use crate::rng::Rng;
use crate::{Ctx, Tier};
use std::sync::{Arc, Mutex};
use std::time::Duration;

const FAULTS: &[&str] = &["fin", "rst", "badver", "badop", "unsol", "stall"];

pub fn generate(rng: &mut Rng, tier: Tier, emit: &mut dyn FnMut(String)) {
    let n_cases = if tier == Tier::Quick { 40 } else { 400 };
    for i in 0..n_cases {
        let inflight = 1 + rng.below(8);
        // the stall cases wait for the keep-alive: fewer of them
        let fault = if i % 10 == 9 { "stall" } else { *rng.pick(&FAULTS[..5]) };
        let frames = rng.below(inflight + 1);
        let bytes = if fault == "fin" || fault == "rst" {
            match rng.below(3) {
                0 => 0,
                1 => rng.below(10), // inside the header
                _ => 9 + rng.below(40),
            }
        } else {
            0
        };
        emit(format!("e2e break inflight={} fault={} cut={}+{} order={} seed={}", inflight, fault, frames, bytes, rng.below(1000), rng.below(1 << 32)));
    }
}

fn key_of(id: usize) -> Vec<u8> {
    vec![0xB0, id as u8, 0x0D]
}

fn text_of(id: usize) -> String {
    format!("SELECT pk, v FROM ks.t WHERE pk = 0x{}", crate::util::hex(&key_of(id)))
}

fn request_of(r: &Req, n: usize) -> Option<usize> {
    let by_key = |v: &Option<Vec<u8>>| (0..n).find(|i| v.as_deref() == Some(&key_of(*i)[..]));
    match &r.parsed {
        Parsed::Execute { params, .. } => params.values.first().and_then(by_key),
        Parsed::Query { text, .. } => (0..n).find(|i| *text == text_of(*i)),
        Parsed::Batch { statements, .. } => statements.iter().find_map(|s| match s {
            BatchStmt::Prepared(_, v) => v.first().and_then(by_key),
            _ => None,
        }),
        _ => None,
    }
}

fn response_for(r: &Req, id: usize) -> Vec<u8> {
    match &r.parsed {
        Parsed::Batch { .. } => frame(r.stream, RESP_RESULT, &body_void()),
        _ => frame(r.stream, RESP_RESULT, &rows_body(&row_specs(), true, None, &[vec![Some(key_of(id)), c_int(id as i32)]])),
    }
}

#[derive(Default)]
struct NodeState {
    /// (request id, frame) of the held requests, in arrival order
    held: Vec<(usize, Req)>,
    fired: bool,
    /// request ids whose response frame was written in full before the cut
    fully_sent: Vec<usize>,
    fault_conn: Option<usize>,
}

pub fn run(words: &[&str], ctx: &mut Ctx) -> String {
    let Some(p) = Params::parse(words) else { return "bad-case".into() };
    let (Some(inflight), Some(order), Some(seed)) = (p.num("inflight"), p.num_or("order", 0), p.num_or("seed", 1)) else { return "bad-case".into() };
    let fault = p.str("fault").unwrap_or("fin").to_owned();
    let Some((cf, cb)) = p.str("cut").and_then(|c| c.split_once('+')).and_then(|(a, b)| Some((a.parse::<usize>().ok()?, b.parse::<usize>().ok()?))) else {
        return "bad-case".into();
    };
    if !(1..=64).contains(&inflight) || !FAULTS.contains(&fault.as_str()) || cf > inflight as usize {
        return "bad-case".into();
    }
    let n_req = inflight as usize;
    let byte_cut = fault == "fin" || fault == "rst";
    let shape = Shape { nodes: 1, dcs: 1, racks: 1, shards: 0, msb: 12, vnodes: 2, strat: Strat::Simple(1), seed };
    let state: Arc<Mutex<NodeState>> = Arc::new(Mutex::new(NodeState::default()));
    let st_h = Arc::clone(&state);
    let fault_h = fault.clone();
    let handler = with_std_prepare(move |r: &Req| {
        let mut st = st_h.lock().unwrap();
        let Some(id) = request_of(r, n_req + 1) else { return vec![act_void()] };
        if st.fired || id == n_req {
            // normal behaviour (after the fault; `n_req` is the id of the follow-up request)
            return vec![Act::Raw(response_for(r, id))];
        }
        st.held.push((id, r.clone()));
        if st.held.len() < n_req {
            return vec![];
        }
        st.fired = true;
        st.fault_conn = Some(r.conn);
        let mut held = st.held.clone();
        Rng::new(order ^ 0x6f72_6465).shuffle(&mut held);
        let mut out: Vec<u8> = Vec::new();
        for (k, (id, req)) in held.iter().enumerate() {
            let f = response_for(req, *id);
            if k < cf {
                out.extend_from_slice(&f);
                st.fully_sent.push(*id);
            } else if k == cf && byte_cut {
                out.extend_from_slice(&f[..cb.min(f.len() - 1)]);
            }
        }
        // a stream that is still waiting (for badop), and one nobody waits on (for unsol)
        let waiting = held.get(cf).map(|x| x.1.stream);
        let mut acts = vec![Act::Raw(out)];
        match fault_h.as_str() {
            "fin" => acts.push(Act::Close),
            "rst" => acts.push(Act::Reset),
            "badver" => acts.push(Act::Raw(vec![0x85, 0, 0, 1, RESP_RESULT, 0, 0, 0, 4, 0, 0, 0, 1])),
            "badop" => acts.push(Act::Raw(frame(waiting.unwrap_or(0), 0x7F, &[]))),
            "unsol" => acts.push(Act::Raw(frame(31000, RESP_RESULT, &body_void()))),
            _ => {} // stall: the test mutes the node
        }
        acts
    });
    let rt = runtime(1);
    rt.block_on(async {
        use scylla::statement::batch::{Batch, BatchType};
        let cluster = Arc::new(MockCluster::start(shape.topology(), handler).await);
        let stall = fault == "stall";
        let session = match connect(&cluster, |b| {
            if stall { b.keepalive_interval(Duration::from_millis(150)).keepalive_timeout(Duration::from_millis(150)) } else { b }
        })
        .await
        {
            Ok(s) => Arc::new(s),
            Err(skip) => return skip,
        };
        let ps = match session.prepare(SELECT).await {
            Ok(ps) => ps,
            Err(_) => return "e2e-skip prepare-failed".to_owned(),
        };
        let ins = match session.prepare(INSERT).await {
            Ok(ps) => ps,
            Err(_) => return "e2e-skip prepare-failed".to_owned(),
        };
        if fault == "stall" {
            // silence starts when the last request arrives: mute from a watcher task
            let (c2, st2) = (Arc::clone(&cluster), Arc::clone(&state));
            tokio::spawn(async move {
                loop {
                    if st2.lock().unwrap().fired {
                        // (a keep-alive answered in the millisecond before this takes effect only delays the timeout)
                        c2.set_muted(0, true);
                        return;
                    }
                    tokio::time::sleep(Duration::from_millis(1)).await;
                }
            });
        }
        // Ok(Some(id in the row)) / Ok(None) for a void result / Err
        let one = |id: usize| {
            let (session, ps, ins) = (Arc::clone(&session), ps.clone(), ins.clone());
            async move {
                let row_id = |res: scylla::response::query_result::QueryResult| -> Result<Option<Vec<u8>>, ()> {
                    if !res.is_rows() {
                        return Ok(None);
                    }
                    let rows = res.into_rows_result().map_err(|_| ())?;
                    let (pk, _v) = rows.single_row::<(Vec<u8>, i32)>().map_err(|_| ())?;
                    Ok(Some(pk))
                };
                match id % 3 {
                    0 => session.query_unpaged(text_of(id), ()).await.map_err(|_| ()).and_then(row_id),
                    1 => session.execute_unpaged(&ps, (key_of(id),)).await.map_err(|_| ()).and_then(row_id),
                    _ => {
                        let mut b = Batch::new(BatchType::Unlogged);
                        b.append_statement(ins);
                        session.batch(&b, ((key_of(id), 1i32),)).await.map_err(|_| ()).and_then(row_id)
                    }
                }
            }
        };
        // generous on purpose: a healthy run completes within milliseconds (stall: ~300 ms), only a hang pays the limit
        let limit = Duration::from_secs(10);
        let futs = (0..n_req).map(|id| tokio::time::timeout(limit, one(id)));
        let results = futures::future::join_all(futs).await;
        // ------------------------------------------------------------------ oracle
        let (fully_sent, fired) = {
            let st = state.lock().unwrap();
            (st.fully_sent.clone(), st.fired)
        };
        if !fired {
            // the precondition (all N frames on one connection) was not reached: nothing to judge
            return format!("break not-fired held={}", state.lock().unwrap().held.len());
        }
        let (mut n_ok, mut n_err) = (0, 0);
        for (id, r) in results.iter().enumerate() {
            match r {
                Err(_) => ctx.fail(format!(
                    "e2e break: request {} of {} in flight did not complete within {:?} after the node's `{}` at cut {}+{}",
                    id, n_req, limit, fault, cf, cb
                )),
                Ok(Err(())) => n_err += 1,
                Ok(Ok(body)) => {
                    n_ok += 1;
                    if !fully_sent.contains(&id) {
                        ctx.fail(format!(
                            "e2e break: request {} completed Ok although the node never wrote a complete response for it (fully written: {:?}); body {:?}",
                            id, fully_sent, body
                        ));
                    } else if let Some(pk) = body {
                        if *pk != key_of(id) {
                            ctx.fail(format!("e2e break: request {} was handed the row {:?}, which the node sent for another request", id, pk));
                        }
                    }
                }
            }
        }
        cluster.set_muted(0, false);
        // the session keeps working through the re-established connection
        let follow = tokio::time::timeout(Duration::from_secs(10), async {
            loop {
                match session.query_unpaged(text_of(n_req), ()).await {
                    Ok(_) => return true,
                    // "no connection in the pool yet" is not what is being judged: try again until the limit
                    Err(_) => tokio::time::sleep(Duration::from_millis(20)).await,
                }
            }
        })
        .await
        .unwrap_or(false);
        if !follow {
            ctx.fail(format!("e2e break: no request succeeded within 10 s after the `{}` fault (the connection was not re-established)", fault));
        }
        format!("break ok={} err={} sent={} follow={}", n_ok, n_err, fully_sent.len(), follow)
    })
}

//! C03 end-to-end: `e2e partitioner schema=<0|1> seed=<s>`
//!
//! A real `Session::prepare` against the mock cluster, whose `system_schema.scylla_tables` reports a partitioner for
//! some tables: `ks.t` (null), `ks.t_scylla_cdc_log` (`com.scylladb.dht.CDCPartitioner`, key = the 16-byte
//! `cdc$stream_id`), `ks.m3` (`org.apache.cassandra.dht.Murmur3Partitioner`), `ks.unk` (an unknown class).
//! Statements are prepared on those tables and on two tables the session's metadata snapshot does not contain
//! (`ks.absent_scylla_cdc_log`, `nks.x_scylla_cdc_log`: a stale snapshot / an unknown keyspace). `schema=0` builds
//! the session with `fetch_schema_metadata(false)` (no table is in the snapshot).
//! This drives, unmodified, `Session::prepare` → `extract_partitioner_name` → `PartitionerName::from_str` →
//! `set_partitioner_name` and then `PreparedStatement::calculate_token`.
//!
//! ORACLE (C03: "tables using the CDC partitioner get the CDC token"):
//!  * with the schema fetched, a statement on the CDC log table has `PartitionerName::CDC` and its token for a 16-byte
//!    stream id is ScyllaDB's CDC token (first 8 bytes big-endian, normalised);
//!  * every other statement (null / Murmur3 / unknown partitioner, table or keyspace missing from the snapshot) has the
//!    default partitioner and the Murmur3 token of the key;
//!  * `ClusterState::compute_token(ks, table, key)` (the path that bypasses `PreparedStatement`) gives the same token
//!    as the prepared statement for every table in the snapshot and `UnknownTable` otherwise; for the composite table
//!    `ks.comp ((a, b))`, a statement whose markers are in the order (b, a) and `compute_token(.., (a, b))` both give
//!    the token of `len a 0 len b 0`; a key with a missing column is a serialization error;
//!  * `schema=0`: the documented fallback - every statement, the CDC log table's included, gets the default partitioner
//!    (recorded in the output, not judged: the driver cannot know the table).
use super::common::*;
use crate::c03::{reference_murmur3, server_cdc_token};
use crate::mockcluster::*;
use crate::mocknode::{Parsed, RESP_RESULT, md5ish};
use crate::rng::Rng;
use crate::{Ctx, Tier};
use scylla::routing::partitioner::PartitionerName;

const CDC_NAME: &str = "com.scylladb.dht.CDCPartitioner";
const M3_NAME: &str = "org.apache.cassandra.dht.Murmur3Partitioner";
const UNK_NAME: &str = "org.example.dht.FooPartitioner";

/// Generated as `sesspart ...` cases by `c03::generate` (so that `md_C03` compares the line with the model instead of
/// echoing it); `e2e partitioner ...` lines (corpus, by hand) run the same code oracle-only.
pub fn generate(_rng: &mut Rng, _tier: Tier, _emit: &mut dyn FnMut(String)) {}

pub fn generate_sesspart(rng: &mut Rng, tier: Tier, emit: &mut dyn FnMut(String)) {
    let n = if tier == Tier::Quick { 30 } else { 120 };
    for i in 0..n {
        emit(format!("sesspart schema={} seed={}", match i % 6 { 2 => 0, 5 => 2, _ => 1 }, rng.below(1 << 32)));
    }
}

fn table(name: &str, pk: &str) -> TableSpec {
    TableSpec {
        name: name.into(),
        partition_key: vec![(pk.into(), "blob".into())],
        clustering: vec![],
        regular: vec![("v".into(), "int".into())],
    }
}

fn register(key: &str, name: &str) {
    let mut reg = TABLE_PARTITIONERS.lock().unwrap();
    if !reg.iter().any(|(k, _)| k == key) {
        reg.push((key.to_owned(), name.to_owned()));
    }
}

/// `SELECT v FROM <ks>.<table> WHERE pk = ?` → (ks, table)
fn table_of(text: &str) -> Option<(String, String)> {
    let rest = text.split(" FROM ").nth(1)?;
    let qualified = rest.split(' ').next()?;
    let (ks, t) = qualified.split_once('.')?;
    Some((ks.to_owned(), t.to_owned()))
}

/// A bound value on the case / output line: hex, `-` (empty), `N` (null), `U` (unset).
#[derive(Clone, Debug)]
enum V {
    B(Vec<u8>),
    Null,
    Unset,
}

impl V {
    fn show(&self) -> String {
        match self {
            V::B(b) => crate::util::hex(b),
            V::Null => "N".into(),
            V::Unset => "U".into(),
        }
    }
    fn bind(&self) -> scylla::value::MaybeUnset<Option<Vec<u8>>> {
        match self {
            V::B(b) => scylla::value::MaybeUnset::Set(Some(b.clone())),
            V::Null => scylla::value::MaybeUnset::Set(None),
            V::Unset => scylla::value::MaybeUnset::Unset,
        }
    }
    fn bytes(&self) -> Option<&[u8]> {
        match self {
            V::B(b) => Some(b),
            _ => None,
        }
    }
}

fn show_vals(vs: &[V]) -> String {
    vs.iter().map(|v| v.show()).collect::<Vec<_>>().join(",")
}

fn show_tok(r: &Result<Option<scylla::routing::Token>, scylla::statement::prepared::PartitionKeyError>) -> String {
    use scylla::statement::prepared::{PartitionKeyError, PartitionKeyExtractionError, TokenCalculationError};
    match r {
        Ok(Some(t)) => format!("ok:{}", t.value()),
        Ok(None) => "none".into(),
        Err(PartitionKeyError::PartitionKeyExtraction(PartitionKeyExtractionError::NoPkIndexValue(i, c))) => format!("err:noPk:{i}:{c}"),
        Err(PartitionKeyError::TokenCalculation(TokenCalculationError::ValueTooLong(n))) => format!("err:tooLong:{n}"),
        Err(PartitionKeyError::Serialization(_)) => "err:serialization".into(),
        Err(_) => "err:other".into(),
    }
}

fn show_ctok(r: &Result<scylla::routing::Token, scylla::errors::ClusterStateTokenError>) -> String {
    use scylla::errors::ClusterStateTokenError as E;
    use scylla::statement::prepared::TokenCalculationError;
    match r {
        Ok(t) => format!("ok:{}", t.value()),
        Err(E::UnknownTable { .. }) => "err:unknownTable".into(),
        Err(E::Serialization(_)) => "err:serialization".into(),
        Err(E::TokenCalculation(TokenCalculationError::ValueTooLong(n))) => format!("err:tooLong:{n}"),
        Err(_) => "err:other".into(),
    }
}

fn encode_key(comps: &[&[u8]]) -> Vec<u8> {
    if comps.len() == 1 {
        return comps[0].to_vec();
    }
    let mut enc = Vec::new();
    for c in comps {
        enc.extend_from_slice(&(c.len() as u16).to_be_bytes());
        enc.extend_from_slice(c);
        enc.push(0);
    }
    enc
}

/// Output line (compared with the Lean model by `md_C03`, case word `sesspart`; merely echoed for `e2e partitioner`):
/// `schema=<s> snap=<ks.table:pkcols:partitioner-hex|N,...|-> ; <op> ; <op> ...` with
///   `prep <ks> <table> <wire> <vals> <partitioner> <token>`     Session::prepare + calculate_token
///   `ctok <ks> <table> <types-ok 0|1> <key | many<n>> <result>`  ClusterState::compute_token
/// The snapshot is read from the session's REAL cluster state; the model recomputes `<partitioner> <token>` /
/// `<result>` from the snapshot and the operation's inputs (`preparedPartitioner`, `boundCalculateToken`,
/// `clusterComputeTokenChecked`).
pub fn run(words: &[&str], ctx: &mut Ctx) -> String {
    let Some(p) = Params::parse(words) else { return "bad-case".into() };
    let (Some(schema), Some(seed)) = (p.num_or("schema", 1), p.num_or("seed", 1)) else { return "bad-case".into() };
    if schema > 2 {
        return "bad-case".into();
    }
    let mut rng = Rng::new(seed ^ 0x0c03_0c03);
    register("ks.t_scylla_cdc_log", CDC_NAME);
    register("ks.m3", M3_NAME);
    register("ks.unk", UNK_NAME);
    // a second keyspace with the SAME table names and the partitioners the other way round (a keyspace-blind join of
    // scylla_tables with the tables would swap them): ks2.t is a CDC table, ks2.t_scylla_cdc_log is not
    register("ks2.t", CDC_NAME);
    // a materialized view ks.t_by_v of ks.t; scylla_tables reports the CDC partitioner for it (no real view has one:
    // it makes visible that neither extract_partitioner_name nor lookup_table_meta ever reads `keyspace.views`)
    register("ks.t_by_v", CDC_NAME);
    {
        let mut views = VIEWS.lock().unwrap();
        if !views.iter().any(|(k, v, _)| k == "ks" && v.name == "t_by_v") {
            views.push((
                "ks".to_owned(),
                TableSpec {
                    name: "t_by_v".into(),
                    partition_key: vec![("pk".into(), "blob".into())],
                    clustering: vec![("v".into(), "int".into())],
                    regular: vec![],
                },
                "t".to_owned(),
            ));
        }
    }
    let shape = Shape { nodes: 3, dcs: 1, racks: 1, shards: 0, msb: 12, vnodes: 4, strat: Strat::Simple(1), seed };
    let mut topo = shape.topology();
    topo.keyspaces[0].tables.push(table("t_scylla_cdc_log", "cdc$stream_id"));
    topo.keyspaces[0].tables.push(table("m3", "pk"));
    topo.keyspaces[0].tables.push(table("unk", "pk"));
    topo.keyspaces[0].tables.push(TableSpec {
        name: "comp".into(),
        partition_key: vec![("a".into(), "blob".into()), ("b".into(), "blob".into())],
        clustering: vec![],
        regular: vec![("v".into(), "int".into())],
    });
    topo.keyspaces.push(KeyspaceSpec {
        name: "ks2".into(),
        replication: simple_strategy(1),
        tables: vec![table("t", "pk"), table("t_scylla_cdc_log", "cdc$stream_id")],
        initial_tablets: None,
    });
    let rt = runtime(2);
    rt.block_on(async {
        let handler: ClusterHandler = Box::new(move |r: &Req| match &r.parsed {
            Parsed::Prepare { text } => match table_of(text) {
                Some((ks, t)) if t == "comp" => {
                    // `... WHERE b = ? AND a = ?`: marker 0 is key column b (position 1), marker 1 is a (position 0)
                    let bind = Specs::new(&ks, &t, &[("b", CqlT::Native(T_BLOB)), ("a", CqlT::Native(T_BLOB))]);
                    vec![Act::Respond(RESP_RESULT, prepared_body(&md5ish(text), &bind, &[1, 0], None))]
                }
                Some((ks, t)) => {
                    let bind = Specs::new(&ks, &t, &[("pk", CqlT::Native(T_BLOB))]);
                    vec![Act::Respond(RESP_RESULT, prepared_body(&md5ish(text), &bind, &[0], None))]
                }
                None => vec![act_error(0x2000, "syntax", &[])],
            },
            // EXECUTE: one row; a paged request (page size set) gets a second page
            Parsed::Execute { params, .. } => {
                let more = params.page_size.is_some() && params.paging_state.is_none();
                let row = vec![params.values.first().cloned().flatten(), c_int(1)];
                vec![Act::Respond(RESP_RESULT, rows_body(&row_specs(), !params.skip_metadata, if more { Some(&b"p2"[..]) } else { None }, &[row]))]
            }
            _ => vec![act_void()],
        });
        let nodes_for_oracle = topo.nodes.clone();
        let cluster = MockCluster::start(topo, handler).await;
        // schema=0: no schema; 1: full schema; 2: SchemaMetadataFetchLevel::Minimal (names + partitioners only)
        let session = match connect_with(&cluster, false, |b| b.fetch_schema_metadata(schema >= 1).fetch_full_schema_metadata(schema == 1)).await {
            Ok(s) => s,
            Err(line) => return line,
        };
        // statements are also prepared through a CachingSession wrapped around the same session
        let caching: scylla::client::caching_session::CachingSession = scylla::client::caching_session::CachingSession::from(session, 64);
        let session = caching.get_session();
        let cs = session.get_cluster_state();
        // precondition of the judged part: the snapshot really contains the tables (schema>=1)
        if schema >= 1 {
            let known = cs.get_keyspace("ks").map(|k| k.tables.contains_key("t_scylla_cdc_log")).unwrap_or(false);
            if !known {
                return "e2e-skip schema-not-fetched".to_owned();
            }
        }
        // the snapshot as the session holds it
        let mut snap: Vec<String> = Vec::new();
        for ksn in ["ks", "ks2", "nks"] {
            if let Some(k) = cs.get_keyspace(ksn) {
                let mut names: Vec<&String> = k.tables.keys().collect();
                names.sort();
                for n in names {
                    let t = &k.tables[n];
                    snap.push(format!(
                        "{}.{}:{}:{}",
                        ksn,
                        n,
                        t.partition_key.len(),
                        t.partitioner.as_ref().map(|p| crate::util::hex(p.as_bytes())).unwrap_or_else(|| "N".into())
                    ));
                }
            }
        }
        let mut out = format!("schema={} snap={}", schema, if snap.is_empty() { "-".to_owned() } else { snap.join(",") });
        // evidence only: the views the session knows (they live in `keyspace.views`, which no token path reads)
        let known_views: Vec<String> = cs.get_keyspace("ks").map(|k| { let mut v: Vec<String> = k.views.keys().map(|n| format!("ks.{n}")).collect(); v.sort(); v }).unwrap_or_default();
        out.push_str(&format!(" views={}", if known_views.is_empty() { "-".to_owned() } else { known_views.join(",") }));

        let targets = [
            ("t", "ks", "t"),
            ("cdclog", "ks", "t_scylla_cdc_log"),
            ("m3", "ks", "m3"),
            ("unk", "ks", "unk"),
            ("absent", "ks", "absent_scylla_cdc_log"),
            ("nks", "nks", "x_scylla_cdc_log"),
            ("k2t", "ks2", "t"),
            ("k2log", "ks2", "t_scylla_cdc_log"),
            ("view", "ks", "t_by_v"),
        ];
        for (label, ks, t) in targets {
            let text = format!("SELECT v FROM {ks}.{t} WHERE pk = ?");
            let ps = match session.prepare(text.as_str()).await {
                Ok(ps) => ps,
                Err(_) => {
                    ctx.fail(format!("prepare of `{text}` failed"));
                    out.push_str(&format!(" ; prep {ks} {t} 0 - prepare-failed none"));
                    continue;
                }
            };
            let is_cdc = matches!(ps.get_partitioner_name(), PartitionerName::CDC);
            let mut id = rng.bytes(16);
            if rng.chance(1, 4) {
                id[..8].copy_from_slice(&i64::MIN.to_be_bytes());
            }
            let tokr = ps.calculate_token(&(id.clone(),));
            let tok = tokr.as_ref().ok().and_then(|t| t.map(|t| t.value()));
            let expect_cdc = schema >= 1 && matches!(label, "cdclog" | "k2t");
            if schema >= 1 && is_cdc != expect_cdc {
                ctx.fail(format!(
                    "statement on {ks}.{t}: partitioner is {}, expected {} (scylla_tables partitioner: {})",
                    if is_cdc { "CDC" } else { "Murmur3" },
                    if expect_cdc { "CDC" } else { "Murmur3" },
                    match label { "cdclog" | "k2t" => CDC_NAME, "m3" => M3_NAME, "unk" => UNK_NAME, "t" | "k2log" => "null", "view" => "a materialized view (not in keyspace.tables)", _ => "table not in the snapshot" }
                ));
            }
            if schema == 0 && is_cdc {
                ctx.fail(format!("statement on {ks}.{t}: CDC partitioner although no schema was fetched"));
            }
            // the token is the selected partitioner's server-side token of the 16-byte key
            let expected_tok = if is_cdc { server_cdc_token(&id) } else { Some(reference_murmur3(&id)) };
            if tok.is_none() || tok != expected_tok {
                ctx.fail(format!(
                    "statement on {ks}.{t}: token {:?} is not the {} token {:?} of the bound key",
                    tok,
                    if is_cdc { "CDC" } else { "Murmur3" },
                    expected_tok
                ));
            }
            out.push_str(&format!(
                " ; prep {ks} {t} 0 {} {} {}",
                crate::util::hex(&id),
                if is_cdc { "cdc" } else { "murmur3" },
                show_tok(&tokr)
            ));
            // the same statement through the CachingSession: prepared + cached, then handed out from the cache
            // (make_unconfigured_handle / make_configured_handle must carry the partitioner)
            for round in 0..2 {
                match caching.add_prepared_statement(&scylla::statement::Statement::new(text.as_str())).await {
                    Ok(cps) => {
                        let c_cdc = matches!(cps.get_partitioner_name(), PartitionerName::CDC);
                        if c_cdc != is_cdc {
                            ctx.fail(format!(
                                "{ks}.{t}: CachingSession hands out partitioner {} (call {}), Session::prepare gave {}",
                                if c_cdc { "CDC" } else { "Murmur3" },
                                round + 1,
                                if is_cdc { "CDC" } else { "Murmur3" }
                            ));
                        }
                        let ctok = cps.calculate_token(&(id.clone(),));
                        if ctok.as_ref().ok().and_then(|t| t.map(|t| t.value())) != tok {
                            ctx.fail(format!("{ks}.{t}: CachingSession statement's token {} differs from {:?}", show_tok(&ctok), tok));
                        }
                        out.push_str(&format!(
                            " ; cprep {ks} {t} 0 {} {} {}",
                            crate::util::hex(&id),
                            if c_cdc { "cdc" } else { "murmur3" },
                            show_tok(&ctok)
                        ));
                    }
                    Err(_) => ctx.fail(format!("CachingSession::add_prepared_statement of `{text}` failed")),
                }
            }
            // ROUTING of real executes (the call sites session.rs:1786, pager.rs:950 / 1105 pass the partitioner name as
            // a separate argument): execute_unpaged and both pages of execute_iter must ARRIVE at the node owning the
            // token of the statement's partitioner (RF 1, 3 nodes). Oracle only; echoed by the model.
            if schema >= 1 && matches!(label, "t" | "cdclog" | "m3" | "k2t" | "k2log") {
                let owner_tok = if is_cdc { server_cdc_token(&id) } else { Some(reference_murmur3(&id)) };
                if let Some(owner_tok) = owner_tok {
                    let owner = replicas(&nodes_for_oracle, &Strat::Simple(1), owner_tok).first().copied();
                    let start = cluster.now();
                    let r1 = session.execute_unpaged(&ps, (id.clone(),)).await;
                    let mut pages = 0;
                    if let Ok(pager) = session.execute_iter(ps.clone(), (id.clone(),)).await {
                        use futures::StreamExt;
                        if let Ok(mut rows) = pager.rows_stream::<(Vec<u8>, i32)>() {
                            while let Some(r) = rows.next().await {
                                if r.is_ok() {
                                    pages += 1;
                                }
                            }
                        }
                    }
                    let arrivals: Vec<(usize, bool, bool)> = cluster
                        .user_frames()
                        .into_iter()
                        .filter(|f| f.seq >= start)
                        .filter_map(|f| match &f.parsed {
                            Parsed::Execute { params, .. } if params.values.first() == Some(&Some(id.clone())) => {
                                Some((f.node, params.page_size.is_some(), params.paging_state.is_some()))
                            }
                            _ => None,
                        })
                        .collect();
                    if r1.is_err() || pages != 2 || arrivals.len() != 3 {
                        ctx.fail(format!("{ks}.{t}: executes did not complete (unpaged ok: {}, rows seen: {}, EXECUTE frames: {})", r1.is_ok(), pages, arrivals.len()));
                    }
                    for (node, paged, later) in &arrivals {
                        if Some(*node) != owner {
                            ctx.fail(format!(
                                "{ks}.{t}: {} arrived at node {}, the {} token {} of the bound key is owned by node {:?}",
                                match (paged, later) { (false, _) => "execute_unpaged", (true, false) => "execute_iter page 1", (true, true) => "execute_iter page 2" },
                                node,
                                if is_cdc { "CDC" } else { "Murmur3" },
                                owner_tok,
                                owner
                            ));
                        }
                    }
                    out.push_str(&format!(
                        " ; route {ks} {t} owner={} arrivals={}",
                        owner.map(|o| o.to_string()).unwrap_or_else(|| "-".into()),
                        arrivals.iter().map(|a| a.0.to_string()).collect::<Vec<_>>().join(",")
                    ));
                }
            }
            // ClusterState::compute_token (the path that bypasses PreparedStatement): same token for a table in the
            // snapshot, UnknownTable otherwise
            let ct = cs.compute_token(ks, t, &(id.clone(),));
            // compute_token_preserialized: no count / type check, so it also works at the Minimal fetch level
            {
                let mut sv = scylla_cql_core::serialize::row::SerializedValues::new();
                sv.add_value(&id, &scylla_cql::frame::response::result::ColumnType::Native(scylla_cql::frame::response::result::NativeType::Blob)).unwrap();
                let pr = scylla::verif_hooks::prepared::compute_token_preserialized(&cs, ks, t, &sv);
                let known = schema >= 1 && !matches!(label, "absent" | "nks" | "view");
                match (&pr, known) {
                    (Ok(p), true) if Some(p.value()) == tok => {}
                    (Err(scylla::errors::ClusterStateTokenError::UnknownTable { .. }), false) => {}
                    (other, _) => ctx.fail(format!(
                        "{ks}.{t}: compute_token_preserialized gave {}, the prepared statement's token is {:?} (table in the snapshot: {})",
                        show_ctok(other), tok, known
                    )),
                }
                out.push_str(&format!(" ; ptokp {ks} {t} {} {}", crate::util::hex(&id), show_ctok(&pr)));
            }
            let in_snapshot = schema == 1 && !matches!(label, "absent" | "nks" | "view");
            if schema == 2 {
                // Minimal level: tables are known by name and partitioner only; compute_token cannot serialize a key
                out.push_str(&format!(" ; ctok {ks} {t} 1 {} {}", crate::util::hex(&id), show_ctok(&ct)));
                continue;
            }
            match (&ct, in_snapshot) {
                (Ok(c), true) => {
                    if Some(c.value()) != tok {
                        ctx.fail(format!(
                            "{ks}.{t}: ClusterState::compute_token {} differs from PreparedStatement::calculate_token {:?}",
                            c.value(),
                            tok
                        ));
                    }
                }
                (Err(scylla::errors::ClusterStateTokenError::UnknownTable { .. }), false) => {}
                (other, _) => ctx.fail(format!(
                    "{ks}.{t}: ClusterState::compute_token gave {} (table in the snapshot: {})",
                    show_ctok(other),
                    in_snapshot
                )),
            }
            out.push_str(&format!(" ; ctok {ks} {t} 1 {} {}", crate::util::hex(&id), show_ctok(&ct)));
        }

        // composite key ks.comp ((a, b)); the statement's markers are in the order (b, a)
        let text = "SELECT v FROM ks.comp WHERE b = ? AND a = ?";
        let ps = match session.prepare(text).await {
            Ok(ps) => ps,
            Err(_) => {
                ctx.fail("prepare of the composite statement failed");
                return out + " ; prep ks comp 1,0 - prepare-failed none";
            }
        };
        let part = if matches!(ps.get_partitioner_name(), PartitionerName::CDC) { "cdc" } else { "murmur3" };
        let (la, lb) = (1 + rng.below(20) as usize, rng.below(20) as usize);
        let (a, b) = (rng.bytes(la), rng.bytes(lb));
        // key shapes in partition-key order (a, b): fully bound; then null / unset components (not judged: the server
        // rejects them - here the two paths are KNOWN to differ, see the theorem null_component_paths_diverge)
        let shapes: Vec<(V, V)> = vec![
            (V::B(a.clone()), V::B(b.clone())),
            (V::B(a.clone()), V::Null),
            (V::Null, V::B(b.clone())),
            (V::B(a.clone()), V::Unset),
            (V::Null, V::Null),
            (V::B(crate::c03::pattern_bytes_pub(65536, 0x80)), V::B(b.clone())),
        ];
        for (i, (ka, kb)) in shapes.iter().enumerate() {
            let tokr = ps.calculate_token(&(kb.bind(), ka.bind()));
            let ctr = cs.compute_token("ks", "comp", &(ka.bind(), kb.bind()));
            if let (Some(x), Some(y)) = (ka.bytes(), kb.bytes()) {
                if x.len() <= 65535 {
                    // fully bound: both paths give the token of  len(a) a 0 len(b) b 0
                    let expected = reference_murmur3(&encode_key(&[x, y]));
                    if tokr.as_ref().ok().and_then(|t| t.map(|t| t.value())) != Some(expected) {
                        ctx.fail(format!("ks.comp: calculate_token {} is not the token {} of the key in partition-key order (a, b)", show_tok(&tokr), expected));
                    }
                    if schema == 1 && ctr.as_ref().ok().map(|t| t.value()) != Some(expected) {
                        ctx.fail(format!("ks.comp: ClusterState::compute_token {} is not the token {}", show_ctok(&ctr), expected));
                    }
                } else {
                    // a component of 65536 bytes: rejected on both paths
                    if !show_tok(&tokr).starts_with("err:tooLong") || (schema == 1 && !show_ctok(&ctr).starts_with("err:tooLong")) {
                        ctx.fail(format!("ks.comp: a 65536-byte component was not rejected: {} / {}", show_tok(&tokr), show_ctok(&ctr)));
                    }
                }
            }
            let _ = i;
            let kav = if matches!(ka, V::B(x) if x.len() > 1000) { "z65536x80".to_owned() } else { ka.show() };
            out.push_str(&format!(" ; prep ks comp 1,0 {},{} {} {}", kb.show(), kav, part, show_tok(&tokr)));
            out.push_str(&format!(" ; ctok ks comp 1 {},{} {}", kav, kb.show(), show_ctok(&ctr)));
        }
        // compute_token_preserialized checks no count: one and three values for the two-column key are hashed as given
        for key in [vec![a.clone()], vec![a.clone(), b.clone(), a.clone()]] {
            let blob = scylla_cql::frame::response::result::ColumnType::Native(scylla_cql::frame::response::result::NativeType::Blob);
            let mut sv = scylla_cql_core::serialize::row::SerializedValues::new();
            for k in &key {
                sv.add_value(k, &blob).unwrap();
            }
            let pr = scylla::verif_hooks::prepared::compute_token_preserialized(&cs, "ks", "comp", &sv);
            if schema >= 1 {
                let comps: Vec<&[u8]> = key.iter().map(|k| k.as_slice()).collect();
                let expected = reference_murmur3(&encode_key(&comps));
                if pr.as_ref().ok().map(|t| t.value()) != Some(expected) {
                    ctx.fail(format!("ks.comp: compute_token_preserialized of {} values gave {}, expected {}", key.len(), show_ctok(&pr), expected));
                }
            }
            out.push_str(&format!(" ; ptokp ks comp {} {}", key.iter().map(|k| crate::util::hex(k)).collect::<Vec<_>>().join(","), show_ctok(&pr)));
        }
        // serialization arms of compute_token: a missing column, a value of the wrong Rust type, more than 65535 values
        let short = cs.compute_token("ks", "comp", &(a.clone(),));
        let mistyped = cs.compute_token("ks", "comp", &(a.clone(), 5i32));
        let many = cs.compute_token("ks", "comp", &vec![vec![1u8]; 65536]);
        if schema == 1 {
            for (what, r) in [("one of two key columns", &short), ("an int bound to a blob column", &mistyped), ("65536 values", &many)] {
                if !matches!(r, Err(scylla::errors::ClusterStateTokenError::Serialization(_))) {
                    ctx.fail(format!("ks.comp: compute_token with {what} did not fail serialization: {}", show_ctok(r)));
                }
            }
        }
        out.push_str(&format!(" ; ctok ks comp 1 {} {}", crate::util::hex(&a), show_ctok(&short)));
        out.push_str(&format!(" ; ctok ks comp 0 {},00000005 {}", crate::util::hex(&a), show_ctok(&mistyped)));
        out.push_str(&format!(" ; ctok ks comp 1 many65536 {}", show_ctok(&many)));
        out
    })
}

// ------------------------------------------------------------------------------------------------
// `pkfetch <id hex> <name:kind:pos:type:value,...>`: where `Table.partition_key` / `pk_column_specs` come from
// ------------------------------------------------------------------------------------------------
//
// The mock serves the case's `system_schema.columns` rows for `ks.pkf` VERBATIM and in the case's order (real
// servers return them sorted by column NAME, not by key position). A real session fetches the schema
// (`query_tables_schema` -> `validate_key_columns` -> `pk_column_specs`, `query_tables`, `resolve_metadata_keyspaces`);
// then `ClusterState::compute_token("ks", "pkf", ..)` is called with typed values (`CqlValue` Blob / Int / Text) in
// key-POSITION order, in column-NAME order and as a name -> value map, and the CDC log table of the same keyspace is
// prepared. The Lean model recomputes everything from the rows (`Model/PkFetchC03.lean`).
//
// ORACLE (C03: "taken in partition-key order"), on well-formed rows (distinct names, key positions exactly 0..k-1):
// `partition_key` lists the columns by position; `compute_token` of the values in position order, and of the named
// values, is the server-side token of the key encoded in position order; values in name order whose TYPES differ
// from the position order are rejected; the CDC log table gets the CDC partitioner and token.
// Malformed rows (a gap / a repeated position) make the fetch drop the WHOLE keyspace: recorded and compared with the
// model, not judged (declared in `assumptions`).

pub fn generate_pkfetch(rng: &mut Rng, tier: Tier, emit: &mut dyn FnMut(String)) {
    let n = if tier == Tier::Quick { 40 } else { 400 };
    let names = ["a", "b", "c", "d", "e", "k1", "k10", "k2", "z", "m"];
    let types = ["blob", "int", "text"];
    for i in 0..n {
        let k = match i % 8 { 0 => 1, 1 | 2 => 2, 3 | 4 => 3, 5 => 4, 6 => rng.range(2, 5) as usize, _ => rng.range(1, 3) as usize };
        let m = rng.below(3) as usize; // clustering columns
        let r = rng.below(3) as usize; // regular columns
        let mut pool: Vec<&str> = names.to_vec();
        rng.shuffle(&mut pool);
        let mut rows: Vec<(String, char, i64, String, String)> = Vec::new();
        for j in 0..k + m + r {
            let ty = *rng.pick(&types);
            let val = match ty {
                "int" => crate::util::hex(&(rng.next() as i32).to_be_bytes()),
                "text" => { let l = rng.below(5) as usize; crate::util::hex(&(0..l).map(|_| b'a' + rng.below(26) as u8).collect::<Vec<u8>>()) }
                _ => { let l = rng.below(7) as usize; crate::util::hex(&rng.bytes(l)) }
            };
            let (kind, pos) = if j < k { ('p', j as i64) } else if j < k + m { ('c', (j - k) as i64) } else { ('r', -1) };
            rows.push((pool[j].to_owned(), kind, pos, ty.to_owned(), if kind == 'p' { val } else { "-".to_owned() }));
        }
        // malformed keys (1 case in 5): a gap, a repeated position, a key starting at 1, a negative position
        if i % 5 == 4 {
            let which = if m > 0 && rng.bool() { 'c' } else { 'p' };
            let idxs: Vec<usize> = (0..rows.len()).filter(|&j| rows[j].1 == which).collect();
            let j = *rng.pick(&idxs);
            rows[j].2 = match rng.below(4) { 0 => rows[j].2 + 1, 1 => (rows[j].2 - 1).max(-1), 2 => idxs.len() as i64, _ => *rng.pick(&[-1i64, 7, 2147483647]) };
        }
        // row order: by column name (as servers send them), shuffled, by position, reversed
        match i % 4 {
            0 | 1 => rows.sort_by(|x, y| x.0.cmp(&y.0)),
            2 => rng.shuffle(&mut rows),
            _ => rows.reverse(),
        }
        let id = rng.bytes(16);
        emit(format!(
            "pkfetch {} {}",
            crate::util::hex(&id),
            rows.iter().map(|(n, k, p, t, v)| format!("{n}:{k}:{p}:{t}:{v}")).collect::<Vec<_>>().join(",")
        ));
    }
}

pub fn run_pkfetch(words: &[&str], ctx: &mut Ctx) -> String {
    use scylla::value::CqlValue;
    if words.len() != 2 {
        return "bad-case".into();
    }
    let Some(id) = crate::util::unhex(words[0]) else { return "bad-case".into() };
    // (name, kind, position, type, value bytes)
    let mut rows: Vec<(String, String, i32, String, Vec<u8>)> = Vec::new();
    for r in words[1].split(',') {
        let f: Vec<&str> = r.split(':').collect();
        if f.len() != 5 {
            return "bad-case".into();
        }
        let kind = match f[1] { "p" => "partition_key", "c" => "clustering", "r" => "regular", _ => return "bad-case".into() };
        let (Ok(pos), Some(val)) = (f[2].parse::<i32>(), crate::util::unhex(f[4])) else { return "bad-case".into() };
        if !matches!(f[3], "blob" | "int" | "text") || (f[3] == "int" && f[1] == "p" && val.len() != 4) || (f[3] == "text" && !val.is_ascii()) {
            return "bad-case".into();
        }
        rows.push((f[0].to_owned(), kind.to_owned(), pos, f[3].to_owned(), val));
    }
    let value_of = |ty: &str, b: &[u8]| -> CqlValue {
        match ty {
            "int" => CqlValue::Int(i32::from_be_bytes(b.try_into().unwrap())),
            "text" => CqlValue::Text(String::from_utf8(b.to_vec()).unwrap()),
            _ => CqlValue::Blob(b.to_vec()),
        }
    };
    register("ks.t_scylla_cdc_log", CDC_NAME);
    {
        let mut reg = COLUMN_ROWS.lock().unwrap();
        reg.retain(|(k, _)| k != "ks.pkf");
        reg.push(("ks.pkf".to_owned(), rows.iter().map(|(n, k, p, t, _)| (n.clone(), k.clone(), *p, t.clone())).collect()));
    }
    let seed = id.iter().fold(0u64, |a, b| a.wrapping_mul(131).wrapping_add(*b as u64));
    let shape = Shape { nodes: 1, dcs: 1, racks: 1, shards: 0, msb: 12, vnodes: 4, strat: Strat::Simple(1), seed };
    let mut topo = shape.topology();
    topo.keyspaces[0].tables.push(table("t_scylla_cdc_log", "cdc$stream_id"));
    topo.keyspaces[0].tables.push(table("pkf", "pk")); // its column rows are overridden
    let rt = runtime(2);
    let out = rt.block_on(async {
        let handler: ClusterHandler = Box::new(move |r: &Req| match &r.parsed {
            Parsed::Prepare { text } => match table_of(text) {
                Some((ks, t)) => {
                    let bind = Specs::new(&ks, &t, &[("pk", CqlT::Native(T_BLOB))]);
                    vec![Act::Respond(RESP_RESULT, prepared_body(&md5ish(text), &bind, &[0], None))]
                }
                None => vec![act_error(0x2000, "syntax", &[])],
            },
            _ => vec![act_void()],
        });
        let cluster = MockCluster::start(topo, handler).await;
        let session = match connect_with(&cluster, false, |b| b.fetch_schema_metadata(true)).await {
            Ok(s) => s,
            Err(line) => return line,
        };
        let cs = session.get_cluster_state();
        let ks = cs.get_keyspace("ks");
        let pkf = ks.and_then(|k| k.tables.get("pkf"));
        let pk_names: Option<Vec<String>> = pkf.map(|t| t.partition_key.clone());

        // ---- the case's own reading of the rows (oracle side; independent of the driver and of the model)
        let distinct_names = { let mut n: Vec<&String> = rows.iter().map(|r| &r.0).collect(); n.sort(); n.dedup(); n.len() == rows.len() };
        let by_pos = |kind: &str| -> Vec<&(String, String, i32, String, Vec<u8>)> {
            let mut v: Vec<_> = rows.iter().filter(|r| r.1 == kind).collect();
            v.sort_by_key(|r| r.2);
            v
        };
        let exact = |v: &Vec<&(String, String, i32, String, Vec<u8>)>| v.iter().enumerate().all(|(i, r)| r.2 == i as i32);
        let (pkc, ckc) = (by_pos("partition_key"), by_pos("clustering"));
        let wellformed = distinct_names && exact(&pkc) && exact(&ckc);
        let mut by_name = pkc.clone();
        by_name.sort_by(|x, y| x.0.cmp(&y.0));

        let ps = session.prepare("SELECT v FROM ks.t_scylla_cdc_log WHERE pk = ?").await;
        let log_cdc = match &ps {
            Ok(ps) => matches!(ps.get_partitioner_name(), PartitionerName::CDC),
            Err(_) => {
                ctx.fail("prepare on the CDC log table failed");
                false
            }
        };
        let mut out = format!(
            "ks={} pk={} log={}",
            if ks.is_some() { "present" } else { "absent" },
            match &pk_names { None => "notable".to_owned(), Some(v) if v.is_empty() => "-".to_owned(), Some(v) => v.join(",") },
            if log_cdc { "cdc" } else { "murmur3" }
        );
        let log_tok = cs.compute_token("ks", "t_scylla_cdc_log", &(id.clone(),));
        out.push_str(&format!(" ; ctok log {} {}", crate::util::hex(&id), show_ctok(&log_tok)));

        let show_typed = |v: &Vec<&(String, String, i32, String, Vec<u8>)>| {
            if v.is_empty() { "-".to_owned() } else { v.iter().map(|r| format!("{}:{}", r.3, crate::util::hex(&r.4))).collect::<Vec<_>>().join(",") }
        };
        let pos_vals: Vec<CqlValue> = pkc.iter().map(|r| value_of(&r.3, &r.4)).collect();
        let name_vals: Vec<CqlValue> = by_name.iter().map(|r| value_of(&r.3, &r.4)).collect();
        let named: std::collections::HashMap<String, CqlValue> = pkc.iter().map(|r| (r.0.clone(), value_of(&r.3, &r.4))).collect();
        let t_pos = cs.compute_token("ks", "pkf", &pos_vals);
        let t_name = cs.compute_token("ks", "pkf", &name_vals);
        let t_named = cs.compute_token("ks", "pkf", &named);
        out.push_str(&format!(" ; ctok pkf {} {}", show_typed(&pkc), show_ctok(&t_pos)));
        out.push_str(&format!(" ; ctok pkf {} {}", show_typed(&by_name), show_ctok(&t_name)));
        if distinct_names {
            let shown = if by_name.is_empty() { "-".to_owned() } else { by_name.iter().map(|r| format!("{}={}:{}", r.0, r.3, crate::util::hex(&r.4))).collect::<Vec<_>>().join(",") };
            out.push_str(&format!(" ; ntok pkf {} {}", shown, show_ctok(&t_named)));
        }

        if wellformed && !pkc.is_empty() {
            let want_names: Vec<String> = pkc.iter().map(|r| r.0.clone()).collect();
            if pk_names.as_ref() != Some(&want_names) {
                ctx.fail(format!("ks.pkf: partition_key is {:?}, the columns by key position are {:?}", pk_names, want_names));
            }
            let comps: Vec<&[u8]> = pkc.iter().map(|r| r.4.as_slice()).collect();
            let expected = reference_murmur3(&encode_key(&comps));
            if comps.iter().map(|c| c.len()).sum::<usize>() > 0 || comps.len() > 1 {
                if t_pos.as_ref().ok().map(|t| t.value()) != Some(expected) {
                    ctx.fail(format!("ks.pkf: compute_token of the key in partition-key (position) order gave {}, the server-side token is {}", show_ctok(&t_pos), expected));
                }
                if t_named.as_ref().ok().map(|t| t.value()) != Some(expected) {
                    ctx.fail(format!("ks.pkf: compute_token of the NAMED key gave {}, the server-side token of the key in partition-key order is {}", show_ctok(&t_named), expected));
                }
            }
            let types_pos: Vec<&String> = pkc.iter().map(|r| &r.3).collect();
            let types_name: Vec<&String> = by_name.iter().map(|r| &r.3).collect();
            if types_pos != types_name && !matches!(t_name, Err(scylla::errors::ClusterStateTokenError::Serialization(_))) {
                ctx.fail(format!("ks.pkf: a key given in column-NAME order (types {:?}, key order {:?}) was not rejected: {}", types_name, types_pos, show_ctok(&t_name)));
            }
        }
        if wellformed {
            if !log_cdc {
                ctx.fail("ks.t_scylla_cdc_log: the statement did not get the CDC partitioner although every table of the keyspace is well-formed");
            }
            if log_tok.as_ref().ok().map(|t| t.value()) != server_cdc_token(&id) {
                ctx.fail(format!("ks.t_scylla_cdc_log: compute_token {} is not the CDC token of the stream id", show_ctok(&log_tok)));
            }
        }
        out
    });
    COLUMN_ROWS.lock().unwrap().retain(|(k, _)| k != "ks.pkf");
    out
}

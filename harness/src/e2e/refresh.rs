//! C19 end-to-end: `e2e refresh n=<nodes> sh=<shards> rounds=<r> k=<concurrent refreshes> add=<0|1> kill=<0|1> seed=<s>`
//!
//! A real Session against the mock cluster. Each round: optionally a node joins the cluster (`add=1`); then `k` tasks
//! call `Session::refresh_metadata()` concurrently; optionally (`kill=1`) every connection of the cluster, control
//! connection included, is reset while they wait - so the request is served through the producer's failure paths
//! (failed fetch on the control connection, re-establishment); with `kill=2` the whole cluster is stopped before the
//! calls and restarted while they wait (the error answer of `work_without_cc`, or a later success). This drives, unmodified, both ends of the hand-off:
//! `MetadataWorker` (pending request, `publish_metadata` → `merge_metadata` through the merge channel, error answers)
//! and `ClusterWorker::apply_metadata_update` (publish the state, then answer EVERY reply channel).
//!
//! ORACLE (C19's user-visible clause: "a metadata refresh that was requested is eventually answered, and the published
//! state reflects the latest fetched topology"):
//!  * no `refresh_metadata()` call panics - a panic is the requester finding its reply channel dropped unanswered;
//!  * every call that returns `Ok` returns only after a cluster state containing every node that had joined BEFORE the
//!    call was made is visible through `Session::get_cluster_state()`.
//! `Err` answers (the fetch error handed to the requester) are answers; they are counted, not judged.
//!  * every call is ANSWERED (Ok or Err) within 60 s - the mock cluster is healthy whenever calls are awaited (reset
//!    connections are re-established at once, a stopped cluster is restarted before the second half of the calls is
//!    awaited, and while it is down the producer answers with the error); an unanswered call is a FAILURE.
use super::common::*;
use crate::mockcluster::*;
use crate::mocknode::ShardMode;
use crate::rng::Rng;
use crate::{Ctx, Tier};
use std::sync::Arc;
use std::time::Duration;

pub fn generate(rng: &mut Rng, tier: Tier, emit: &mut dyn FnMut(String)) {
    let n_cases = if tier == Tier::Quick { 10 } else { 80 };
    for i in 0..n_cases {
        emit(format!(
            "e2e refresh n={} sh={} rounds={} k={} add={} kill={} seed={}",
            1 + rng.below(3),
            *rng.pick(&[0u64, 0, 2]),
            2 + rng.below(if tier == Tier::Quick { 3 } else { 6 }),
            1 + rng.below(6),
            if i % 4 == 3 { 0 } else { 1 },
            match i % 5 { 2 => 1, 4 => 2, _ => 0 },
            rng.below(1 << 32)
        ));
    }
}

pub fn run(words: &[&str], ctx: &mut Ctx) -> String {
    let Some(p) = Params::parse(words) else { return "bad-case".into() };
    let Some(shape) = Shape::parse(&p) else { return "bad-case".into() };
    let (Some(rounds), Some(k), Some(add), Some(kill)) = (p.num_or("rounds", 2), p.num_or("k", 2), p.num_or("add", 1), p.num_or("kill", 0)) else {
        return "bad-case".into();
    };
    if rounds > 20 || k == 0 || k > 32 || shape.nodes + rounds as usize > 14 {
        return "bad-case".into();
    }
    let sh = shape.shards;
    let mut rng = Rng::new(shape.seed ^ 0x1919);
    let rt = runtime(2);
    rt.block_on(async {
        let cluster = MockCluster::start(shape.topology(), with_std_prepare(|_| vec![act_void()])).await;
        let session = match connect_with(&cluster, false, |b| b).await {
            Ok(s) => Arc::new(s),
            Err(line) => return line,
        };
        let (mut ok, mut err) = (0u64, 0u64);
        for round in 0..rounds {
            if add == 1 {
                let i = cluster.n_nodes();
                let tokens: Vec<i64> = (0..2).map(|_| rng.next() as i64).collect();
                cluster
                    .add_node(NodeSpec {
                        host_id: host_id_of(i),
                        dc: Shape::dc_name(0),
                        rack: "r1".into(),
                        tokens,
                        shards: if sh == 0 { ShardMode::None } else { ShardMode::ByPort(sh, 12) },
                    })
                    .await;
            }
            // every node that has joined by now must be visible once a refresh requested from here on returns Ok
            let joined = cluster.n_nodes();
            if kill == 2 {
                // the whole cluster is down: the request is served by the failure path of the producer
                for node in 0..cluster.n_nodes() {
                    cluster.stop_node(node).await;
                }
            }
            let mut tasks = Vec::new();
            for t in 0..k {
                let session = session.clone();
                let stagger = rng.below(3);
                tasks.push(tokio::spawn(async move {
                    if stagger > 0 {
                        tokio::time::sleep(Duration::from_micros(200 * stagger * (t + 1))).await;
                    }
                    let res = session.refresh_metadata().await;
                    let visible = session.get_cluster_state().get_nodes_info().len();
                    (res.is_ok(), visible)
                }));
            }
            if kill == 1 {
                tokio::time::sleep(Duration::from_micros(100 + rng.below(2000))).await;
                for node in 0..cluster.n_nodes() {
                    cluster.kill_connections(node, true);
                }
            }
            let mut restarted = kill != 2;
            for (t, task) in tasks.into_iter().enumerate() {
                if !restarted && t >= (k as usize) / 2 {
                    // the second half of the calls is answered after the cluster came back
                    for node in 0..cluster.n_nodes() {
                        cluster.restart_node(node).await;
                    }
                    restarted = true;
                }
                match tokio::time::timeout(Duration::from_secs(60), task).await {
                    Err(_) => {
                        // every node of the mock cluster is up (a stopped cluster was restarted above): the request
                        // must be answered - Ok or Err - and it was not, 60 s after it was made
                        ctx.fail(format!(
                            "e2e refresh: round {} call {}: refresh_metadata() was not answered within 60 s although every node of the mock cluster is up (kill={})",
                            round, t, kill
                        ));
                        return format!("refresh-unanswered round={} task={}", round, t);
                    }
                    Ok(Err(join)) => {
                        if join.is_panic() {
                            ctx.fail(format!(
                                "e2e refresh: round {} call {}: refresh_metadata() panicked - its reply channel was dropped unanswered",
                                round, t
                            ));
                        }
                        return "refresh-panicked".into();
                    }
                    Ok(Ok((true, visible))) => {
                        ok += 1;
                        if visible < joined {
                            ctx.fail(format!(
                                "e2e refresh: round {} call {}: refresh_metadata() returned Ok but the published cluster state shows {} nodes; {} had joined before the call",
                                round, t, visible, joined
                            ));
                        }
                    }
                    Ok(Ok((false, _))) => {
                        // answered with the fetch error (producer's failure path; on a healthy cluster only when the
                        // machine is so loaded that the fetch timed out) - an answer all the same
                        err += 1;
                    }
                }
            }
        }
        format!("refresh rounds={} ok={} err={} nodes={}", rounds, ok, err, cluster.n_nodes())
    })
}

//! Developer smoke test of the mock cluster's opt-in SCYLLA_USE_METADATA_ID extension (never generated):
//! `e2e midsmoke n=2 sh=2`. Prepares a SELECT, executes it (cached metadata on), ALTERs the statement's result metadata
//! on the mock side (new id, one more column), executes twice more; prints what the nodes saw and what the caller decoded.
use super::common::*;
use crate::Ctx;
use crate::mockcluster::*;
use crate::mocknode::Parsed;

pub fn run(words: &[&str], ctx: &mut Ctx) -> String {
    let Some(p) = Params::parse(words) else { return "bad-case".into() };
    let Some(shape) = Shape::parse(&p) else { return "bad-case".into() };
    let reg = MetaRegistry::new();
    let v1 = Specs::new("ks", "t", &[("pk", CqlT::Native(T_BLOB)), ("v", CqlT::Native(T_INT))]);
    let v2 = Specs::new("ks", "t", &[("pk", CqlT::Native(T_BLOB)), ("v", CqlT::Native(T_INT)), ("w", CqlT::Native(T_INT))]);
    reg.set(&stmt_id(SELECT), b"m1", v1);
    let reg_h = reg.clone();
    let handler: ClusterHandler = Box::new(move |r: &Req| match &r.parsed {
        Parsed::Prepare { text } => {
            let bind = Specs::new("ks", "t", &[("pk", CqlT::Native(T_BLOB))]);
            vec![reg_h.answer_prepare(r, &stmt_id(text), &bind, &[0]).unwrap_or_else(|| act_error(0x2200, "unknown statement", &[]))]
        }
        Parsed::Execute { params, .. } => {
            let pk = params.values.first().cloned().flatten();
            vec![reg_h
                .answer_execute(r, None, |specs| vec![(0..specs.cols.len()).map(|c| if c == 0 { pk.clone() } else { c_int(c as i32 * 10) }).collect()])
                .unwrap_or_else(|| act_error(0x2200, "unknown statement", &[]))]
        }
        _ => vec![act_void()],
    });
    let rt = runtime(1);
    rt.block_on(async {
        let cluster = MockCluster::start(shape.topology(), handler).await;
        cluster.enable_metadata_id_ext();
        let session = match connect(&cluster, |b| b).await {
            Ok(s) => s,
            Err(skip) => return skip,
        };
        let mut ps = match session.prepare(SELECT).await {
            Ok(ps) => ps,
            Err(e) => {
                ctx.fail(format!("prepare failed: {e}"));
                return "prepare-failed".into();
            }
        };
        ps.set_use_cached_result_metadata(true);
        let mut decoded = Vec::new();
        for round in 0..3 {
            if round == 1 {
                reg.set(&stmt_id(SELECT), b"m2", v2.clone()); // ALTER
            }
            let res = session.execute_unpaged(&ps, (vec![7u8, round as u8],)).await;
            decoded.push(match res.map(|r| r.into_rows_result()) {
                Ok(Ok(rows)) => format!("cols={}", rows.column_specs().len()),
                other => format!("err:{:?}", other.map(|_| ()).err().map(|e| e.to_string())),
            });
        }
        let seen: Vec<String> = cluster
            .user_frames()
            .iter()
            .filter_map(|f| match &f.parsed {
                Parsed::Execute { result_metadata_id, params, .. } => Some(format!(
                    "ext={} mid={:?} skip={}",
                    f.metadata_ext,
                    result_metadata_id.as_ref().map(|m| String::from_utf8_lossy(m).into_owned()),
                    params.skip_metadata
                )),
                _ => None,
            })
            .collect();
        let ctl_ext = cluster.frames().iter().filter(|f| f.control).any(|f| f.metadata_ext);
        format!("midsmoke control_ext={} executes=[{}] decoded={:?}", ctl_ext, seen.join("; "), decoded)
    })
}

//! C12 end-to-end: `e2e route n=<nodes> dcs=<d> racks=<r> sh=<shards> mix=<0|1> nat=<0|1> msb=<m> vn=<vnodes> st=<S<rf>|N<rf>>
//! pref=<0|dc number> seed=<s> keys=<k> [rs=<node>:<shards>:<msb>,...]`
//!
//! A real Session on a mock cluster; `INSERT INTO ks.t (pk, v) VALUES (?, ?)` is prepared (the PREPARED response names
//! `pk` as the partition key of `ks.t`) and executed with `keys` distinct random keys once all pools are full.
//!
//! `rs=`: after a first round of keys the listed nodes RESTART with new sharding parameters (the node drops all its
//! connections, refuses connections for 20 ms, then reports the new (nr_shards, ignore_msb) - `shards` 0 = unsharded - in
//! SUPPORTED on every new connection and assigns shards by source port under the new count); once the driver has
//! re-filled its pools a second round of fresh keys is executed. The oracle below is evaluated with the parameters the
//! node reported on the very connection a frame arrived on, i.e. the node's CURRENT ones.
//!
//! ORACLE (from the property statement, nothing of the driver involved): with T = Murmur3 token of the key bytes
//! (harness reference implementation), R = replicas of T by the brute-force placement rules, for each key
//!  * the first EXECUTE frame carrying that key arrived at a node in R that the load-balancing configuration permits: with a preferred datacenter (`pref`) one of
//!    R in that datacenter when there is one; otherwise, with datacenter failover permitted (`fo=1`: `permit_dc_failover`,
//!    the consistency plays no part) any node of R, and without failover (the default) no replica is permitted and the
//!    request must stay inside the preferred datacenter,
//!  * on a sharded node, on a connection whose server-side shard is `((T + 2^63) << msb) * nr_shards >> 64` (every
//!    node had a live connection on every shard before the first request was sent). `nat=1` puts a port-shifting NAT
//!    between driver and nodes (a connection aimed at shard s lands on s+1; pools fill slowly or never): the shard
//!    clause is then judged for a key only if its node had a connection of the owning shard, READY for >= 100 ms.
//!
//! Optional words (added for the audit of the Session glue; defaults = the behaviour above):
//!  * `api=<u|i>`   `u` = `Session::execute_unpaged` (`Session::execute`, session.rs:1775-1816), `i` = `Session::execute_iter`
//!                  (the pager builds its OWN copy of the `RoutingInfo` literal, pager.rs:949-966): the first EXECUTE frame
//!                  of the pager is judged by the same oracle.
//!  * `lwt=<0|1>`   1 = the request is routed as an LWT (`should_route_as_lwt`: serial consistency on the execution profile;
//!                  the mock does not advertise the LWT-mark extension, so `is_confirmed_lwt` stays false here - it is
//!                  driven by the `stmt` cases): with SimpleStrategy the first frame must then arrive at the PRIMARY
//!                  replica (ring order), not merely at some replica.
//!  * `stmt=<ins|sel|all>`  INSERT (pk, v) / SELECT .. WHERE pk = ? (one key marker) / SELECT without marker (no partition
//!                  key: token absent - nothing may be judged, the requests must simply succeed).
//!  * `tab=<1|0>`   0 = the PREPARED response names a keyspace the cluster metadata does not know (`nx.t`): the statement is
//!                  then not token-aware; the oracle only demands that no request is lost.
//!
//! Further optional words (audit round 4; defaults = the behaviour above):
//!  * `api=b` `bfirst=<p|u>`  `Session::batch` of two statements (`session.rs:1031-1080`, `peek_first_token`): `p` = the first
//!                  statement is the prepared INSERT bound to the key (the second one carries ANOTHER key): the BATCH frame
//!                  is judged like an EXECUTE frame of that key; `u` = the first statement is unprepared and without values:
//!                  no token - the frames must merely arrive.
//!  * `pages=2`     (api=i stmt=sel) the node answers page 1 with a paging state. The request for page 2 must first arrive
//!                  at the coordinator of page 1 or at an owner (`pager.rs:337-365`); that node answers "is bootstrapping",
//!                  so the same page is asked for again on the next target of the plan built from the pager's pages-2+
//!                  `RoutingInfo` literal (`pager.rs:1017-1049`): another permitted replica while there is one (the NEXT one
//!                  in ring order when routed as an LWT), on its owning shard.
//!  * `lwtmark=1`   the nodes advertise `SCYLLA_LWT_ADD_METADATA_MARK` and set the mark in the PREPARED flags:
//!                  `is_confirmed_lwt()` must be true and - at an ordinary consistency, SimpleStrategy - the first frame must
//!                  arrive at the primary replica.
//!  * `spref=<dc>` `svia=<p|l>`  the STATEMENT (and the batch) names its own execution profile (`p`) or load-balancing policy
//!                  (`l`) preferring datacenter `spref`; the session's `pref` (none, or another datacenter) must then not be
//!                  what the request is routed by (`session.rs:1797-1800`, `execution.rs:139-142`, `pager.rs:148-161`).
//!
//! Round 9 words (audit round 6; defaults = the behaviour above):
//!  * `down=<node>` after the pools are full and the statement is prepared, that node STOPS (no listener, every connection
//!                  dropped) while the other nodes keep listing it; the requests start once the driver's own
//!                  `Node::is_connected()` of it is false. It is then a replica that is NOT reachable: the first frame of
//!                  every key must arrive at a REACHABLE permitted replica (the first reachable one in ring order when
//!                  routed as an LWT) on its owning shard; with a preference and no reachable local replica (no failover)
//!                  the frame stays in the datacenter. `hit` in the output = keys that had the stopped node as a replica.
//!  * `lvia=<p|s>`  (with `lwt=1`) where the serial consistency comes from: the execution profile (`p`) or the STATEMENT's
//!                  own `set_consistency` (`s`; for `api=b` the batch's) - `StatementConfig::consistency` overrides the
//!                  profile in two separate implementations, execution.rs:129-131 (execute / batch) and pager.rs:177-179
//!                  (execute_iter, first and later pages). The oracle is the `lwt=1` one: primary replica first.
//!  * `schema=0`    `SessionBuilder::fetch_schema_metadata(false)`: the driver knows no keyspace strategy, so a request
//!                  whose RoutingInfo carries token and table is routed token-UNAWARE (default.rs:1163-1167). NOT judged
//!                  (the property's "replica of the key's token" needs a placement the driver was told not to fetch):
//!                  every request must be sent; `replica=` in the output counts first frames that happened to land on a
//!                  replica. Recorded so that the behaviour is on file; see `partial`.
use super::common::*;
use crate::mockcluster::*;
use crate::mocknode::{Parsed, ShardMode};
use crate::rng::Rng;
use crate::{Ctx, Tier};
use futures::StreamExt;
use std::time::Duration;

pub fn generate(rng: &mut Rng, tier: Tier, emit: &mut dyn FnMut(String)) {
    let n_cases = if tier == Tier::Quick { 36 } else { 360 };
    for i in 0..n_cases {
        let nodes: usize = 1 + (i % 4);
        let dcs: usize = if nodes >= 2 && rng.bool() { 2 } else { 1 };
        let racks = 1 + rng.below(2);
        let sh = match rng.below(5) {
            0 => 0,
            k => k,
        };
        let mix = if sh >= 2 && rng.chance(1, 3) { 1 } else { 0 };
        let msb = *rng.pick(&[0u64, 1, 12, 12, 12]);
        let vn = *rng.pick(&[1u64, 2, 4, 8]);
        let per_dc = nodes.div_ceil(dcs);
        let st = if rng.bool() {
            format!("S{}", 1 + rng.below(nodes as u64))
        } else {
            format!("N{}", 1 + rng.below(per_dc as u64))
        };
        let pref = if rng.chance(1, 3) { 1 + rng.below(dcs as u64) } else { 0 };
        let fo = if pref > 0 && rng.bool() { 1 } else { 0 };
        let nat = if sh >= 2 && rng.chance(1, 4) { 1 } else { 0 };
        let keys = if tier == Tier::Quick { 16 } else { 24 };
        emit(format!(
            "e2e route n={} dcs={} racks={} sh={} mix={} nat={} msb={} vn={} st={} pref={} fo={} seed={} keys={}",
            nodes,
            dcs,
            racks,
            sh,
            mix,
            nat,
            msb,
            vn,
            st,
            pref,
            fo,
            rng.below(1 << 32),
            keys
        ));
    }
    // the Session glue: execute vs execute_iter x LWT routing x statement shapes x table known / unknown
    let n_glue = if tier == Tier::Quick { 16 } else { 120 };
    for i in 0..n_glue {
        let nodes = 2 + rng.below(3);
        let sh = *rng.pick(&[0u64, 2, 3, 4]);
        let api = if i % 2 == 0 { "i" } else { "u" };
        let lwt = (i / 2) % 2;
        let stmt = ["ins", "sel", "ins", "all"][(i / 4) % 4];
        let tab = if i % 8 == 7 { 0 } else { 1 };
        emit(format!(
            "e2e route n={} dcs=1 racks=1 sh={} mix=0 nat=0 msb=12 vn={} st=S{} pref=0 fo=0 seed={} keys={} api={} lwt={} stmt={} tab={}",
            nodes,
            sh,
            *rng.pick(&[1u64, 4]),
            1 + rng.below(nodes - 1),
            rng.below(1 << 32),
            if tier == Tier::Quick { 12 } else { 20 },
            api,
            lwt,
            stmt,
            tab
        ));
    }
    // the Session glue, second part: the session's datacenter preference seen through the pager, pages after the first,
    // the LWT mark of PREPARED, the statement's own profile / policy, batches
    let n_glue2 = if tier == Tier::Quick { 20 } else { 160 };
    for i in 0..n_glue2 {
        let sh = *rng.pick(&[0u64, 2, 3, 4]);
        let seed = rng.below(1 << 32);
        let keys = if tier == Tier::Quick { 10 } else { 16 };
        let vn = *rng.pick(&[1u64, 4]);
        // two datacenters of two nodes, NetworkTopologyStrategy or SimpleStrategy
        let two_dc = |rng: &mut Rng| if rng.bool() { format!("n=4 dcs=2 racks=1 sh={} mix=0 nat=0 msb=12 vn={} st=N{}", sh, vn, 1 + rng.below(2)) } else { format!("n=4 dcs=2 racks=1 sh={} mix=0 nat=0 msb=12 vn={} st=S{}", sh, vn, 1 + rng.below(4)) };
        let nodes = 2 + rng.below(3);
        let one_dc = |rng: &mut Rng, min_rf: u64| format!("n={} dcs=1 racks=1 sh={} mix=0 nat=0 msb=12 vn={} st=S{}", nodes, sh, vn, min_rf + rng.below(nodes + 1 - min_rf));
        let line = match i % 10 {
            0 => format!("{} pref={} fo=0 seed={} keys={} api=i stmt={}", two_dc(rng), 1 + rng.below(2), seed, keys, if rng.bool() { "ins" } else { "sel" }),
            1 => format!("{} pref=0 fo=0 seed={} keys={} api=i stmt=sel pages=2", one_dc(rng, 2), seed, keys),
            2 => format!("{} pref={} fo=0 seed={} keys={} api=i stmt=sel pages=2", two_dc(rng), 1 + rng.below(2), seed, keys),
            // the LWT mark, in one datacenter or (SimpleStrategy over two datacenters) in two; every other round the LWT
            // routing comes from the serial consistency of the profile instead, also for pages 2+ (the worker literal's
            // consistency)
            3 if (i / 10) % 2 == 1 => format!("n=4 dcs=2 racks=1 sh={} mix=0 nat=0 msb=12 vn={} st=S{} pref=0 fo=0 seed={} keys={} api={} lwtmark=1", sh, vn, 1 + rng.below(4), seed, keys, if rng.bool() { "u" } else { "i" }),
            3 => format!("{} pref=0 fo=0 seed={} keys={} api=u lwtmark=1", one_dc(rng, 1), seed, keys),
            4 if (i / 10) % 2 == 1 => {
                let topo = if rng.bool() { one_dc(rng, 2) } else { format!("n=4 dcs=2 racks=1 sh={} mix=0 nat=0 msb=12 vn={} st=S{}", sh, vn, 2 + rng.below(3)) };
                format!("{} pref=0 fo=0 seed={} keys={} api=i stmt=sel lwt=1 pages=2", topo, seed, keys)
            }
            4 => format!("{} pref=0 fo=0 seed={} keys={} api=i stmt=sel lwtmark=1 pages={}", one_dc(rng, 2), seed, keys, 1 + rng.below(2)),
            5 => format!("{} pref=0 fo=0 seed={} keys={} api={} spref={} svia=p", two_dc(rng), seed, keys, if rng.bool() { "u" } else { "i" }, 1 + rng.below(2)),
            6 => {
                // the session prefers the OTHER datacenter
                let sp = 1 + rng.below(2);
                format!("{} pref={} fo=0 seed={} keys={} api={} spref={} svia={}", two_dc(rng), 3 - sp, seed, keys, if rng.bool() { "u" } else { "i" }, sp, if rng.bool() { "p" } else { "l" })
            }
            7 => format!("{} pref=0 fo=0 seed={} keys={} api=b bfirst=p", one_dc(rng, 1), seed, keys),
            8 => format!("{} pref=0 fo=0 seed={} keys={} api=b bfirst=u", one_dc(rng, 1), seed, keys),
            _ => match rng.below(3) {
                0 => format!("{} pref=0 fo=0 seed={} keys={} api=b bfirst=p spref={} svia={}", two_dc(rng), seed, keys, 1 + rng.below(2), if rng.bool() { "p" } else { "l" }),
                1 => format!("{} pref={} fo=0 seed={} keys={} api=b bfirst=p", two_dc(rng), 1 + rng.below(2), seed, keys),
                _ => format!("{} pref=0 fo=0 seed={} keys={} api=b bfirst=p lwt=1", one_dc(rng, 1), seed, keys),
            },
        };
        emit(format!("e2e route {}", line));
    }
    // round 9: an unreachable replica (`down=`), the statement's own serial consistency (`lvia=s`), no schema metadata
    let n_r9 = if tier == Tier::Quick { 20 } else { 160 };
    for i in 0..n_r9 {
        let sh = *rng.pick(&[0u64, 2, 3, 4]);
        let seed = rng.below(1 << 32);
        let keys = if tier == Tier::Quick { 12 } else { 20 };
        let vn = *rng.pick(&[1u64, 4]);
        let api = ["u", "i", "b"][i % 3];
        let bf = if api == "b" { " bfirst=p" } else { "" };
        let line = match i % 10 {
            // one datacenter, RF >= 2: every key keeps a reachable replica
            0 | 1 | 2 => {
                let nodes = 3 + rng.below(2);
                format!("n={} dcs=1 racks=1 sh={} mix=0 nat=0 msb=12 vn={} st=S{} pref=0 fo=0 seed={} keys={} api={}{} down={}", nodes, sh, vn, 2 + rng.below(nodes - 2), seed, keys, api, bf, rng.below(nodes))
            }
            // two datacenters of two nodes with a preference: the stopped node is a local or a remote replica
            3 | 4 => {
                let st = if rng.bool() { format!("N{}", 1 + rng.below(2)) } else { format!("S{}", 2 + rng.below(3)) };
                format!("n=4 dcs=2 racks=1 sh={} mix=0 nat=0 msb=12 vn={} st={} pref={} fo={} seed={} keys={} api={}{} down={}", sh, vn, st, 1 + rng.below(2), rng.below(2), seed, keys, api, bf, rng.below(4))
            }
            // routed as an LWT with the primary replica of some keys stopped: the first REACHABLE replica in ring order
            5 => {
                let nodes = 3 + rng.below(2);
                format!("n={} dcs=1 racks=1 sh={} mix=0 nat=0 msb=12 vn={} st=S{} pref=0 fo=0 seed={} keys={} api={}{} lwt=1 lvia={} down={}", nodes, sh, vn, 2 + rng.below(nodes - 2), seed, keys, api, bf, if rng.bool() { "s" } else { "p" }, rng.below(nodes))
            }
            // the statement's own serial consistency: execute / execute_iter / batch, and pages 2+ of the pager
            6 | 7 => {
                let nodes = 2 + rng.below(3);
                format!("n={} dcs=1 racks=1 sh={} mix=0 nat=0 msb=12 vn={} st=S{} pref=0 fo=0 seed={} keys={} api={}{} lwt=1 lvia=s", nodes, sh, vn, 2 + rng.below(nodes - 1), seed, keys, api, bf)
            }
            8 => {
                let nodes = 2 + rng.below(3);
                format!("n={} dcs=1 racks=1 sh={} mix=0 nat=0 msb=12 vn={} st=S{} pref=0 fo=0 seed={} keys={} api=i stmt=sel lwt=1 lvia=s pages=2", nodes, sh, vn, 2 + rng.below(nodes - 1), seed, keys)
            }
            _ => {
                let nodes = 3 + rng.below(2);
                format!("n={} dcs=1 racks=1 sh={} mix=0 nat=0 msb=12 vn={} st=S1 pref=0 fo=0 seed={} keys={} api={}{} schema=0", nodes, sh, vn, seed, keys, api, bf)
            }
        };
        emit(format!("e2e route {}", line));
    }
    // node restarts with new sharding parameters (`rs=`): same count / other ignore_msb, other count / same ignore_msb,
    // both, sharded <-> unsharded
    let n_restart = if tier == Tier::Quick { 16 } else { 160 };
    for i in 0..n_restart {
        let nodes = 1 + rng.below(3);
        let sh = *rng.pick(&[0u64, 2, 3, 4, 4, 8]);
        let msb = *rng.pick(&[0u64, 1, 12, 12]);
        let other_msb = |rng: &mut Rng, m: u64| *rng.pick(&[0u64, 1, 5, 12, 20].iter().copied().filter(|x| *x != m).collect::<Vec<_>>());
        let other_sh = |rng: &mut Rng, k: u64| *rng.pick(&[2u64, 3, 4, 5, 8].iter().copied().filter(|x| *x != k).collect::<Vec<_>>());
        let mut evs = Vec::new();
        let mut order: Vec<u64> = (0..nodes).collect();
        rng.shuffle(&mut order);
        let n_ev = 1 + rng.below(nodes);
        for (j, node) in order.iter().take(n_ev as usize).enumerate() {
            // the first event of the first cases walks through the kinds, the rest is random
            let kind = if j == 0 { i as u64 % 4 } else { rng.below(4) };
            let (nsh, nmsb) = if sh == 0 {
                (other_sh(rng, 0), msb)
            } else {
                match kind {
                    0 => (sh, other_msb(rng, msb)),
                    1 => (other_sh(rng, sh), msb),
                    2 => (other_sh(rng, sh), other_msb(rng, msb)),
                    _ => (0, 0),
                }
            };
            evs.push(format!("{}:{}:{}", node, nsh, nmsb));
        }
        emit(format!(
            "e2e route n={} dcs=1 racks=1 sh={} mix=0 nat=0 msb={} vn={} st=S{} pref=0 fo=0 seed={} keys={} rs={}",
            nodes,
            sh,
            msb,
            *rng.pick(&[1u64, 4]),
            1 + rng.below(nodes),
            rng.below(1 << 32),
            if tier == Tier::Quick { 12 } else { 20 },
            evs.join(",")
        ));
    }
}

enum ShardVerdict {
    Ok,
    /// behind the NAT: the node had no settled connection of the owning shard
    NoConn,
    Wrong(String),
}

/// `lwtmark=1`: the mock nodes advertise `SCYLLA_LWT_ADD_METADATA_MARK` in SUPPORTED for the duration of the case.
struct MarkGuard;
impl MarkGuard {
    fn set(on: bool) -> MarkGuard {
        ADVERTISE_LWT_MARK.store(on, std::sync::atomic::Ordering::SeqCst);
        MarkGuard
    }
}
impl Drop for MarkGuard {
    fn drop(&mut self) {
        ADVERTISE_LWT_MARK.store(false, std::sync::atomic::Ordering::SeqCst);
    }
}

/// Retry policy of the `lwt=1 pages=2` cases: every failed attempt is retried once per target, on the next target.
#[derive(Debug)]
struct NextTargetRetry;
struct NextTargetSession;
impl scylla::policies::retry::RetryPolicy for NextTargetRetry {
    fn new_session(&self) -> Box<dyn scylla::policies::retry::RetrySession> {
        Box::new(NextTargetSession)
    }
}
impl scylla::policies::retry::RetrySession for NextTargetSession {
    fn decide_should_retry(&mut self, _: scylla::policies::retry::RequestInfo) -> scylla::policies::retry::RetryDecision {
        scylla::policies::retry::RetryDecision::RetryNextTarget(None)
    }
    fn reset(&mut self) {}
}

pub fn gen_keys(seed: u64, k: usize) -> Vec<Vec<u8>> {
    let mut rng = Rng::new(seed ^ 0x6b65_7973);
    let mut keys: Vec<Vec<u8>> = Vec::new();
    while keys.len() < k {
        let len = match rng.below(4) {
            0 => *rng.pick(&[1usize, 8, 15, 16, 17, 31, 32, 33, 47, 48, 49]),
            _ => 1 + rng.below(40) as usize,
        };
        let mut key = rng.bytes(len);
        if rng.chance(1, 4) {
            for b in key.iter_mut() {
                *b |= 0x80; // Java's signed bytes matter in the Murmur3 tail
            }
        }
        if !keys.contains(&key) {
            keys.push(key);
        }
    }
    keys
}

pub fn run(words: &[&str], ctx: &mut Ctx) -> String {
    let Some(p) = Params::parse(words) else { return "bad-case".into() };
    let Some(shape) = Shape::parse(&p) else { return "bad-case".into() };
    let (Some(pref), Some(nkeys), Some(mix)) = (p.num_or("pref", 0), p.num_or("keys", 8), p.num_or("mix", 0)) else { return "bad-case".into() };
    let (Some(fo), Some(nat)) = (p.num_or("fo", 0), p.num_or("nat", 0)) else { return "bad-case".into() };
    if pref as usize > shape.dcs || nkeys > 500 {
        return "bad-case".into();
    }
    let (api_iter, api_batch) = match p.str("api") {
        None | Some("u") => (false, false),
        Some("i") => (true, false),
        Some("b") => (false, true),
        _ => return "bad-case".into(),
    };
    let (Some(pages), Some(lwtmark), Some(spref)) = (p.num_or("pages", 1), p.num_or("lwtmark", 0), p.num_or("spref", 0)) else { return "bad-case".into() };
    let svia_policy = match p.str("svia") {
        None | Some("p") => false,
        Some("l") => true,
        _ => return "bad-case".into(),
    };
    let bfirst_prepared = match p.str("bfirst") {
        None | Some("p") => true,
        Some("u") => false,
        _ => return "bad-case".into(),
    };
    let Some(lwt) = p.num_or("lwt", 0) else { return "bad-case".into() };
    let Some(tab_known) = p.num_or("tab", 1) else { return "bad-case".into() };
    // round 9 words: `down=<node>` / `lvia=<p|s>` / `schema=<1|0>` (see the module comment)
    let down: Option<usize> = match p.str("down") {
        None | Some("-") => None,
        Some(d) => match d.parse::<usize>() {
            Ok(d) if d < shape.nodes && shape.nodes >= 2 => Some(d),
            _ => return "bad-case".into(),
        },
    };
    let lvia_stmt = match p.str("lvia") {
        None | Some("p") => false,
        Some("s") => true,
        _ => return "bad-case".into(),
    };
    let Some(schema) = p.num_or("schema", 1) else { return "bad-case".into() };
    if schema > 1
        || (lvia_stmt && lwt == 0)
        || (down.is_some() && (p.num_or("pages", 1) != Some(1) || p.str("rs").is_some_and(|r| r != "-") || nat != 0))
        || (schema == 0 && (p.str("rs").is_some_and(|r| r != "-") || nat != 0 || p.num_or("pages", 1) != Some(1)))
    {
        return "bad-case".into();
    }
    let stmt_text: &'static str = match p.str("stmt") {
        None | Some("ins") => INSERT,
        Some("sel") => SELECT,
        Some("all") => SELECT_ALL,
        _ => return "bad-case".into(),
    };
    if lwt > 1 || tab_known > 1 || (lwt == 1 && (pref > 0 || fo > 0)) {
        return "bad-case".into();
    }
    if !(1..=2).contains(&pages) || lwtmark > 1 || spref as usize > shape.dcs {
        return "bad-case".into();
    }
    // pages 2+ exist only for a SELECT read through the pager; the LWT cases are judged without a datacenter preference;
    // a batch is made of the INSERT
    if (pages == 2 && !(api_iter && p.str("stmt") == Some("sel") && tab_known == 1 && p.str("rs").is_none_or(|r| r == "-")))
        || (lwtmark == 1 && (pref > 0 || spref > 0))
        || (spref > 0 && (lwt == 1 || fo > 0))
        || (api_batch && (!matches!(p.str("stmt"), None | Some("ins")) || tab_known == 0))
    {
        return "bad-case".into();
    }
    // the preference the oracle judges by: the statement's own profile / policy wins over the session's
    let pref = if spref > 0 { spref } else { pref };
    let session_pref = p.num_or("pref", 0).unwrap_or(0);
    let mut topo = shape.topology();
    if mix != 0 && shape.shards >= 2 {
        for (i, n) in topo.nodes.iter_mut().enumerate() {
            let k = 1 + ((i as u64 * 7 + shape.seed) % shape.shards as u64) as u16;
            n.shards = ShardMode::ByPort(k, shape.msb);
        }
    }
    if nat != 0 {
        // a NAT between driver and nodes: a shard-aware connection lands on ANOTHER shard than the one aimed at; the
        // oracle is unchanged (it speaks of the shard the SERVER reports for the connection)
        for n in topo.nodes.iter_mut() {
            if let ShardMode::ByPort(k, m) = n.shards {
                n.shards = ShardMode::ByPortShifted(k, m);
            }
        }
    }
    let nodes = topo.nodes.clone();
    // rs=<node>:<shards>:<msb>,...  (shards 0 = the node comes back unsharded)
    let mut restarts: Vec<(usize, ShardMode)> = Vec::new();
    match p.str("rs") {
        None | Some("-") => {}
        Some(spec) => {
            for ev in spec.split(',') {
                let f: Vec<Option<u64>> = ev.split(':').map(|x| x.parse().ok()).collect();
                let [Some(node), Some(sh), Some(msb)] = f[..] else { return "bad-case".into() };
                if node as usize >= nodes.len() || sh > 64 || msb > 63 {
                    return "bad-case".into();
                }
                let mode = match (sh, nat) {
                    (0, _) => ShardMode::None,
                    (_, 0) => ShardMode::ByPort(sh as u16, msb as u8),
                    _ => ShardMode::ByPortShifted(sh as u16, msb as u8),
                };
                restarts.push((node as usize, mode));
            }
        }
    }
    let rt = runtime(1);
    rt.block_on(async {
        // PREPARE: the standard answer, or (tab=0) the same statement on a keyspace the metadata does not know; with
        // `lwtmark=1` the nodes advertise the LWT-mark extension and set the mark in the flags of the PREPARED metadata.
        // EXECUTE with `pages=2`: page 1 of a key carries a paging state; the FIRST request for page 2 of a key is answered
        // with "is bootstrapping" (retried on the next target of the plan), every later one with the last page.
        let _mark_guard = MarkGuard::set(lwtmark == 1);
        let mut page2_seen: std::collections::HashSet<Vec<u8>> = std::collections::HashSet::new();
        let handler: ClusterHandler = Box::new(move |r: &Req| match &r.parsed {
            Parsed::Prepare { text } => {
                let mut body = if tab_known == 1 {
                    std_prepared(text)
                } else {
                    let marks = text.matches('?').count();
                    let mut bind: Vec<(&str, CqlT)> = Vec::new();
                    if marks >= 1 {
                        bind.push(("pk", CqlT::Native(T_BLOB)));
                    }
                    if marks >= 2 {
                        bind.push(("v", CqlT::Native(T_INT)));
                    }
                    let pk: &[u16] = if marks >= 1 { &[0] } else { &[] };
                    prepared_body(&stmt_id(text), &Specs::new("nx", "t", &bind), pk, None)
                };
                if lwtmark == 1 {
                    // [int kind][short bytes id][int flags]: the mark is the top bit of the flags
                    let off = 4 + 2 + stmt_id(text).len();
                    let flags = u32::from_be_bytes([body[off], body[off + 1], body[off + 2], body[off + 3]]) | LWT_MARK;
                    body[off..off + 4].copy_from_slice(&flags.to_be_bytes());
                }
                vec![Act::Respond(crate::mocknode::RESP_RESULT, body)]
            }
            Parsed::Execute { params, .. } if pages == 2 => {
                let key = params.values.first().cloned().flatten();
                let row = vec![key.clone(), c_int(0)];
                match (&params.paging_state, key) {
                    (None, _) => vec![Act::Respond(crate::mocknode::RESP_RESULT, rows_body(&row_specs(), !params.skip_metadata, Some(b"page-2"), &[row]))],
                    (Some(_), Some(k)) if page2_seen.insert(k.clone()) => vec![act_error(0x1002, "bootstrapping", &[])],
                    (Some(_), _) => vec![Act::Respond(crate::mocknode::RESP_RESULT, rows_body(&row_specs(), !params.skip_metadata, None, &[row]))],
                }
            }
            _ => vec![act_void()],
        });
        let cluster = MockCluster::start(topo, handler).await;
        let pref_dc = (session_pref > 0).then(|| Shape::dc_name(session_pref as usize - 1));
        let session = match connect_with(&cluster, nat == 0, |b| {
          // `schema=0`: `SessionBuilder::fetch_schema_metadata(false)` - the ClusterState holds no keyspace
          let b = if schema == 0 { b.fetch_schema_metadata(false) } else { b };
          match &pref_dc {
            None if lwt == 1 => {
                // routed as an LWT: serial consistency (`RoutingInfo::should_route_as_lwt`) - on the profile, or
                // (`lvia=s`) on the STATEMENT (`StatementConfig::consistency`, set below)
                use scylla::client::execution_profile::ExecutionProfile;
                let mut pb = ExecutionProfile::builder();
                if !lvia_stmt {
                    pb = pb.consistency(scylla::statement::Consistency::Serial);
                }
                if pages == 2 {
                    // the default retry policy never retries at a serial consistency: the retry of page 2 (which is what
                    // reads the plan of the pages-2+ literal) needs a policy that moves on to the next target
                    pb = pb.retry_policy(std::sync::Arc::new(NextTargetRetry));
                }
                b.default_execution_profile_handle(pb.build().into_handle())
            }
            None => b,
            Some(dc) if fo == 0 => b.prefer_datacenter(dc.clone()),
            Some(dc) => {
                use scylla::client::execution_profile::ExecutionProfile;
                use scylla::policies::load_balancing::DefaultPolicy;
                let lb = DefaultPolicy::builder().prefer_datacenter(dc.clone()).permit_dc_failover(true).build();
                // (`is_datacenter_failover_possible`, default.rs:904-906, asks only for a preferred datacenter and
                // `permit_dc_failover`; the consistency plays no part in it)
                let profile = ExecutionProfile::builder().load_balancing_policy(lb).consistency(scylla::statement::Consistency::Quorum).build();
                b.default_execution_profile_handle(profile.into_handle())
            }
          }
        })
        .await
        {
            Ok(s) => s,
            Err(skip) => return skip,
        };
        let mut ps = match session.prepare(stmt_text).await {
            Ok(ps) => ps,
            Err(_) => return "e2e-skip prepare-failed".to_owned(),
        };
        if ps.is_confirmed_lwt() != (lwtmark == 1) {
            ctx.fail(format!("e2e route: the PREPARED response {} the LWT mark, is_confirmed_lwt() = {}", if lwtmark == 1 { "carries" } else { "does not carry" }, ps.is_confirmed_lwt()));
        }
        // `spref`: the STATEMENT names its own profile (`svia=p`) or load-balancing policy (`svia=l`); the session's
        // default profile (no preference, or `pref` = another datacenter) must then not be the one consulted
        let mut batch = scylla::statement::batch::Batch::new(scylla::statement::batch::BatchType::Unlogged);
        if spref > 0 {
            use scylla::client::execution_profile::ExecutionProfile;
            use scylla::policies::load_balancing::DefaultPolicy;
            let lb = DefaultPolicy::builder().prefer_datacenter(Shape::dc_name(spref as usize - 1)).build();
            if svia_policy {
                ps.set_load_balancing_policy(Some(lb.clone()));
                batch.set_load_balancing_policy(Some(lb));
            } else {
                let handle = ExecutionProfile::builder().load_balancing_policy(lb).build().into_handle();
                ps.set_execution_profile_handle(Some(handle.clone()));
                batch.set_execution_profile_handle(Some(handle));
            }
        }
        if api_batch {
            // two statements; the token is the one of the FIRST statement's values when that statement is prepared
            // (`peek_first_token`), absent when it is not
            if bfirst_prepared {
                batch.append_statement(ps.clone());
            } else {
                batch.append_statement("INSERT INTO ks.t (pk, v) VALUES (0x00, 0)");
            }
            batch.append_statement(ps.clone());
        }
        if lvia_stmt {
            // the STATEMENT's own consistency (`StatementConfig::consistency`) instead of the profile's: the override is
            // implemented twice - execution.rs:129-131 (execute, batch) and pager.rs:177-179 (execute_iter, all pages)
            ps.set_consistency(scylla::statement::Consistency::Serial);
            batch.set_consistency(scylla::statement::Consistency::Serial);
        }
        let ps = ps;
        let mut down_hit = 0;
        if let Some(d) = down {
            // the node stops listening and drops every connection; the requests start only once the driver's own
            // `Node::is_connected()` (what `DefaultPolicy::is_alive` reads) says so. The other nodes still list it as a
            // peer, so it stays a replica of the metadata - an unreachable one.
            cluster.stop_node(d).await;
            let t0 = std::time::Instant::now();
            loop {
                let cs = session.get_cluster_state();
                if cs.get_nodes_info().iter().any(|n| n.host_id.as_bytes() == &host_id_of(d) && !n.is_connected()) {
                    break;
                }
                if t0.elapsed() > Duration::from_secs(10) {
                    return "e2e-skip down-not-noticed".to_owned();
                }
                tokio::time::sleep(Duration::from_millis(5)).await;
            }
        }
        let mut failed = 0;
        let mut at_replica = 0;
        let mut at_shard = 0;
        let mut unjudged = 0;
        let mut total_keys = 0;
        let mut page2 = 0;
        for phase in 0..=restarts.len().min(1) {
            if phase == 1 {
                // node restarts with new sharding parameters, one after another; then the driver gets time to reconnect
                for (node, mode) in &restarts {
                    cluster.restart_node_with(*node, *mode, Duration::from_millis(20)).await;
                }
                if !cluster.wait_pools_full(&session, Duration::from_secs(15)).await {
                    return format!("e2e-skip pools-not-full-after-restart keys={} replica={} shard={}", total_keys, at_replica, at_shard);
                }
            }
            let keys = gen_keys(shape.seed.wrapping_add(phase as u64 * 7919), nkeys as usize);
            total_keys += keys.len();
        let start = cluster.mark("requests");
        let start_at = std::time::Instant::now();
        let marks = stmt_text.matches('?').count();
        for (i, k) in keys.iter().enumerate() {
            // (not what is judged here: the first frame of every request is)
            let ok = if api_batch {
                // the second statement carries ANOTHER key: it must not be the one the batch is routed by
                let other = keys[(i + 1) % keys.len()].clone();
                if bfirst_prepared {
                    session.batch(&batch, ((k.clone(), i as i32), (other, -1i32))).await.is_ok()
                } else {
                    session.batch(&batch, ((), (k.clone(), i as i32))).await.is_ok()
                }
            } else if pages == 2 {
                // read the stream to its end: one row per page
                match session.execute_iter(ps.clone(), (k.clone(),)).await {
                    Err(_) => false,
                    Ok(pager) => match pager.rows_stream::<(Vec<u8>, i32)>() {
                        Err(_) => false,
                        Ok(mut stream) => {
                            let mut rows = 0;
                            let mut ok = true;
                            while let Some(item) = stream.next().await {
                                match item {
                                    Ok(_) => rows += 1,
                                    Err(_) => {
                                        ok = false;
                                        break;
                                    }
                                }
                            }
                            ok && rows == 2
                        }
                    },
                }
            } else {
              match (api_iter, marks) {
                (false, 2) => session.execute_unpaged(&ps, (k.clone(), i as i32)).await.is_ok(),
                (false, 1) => session.execute_unpaged(&ps, (k.clone(),)).await.is_ok(),
                (false, _) => session.execute_unpaged(&ps, ()).await.is_ok(),
                (true, 2) => session.execute_iter(ps.clone(), (k.clone(), i as i32)).await.is_ok(),
                (true, 1) => session.execute_iter(ps.clone(), (k.clone(),)).await.is_ok(),
                (true, _) => session.execute_iter(ps.clone(), ()).await.is_ok(),
              }
            };
            if !ok {
                failed += 1;
            }
        }
        if schema == 0 && marks > 0 && tab_known == 1 && !(api_batch && !bfirst_prepared) {
            // OBSERVATION, not judged: without schema metadata the ClusterState knows no keyspace
            // (`query_keyspaces`, fetching.rs:686), `TokenWithStrategy::new` (default.rs:1163-1167) finds no strategy
            // and the request is routed token-UNAWARE although its RoutingInfo carries token and table. Recorded:
            // how many first frames happened to land on a replica of the (unknown to the driver) placement.
            let frames: Vec<Req> = cluster.user_frames().into_iter().filter(|f| f.seq > start).collect();
            for k in keys.iter() {
                let first = frames.iter().find(|f| match &f.parsed {
                    Parsed::Execute { params, .. } => params.values.first() == Some(&Some(k.clone())),
                    Parsed::Batch { statements, .. } => matches!(statements.first(), Some(crate::mocknode::BatchStmt::Prepared(_, vals)) if vals.first() == Some(&Some(k.clone()))),
                    _ => false,
                });
                if let Some(f) = first {
                    if replicas(&nodes, &shape.strat, token_of(k)).contains(&f.node) {
                        at_replica += 1;
                    }
                }
            }
        }
        if marks == 0 || tab_known == 0 || (api_batch && !bfirst_prepared) || schema == 0 {
            // no partition key / a table the metadata does not know / a batch whose first statement is not prepared:
            // not token-aware, nothing of the routing may be judged - but every request must have been sent
            let sent = cluster
                .user_frames()
                .into_iter()
                .filter(|f| f.seq > start && if api_batch { matches!(&f.parsed, Parsed::Batch { .. }) } else { matches!(&f.parsed, Parsed::Execute { .. }) })
                .count();
            if sent < keys.len() {
                ctx.fail(format!("e2e route: {} token-unaware requests, only {} request frames arrived", keys.len(), sent));
            }
            continue;
        }
        let frames: Vec<Req> = cluster.user_frames().into_iter().filter(|f| f.seq > start).collect();
        let conns = cluster.conns();
        // the shard clause for one frame: the sharding parameters are the ones the node reported on the connection the
        // frame arrived on (after a restart: the new ones - every connection of the old incarnation is gone)
        let shard_verdict = |f: &Req, tok: i64| -> ShardVerdict {
            let Some((n, msb)) = f.sharding else { return ShardVerdict::Ok };
            let s = shard_of(tok, n, msb);
            if nat != 0 {
                // the pools may be incomplete: the claim holds "whenever the pool has" a connection of that shard -
                // judged only if the node had one that was READY well before the first request and still open
                let settled = std::time::Duration::from_millis(100);
                let had = conns.iter().any(|c| {
                    c.node == f.node
                        && !c.control
                        && c.shard == Some(s)
                        && c.ready_at.is_some_and(|r| r + settled <= start_at)
                        && c.closed_at.is_none_or(|x| x > f.at)
                });
                if !had {
                    return ShardVerdict::NoConn;
                }
            }
            if f.shard != Some(s) {
                return ShardVerdict::Wrong(format!("arrived at node {} on a connection of shard {:?}, the owning shard is {} of {} (ignore_msb {})", f.node, f.shard, s, n, msb));
            }
            ShardVerdict::Ok
        };
        let lwt_routed = lwt == 1 || lwtmark == 1;
        for (i, k) in keys.iter().enumerate() {
            let carries_key = |f: &Req, later_page: bool| match &f.parsed {
                Parsed::Execute { params, .. } if !api_batch => params.values.first() == Some(&Some(k.clone())) && params.paging_state.is_some() == later_page,
                // a batch is recognised (and routed) by its FIRST statement
                Parsed::Batch { statements, .. } if api_batch && !later_page => {
                    matches!(statements.first(), Some(crate::mocknode::BatchStmt::Prepared(_, vals)) if vals.first() == Some(&Some(k.clone())))
                }
                _ => false,
            };
            let mine: Vec<&Req> = frames.iter().filter(|f| carries_key(f, false)).collect();
            // the FIRST frame of the logical request (there is exactly one unless an attempt failed)
            let Some(f) = mine.first().copied() else {
                if api_batch || pages == 2 {
                    ctx.fail(format!("e2e route: no request frame for key #{} arrived", i));
                }
                continue;
            };
            let tok = token_of(k);
            let reps_all = replicas(&nodes, &shape.strat, tok);
            if down.is_some_and(|d| reps_all.contains(&d)) {
                down_hit += 1;
            }
            // `down=<node>`: that node is a replica nobody can reach - "if a replica of the key's token is reachable among
            // the nodes the configuration permits, the first attempt goes to such a replica": the REACHABLE replicas, in
            // ring order (for an LWT: the first reachable one)
            let reps: Vec<usize> = reps_all.iter().copied().filter(|r| Some(*r) != down).collect();
            if Some(f.node) == down {
                ctx.fail(format!("e2e route: key #{}: a frame is recorded at node {} after it was stopped", i, f.node));
                continue;
            }
            let want: Vec<usize> = if pref > 0 {
                let dc = Shape::dc_name(pref as usize - 1);
                let local: Vec<usize> = reps.iter().copied().filter(|r| nodes[*r].dc == dc).collect();
                if !local.is_empty() {
                    local
                } else if fo != 0 {
                    reps.clone()
                } else {
                    // no permitted replica: the request must at least stay in the preferred datacenter
                    if nodes[f.node].dc != dc {
                        ctx.fail(format!(
                            "e2e route: key #{} went to node {} outside the preferred datacenter {} although failover is not permitted{}",
                            i, f.node, dc, if spref > 0 { " (the preference is the statement's own)" } else { "" }
                        ));
                    }
                    continue;
                }
            } else {
                reps.clone()
            };
            if want.is_empty() {
                continue;
            }
            if lwt_routed && matches!(shape.strat, Strat::Simple(_)) && reps.first() != Some(&f.node) {
                ctx.fail(format!(
                    "e2e route: key #{} (token {}) is routed as an LWT ({}) and must first go to the primary replica {:?}, it went to node {} (replicas in ring order {:?})",
                    i, tok, if lwtmark == 1 { "PREPARED carried the LWT mark" } else { "serial consistency" }, reps.first(), f.node, reps
                ));
                continue;
            }
            if !want.contains(&f.node) {
                ctx.fail(format!(
                    "e2e route: key #{} (token {}) first went to node {} which is not among the permitted replicas {:?} (all replicas {:?}){}",
                    i, tok, f.node, want, reps, if spref > 0 { " - the preference is the statement's own" } else { "" }
                ));
                continue;
            }
            at_replica += 1;
            match shard_verdict(f, tok) {
                ShardVerdict::Ok => {}
                ShardVerdict::NoConn => {
                    unjudged += 1;
                    continue;
                }
                ShardVerdict::Wrong(what) => {
                    ctx.fail(format!(
                        "e2e route: key #{} (token {}) {}{}",
                        i, tok, what, if phase == 1 { " - after the node restarted with new sharding parameters" } else { "" }
                    ));
                    continue;
                }
            }
            at_shard += 1;
            if pages == 2 {
                // pages after the first: the request for page 2 goes to the coordinator of page 1 (an owner, judged
                // above) - or to an owner; that node says "is bootstrapping", so the SAME page is asked for again on the
                // next target of the plan built from the pager's pages-2+ routing information: another permitted
                // replica while there is one, on its owning shard
                let later: Vec<&Req> = frames.iter().filter(|f| carries_key(f, true)).collect();
                // is there any other node the configuration permits (without failover: of the preferred datacenter)?
                let elsewhere = (0..nodes.len()).any(|nd| nd != f.node && (pref == 0 || fo != 0 || nodes[nd].dc == Shape::dc_name(pref as usize - 1)));
                let (Some(f1), Some(f2)) = (later.first().copied(), later.get(1).or(if elsewhere { None } else { later.first() }).copied()) else {
                    ctx.fail(format!("e2e route: key #{}: {} request(s) for page 2 arrived, 2 expected (the first was answered \"is bootstrapping\")", i, later.len()));
                    continue;
                };
                let same = f1.node == f.node && f1.shard == f.shard;
                let owner = want.contains(&f1.node) && matches!(shard_verdict(f1, tok), ShardVerdict::Ok);
                if !same && !owner {
                    ctx.fail(format!(
                        "e2e route: key #{} (token {}): page 2 was first asked of node {} shard {:?} - neither the coordinator of page 1 (node {} shard {:?}) nor an owner (permitted replicas {:?})",
                        i, tok, f1.node, f1.shard, f.node, f.shard, want
                    ));
                    continue;
                }
                let others: Vec<usize> = want.iter().copied().filter(|r| *r != f.node).collect();
                if others.is_empty() {
                    // no other permitted replica: the plan continues with non-replicas, any of them
                    page2 += 1;
                    continue;
                }
                if lwt_routed && matches!(shape.strat, Strat::Simple(_)) && others.first() != Some(&f2.node) {
                    ctx.fail(format!(
                        "e2e route: key #{} (token {}): page 2, routed as an LWT, was retried on node {} - the next replica in ring order is {:?} (ring order {:?})",
                        i, tok, f2.node, others.first(), reps
                    ));
                    continue;
                }
                if !others.contains(&f2.node) {
                    ctx.fail(format!(
                        "e2e route: key #{} (token {}): page 2 was retried on node {} which is not among the remaining permitted replicas {:?} (all replicas {:?}, page 1 answered by {})",
                        i, tok, f2.node, others, reps, f.node
                    ));
                    continue;
                }
                if let ShardVerdict::Wrong(what) = shard_verdict(f2, tok) {
                    ctx.fail(format!("e2e route: key #{} (token {}): the retried request for page 2 {}", i, tok, what));
                    continue;
                }
                page2 += 1;
            }
        }
        }
        if pages == 2 {
            return format!("route keys={} replica={} shard={} noconn={} failed={} restarts={} page2={}", total_keys, at_replica, at_shard, unjudged, failed, restarts.len(), page2);
        }
        // `down=`: hit = keys with the stopped node among their replicas; `schema=0`: replica = an observation (see above)
        let extra = format!("{}{}", down.map(|d| format!(" down={} hit={}", d, down_hit)).unwrap_or_default(), if schema == 0 { " schema=0(observed-only)" } else { "" });
        format!("route keys={} replica={} shard={} noconn={} failed={} restarts={}{}", total_keys, at_replica, at_shard, unjudged, failed, restarts.len(), extra)
    })
}

//! C12 end-to-end: `e2e route n=<nodes> dcs=<d> racks=<r> sh=<shards> mix=<0|1> nat=<0|1> msb=<m> vn=<vnodes> st=<S<rf>|N<rf>>
//! pref=<0|dc number> seed=<s> keys=<k> [rs=<node>:<shards>:<msb>,...]`
//!
//! A real Session on a mock cluster; `INSERT INTO ks.t (pk, v) VALUES (?, ?)` is prepared (the PREPARED response names
//! `pk` as the partition key of `ks.t`) and executed with `keys` distinct random keys once all pools are full.
//!
//! `rs=`: after a first round of keys the listed nodes RESTART with new sharding parameters (the node drops all its
//! connections, refuses connections for 20 ms, then reports the new (nr_shards, ignore_msb) - `shards` 0 = unsharded - in
//! SUPPORTED on every new connection and assigns shards by source port under the new count); once the driver has
//! re-filled its pools a second round of fresh keys is executed. The oracle below is evaluated with the parameters the
//! node reported on the very connection a frame arrived on, i.e. the node's CURRENT ones.
//!
//! ORACLE (from the property statement, nothing of the driver involved): with T = Murmur3 token of the key bytes
//! (harness reference implementation), R = replicas of T by the brute-force placement rules, for each key
//!  * the first EXECUTE frame carrying that key arrived at a node in R that the load-balancing configuration permits: with a preferred datacenter (`pref`) one of
//!    R in that datacenter when there is one; otherwise, with datacenter failover permitted (`fo=1`, consistency QUORUM)
//!    any node of R, and without failover (the default) no replica is permitted and the request must stay inside the
//!    preferred datacenter,
//!  * on a sharded node, on a connection whose server-side shard is `((T + 2^63) << msb) * nr_shards >> 64` (every
//!    node had a live connection on every shard before the first request was sent). `nat=1` puts a port-shifting NAT
//!    between driver and nodes (a connection aimed at shard s lands on s+1; pools fill slowly or never): the shard
//!    clause is then judged for a key only if its node had a connection of the owning shard, READY for >= 100 ms.
//!
//! Optional words (added for the audit of the Session glue; defaults = the behaviour above):
//!  * `api=<u|i>`   `u` = `Session::execute_unpaged` (`Session::execute`, session.rs:1775-1816), `i` = `Session::execute_iter`
//!                  (the pager builds its OWN copy of the `RoutingInfo` literal, pager.rs:949-966): the first EXECUTE frame
//!                  of the pager is judged by the same oracle.
//!  * `lwt=<0|1>`   1 = the request is routed as an LWT (`should_route_as_lwt`: serial consistency on the execution profile;
//!                  the mock does not advertise the LWT-mark extension, so `is_confirmed_lwt` stays false here - it is
//!                  driven by the `stmt` cases): with SimpleStrategy the first frame must then arrive at the PRIMARY
//!                  replica (ring order), not merely at some replica.
//!  * `stmt=<ins|sel|all>`  INSERT (pk, v) / SELECT .. WHERE pk = ? (one key marker) / SELECT without marker (no partition
//!                  key: token absent - nothing may be judged, the requests must simply succeed).
//!  * `tab=<1|0>`   0 = the PREPARED response names a keyspace the cluster metadata does not know (`nx.t`): the statement is
//!                  then not token-aware; the oracle only demands that no request is lost.
use super::common::*;
use crate::mockcluster::*;
use crate::mocknode::{Parsed, ShardMode};
use crate::rng::Rng;
use crate::{Ctx, Tier};
use std::time::Duration;

pub fn generate(rng: &mut Rng, tier: Tier, emit: &mut dyn FnMut(String)) {
    let n_cases = if tier == Tier::Quick { 36 } else { 360 };
    for i in 0..n_cases {
        let nodes: usize = 1 + (i % 4);
        let dcs: usize = if nodes >= 2 && rng.bool() { 2 } else { 1 };
        let racks = 1 + rng.below(2);
        let sh = match rng.below(5) {
            0 => 0,
            k => k,
        };
        let mix = if sh >= 2 && rng.chance(1, 3) { 1 } else { 0 };
        let msb = *rng.pick(&[0u64, 1, 12, 12, 12]);
        let vn = *rng.pick(&[1u64, 2, 4, 8]);
        let per_dc = nodes.div_ceil(dcs);
        let st = if rng.bool() {
            format!("S{}", 1 + rng.below(nodes as u64))
        } else {
            format!("N{}", 1 + rng.below(per_dc as u64))
        };
        let pref = if rng.chance(1, 3) { 1 + rng.below(dcs as u64) } else { 0 };
        let fo = if pref > 0 && rng.bool() { 1 } else { 0 };
        let nat = if sh >= 2 && rng.chance(1, 4) { 1 } else { 0 };
        let keys = if tier == Tier::Quick { 16 } else { 24 };
        emit(format!(
            "e2e route n={} dcs={} racks={} sh={} mix={} nat={} msb={} vn={} st={} pref={} fo={} seed={} keys={}",
            nodes,
            dcs,
            racks,
            sh,
            mix,
            nat,
            msb,
            vn,
            st,
            pref,
            fo,
            rng.below(1 << 32),
            keys
        ));
    }
    // the Session glue: execute vs execute_iter x LWT routing x statement shapes x table known / unknown
    let n_glue = if tier == Tier::Quick { 16 } else { 120 };
    for i in 0..n_glue {
        let nodes = 2 + rng.below(3);
        let sh = *rng.pick(&[0u64, 2, 3, 4]);
        let api = if i % 2 == 0 { "i" } else { "u" };
        let lwt = (i / 2) % 2;
        let stmt = ["ins", "sel", "ins", "all"][(i / 4) % 4];
        let tab = if i % 8 == 7 { 0 } else { 1 };
        emit(format!(
            "e2e route n={} dcs=1 racks=1 sh={} mix=0 nat=0 msb=12 vn={} st=S{} pref=0 fo=0 seed={} keys={} api={} lwt={} stmt={} tab={}",
            nodes,
            sh,
            *rng.pick(&[1u64, 4]),
            1 + rng.below(nodes - 1),
            rng.below(1 << 32),
            if tier == Tier::Quick { 12 } else { 20 },
            api,
            lwt,
            stmt,
            tab
        ));
    }
    // node restarts with new sharding parameters (`rs=`): same count / other ignore_msb, other count / same ignore_msb,
    // both, sharded <-> unsharded
    let n_restart = if tier == Tier::Quick { 16 } else { 160 };
    for i in 0..n_restart {
        let nodes = 1 + rng.below(3);
        let sh = *rng.pick(&[0u64, 2, 3, 4, 4, 8]);
        let msb = *rng.pick(&[0u64, 1, 12, 12]);
        let other_msb = |rng: &mut Rng, m: u64| *rng.pick(&[0u64, 1, 5, 12, 20].iter().copied().filter(|x| *x != m).collect::<Vec<_>>());
        let other_sh = |rng: &mut Rng, k: u64| *rng.pick(&[2u64, 3, 4, 5, 8].iter().copied().filter(|x| *x != k).collect::<Vec<_>>());
        let mut evs = Vec::new();
        let mut order: Vec<u64> = (0..nodes).collect();
        rng.shuffle(&mut order);
        let n_ev = 1 + rng.below(nodes);
        for (j, node) in order.iter().take(n_ev as usize).enumerate() {
            // the first event of the first cases walks through the kinds, the rest is random
            let kind = if j == 0 { i as u64 % 4 } else { rng.below(4) };
            let (nsh, nmsb) = if sh == 0 {
                (other_sh(rng, 0), msb)
            } else {
                match kind {
                    0 => (sh, other_msb(rng, msb)),
                    1 => (other_sh(rng, sh), msb),
                    2 => (other_sh(rng, sh), other_msb(rng, msb)),
                    _ => (0, 0),
                }
            };
            evs.push(format!("{}:{}:{}", node, nsh, nmsb));
        }
        emit(format!(
            "e2e route n={} dcs=1 racks=1 sh={} mix=0 nat=0 msb={} vn={} st=S{} pref=0 fo=0 seed={} keys={} rs={}",
            nodes,
            sh,
            msb,
            *rng.pick(&[1u64, 4]),
            1 + rng.below(nodes),
            rng.below(1 << 32),
            if tier == Tier::Quick { 12 } else { 20 },
            evs.join(",")
        ));
    }
}

pub fn gen_keys(seed: u64, k: usize) -> Vec<Vec<u8>> {
    let mut rng = Rng::new(seed ^ 0x6b65_7973);
    let mut keys: Vec<Vec<u8>> = Vec::new();
    while keys.len() < k {
        let len = match rng.below(4) {
            0 => *rng.pick(&[1usize, 8, 15, 16, 17, 31, 32, 33, 47, 48, 49]),
            _ => 1 + rng.below(40) as usize,
        };
        let mut key = rng.bytes(len);
        if rng.chance(1, 4) {
            for b in key.iter_mut() {
                *b |= 0x80; // Java's signed bytes matter in the Murmur3 tail
            }
        }
        if !keys.contains(&key) {
            keys.push(key);
        }
    }
    keys
}

pub fn run(words: &[&str], ctx: &mut Ctx) -> String {
    let Some(p) = Params::parse(words) else { return "bad-case".into() };
    let Some(shape) = Shape::parse(&p) else { return "bad-case".into() };
    let (Some(pref), Some(nkeys), Some(mix)) = (p.num_or("pref", 0), p.num_or("keys", 8), p.num_or("mix", 0)) else { return "bad-case".into() };
    let (Some(fo), Some(nat)) = (p.num_or("fo", 0), p.num_or("nat", 0)) else { return "bad-case".into() };
    if pref as usize > shape.dcs || nkeys > 500 {
        return "bad-case".into();
    }
    let api_iter = match p.str("api") {
        None | Some("u") => false,
        Some("i") => true,
        _ => return "bad-case".into(),
    };
    let Some(lwt) = p.num_or("lwt", 0) else { return "bad-case".into() };
    let Some(tab_known) = p.num_or("tab", 1) else { return "bad-case".into() };
    let stmt_text: &'static str = match p.str("stmt") {
        None | Some("ins") => INSERT,
        Some("sel") => SELECT,
        Some("all") => SELECT_ALL,
        _ => return "bad-case".into(),
    };
    if lwt > 1 || tab_known > 1 || (lwt == 1 && (pref > 0 || fo > 0)) {
        return "bad-case".into();
    }
    let mut topo = shape.topology();
    if mix != 0 && shape.shards >= 2 {
        for (i, n) in topo.nodes.iter_mut().enumerate() {
            let k = 1 + ((i as u64 * 7 + shape.seed) % shape.shards as u64) as u16;
            n.shards = ShardMode::ByPort(k, shape.msb);
        }
    }
    if nat != 0 {
        // a NAT between driver and nodes: a shard-aware connection lands on ANOTHER shard than the one aimed at; the
        // oracle is unchanged (it speaks of the shard the SERVER reports for the connection)
        for n in topo.nodes.iter_mut() {
            if let ShardMode::ByPort(k, m) = n.shards {
                n.shards = ShardMode::ByPortShifted(k, m);
            }
        }
    }
    let nodes = topo.nodes.clone();
    // rs=<node>:<shards>:<msb>,...  (shards 0 = the node comes back unsharded)
    let mut restarts: Vec<(usize, ShardMode)> = Vec::new();
    match p.str("rs") {
        None | Some("-") => {}
        Some(spec) => {
            for ev in spec.split(',') {
                let f: Vec<Option<u64>> = ev.split(':').map(|x| x.parse().ok()).collect();
                let [Some(node), Some(sh), Some(msb)] = f[..] else { return "bad-case".into() };
                if node as usize >= nodes.len() || sh > 64 || msb > 63 {
                    return "bad-case".into();
                }
                let mode = match (sh, nat) {
                    (0, _) => ShardMode::None,
                    (_, 0) => ShardMode::ByPort(sh as u16, msb as u8),
                    _ => ShardMode::ByPortShifted(sh as u16, msb as u8),
                };
                restarts.push((node as usize, mode));
            }
        }
    }
    let rt = runtime(1);
    rt.block_on(async {
        // PREPARE: the standard answer, or (tab=0) the same statement on a keyspace the metadata does not know
        let handler: ClusterHandler = if tab_known == 1 {
            with_std_prepare(|_| vec![act_void()])
        } else {
            Box::new(move |r: &Req| match &r.parsed {
                Parsed::Prepare { text } => {
                    let marks = text.matches('?').count();
                    let mut bind: Vec<(&str, CqlT)> = Vec::new();
                    if marks >= 1 {
                        bind.push(("pk", CqlT::Native(T_BLOB)));
                    }
                    if marks >= 2 {
                        bind.push(("v", CqlT::Native(T_INT)));
                    }
                    let pk: &[u16] = if marks >= 1 { &[0] } else { &[] };
                    vec![Act::Respond(crate::mocknode::RESP_RESULT, prepared_body(&stmt_id(text), &Specs::new("nx", "t", &bind), pk, None))]
                }
                _ => vec![act_void()],
            })
        };
        let cluster = MockCluster::start(topo, handler).await;
        let pref_dc = (pref > 0).then(|| Shape::dc_name(pref as usize - 1));
        let session = match connect_with(&cluster, nat == 0, |b| match &pref_dc {
            None if lwt == 1 => {
                // routed as an LWT: serial consistency (`RoutingInfo::should_route_as_lwt`)
                use scylla::client::execution_profile::ExecutionProfile;
                let profile = ExecutionProfile::builder().consistency(scylla::statement::Consistency::Serial).build();
                b.default_execution_profile_handle(profile.into_handle())
            }
            None => b,
            Some(dc) if fo == 0 => b.prefer_datacenter(dc.clone()),
            Some(dc) => {
                use scylla::client::execution_profile::ExecutionProfile;
                use scylla::policies::load_balancing::DefaultPolicy;
                let lb = DefaultPolicy::builder().prefer_datacenter(dc.clone()).permit_dc_failover(true).build();
                // datacenter failover is only possible at a non-local consistency
                let profile = ExecutionProfile::builder().load_balancing_policy(lb).consistency(scylla::statement::Consistency::Quorum).build();
                b.default_execution_profile_handle(profile.into_handle())
            }
        })
        .await
        {
            Ok(s) => s,
            Err(skip) => return skip,
        };
        let ps = match session.prepare(stmt_text).await {
            Ok(ps) => ps,
            Err(_) => return "e2e-skip prepare-failed".to_owned(),
        };
        let mut failed = 0;
        let mut at_replica = 0;
        let mut at_shard = 0;
        let mut unjudged = 0;
        let mut total_keys = 0;
        for phase in 0..=restarts.len().min(1) {
            if phase == 1 {
                // node restarts with new sharding parameters, one after another; then the driver gets time to reconnect
                for (node, mode) in &restarts {
                    cluster.restart_node_with(*node, *mode, Duration::from_millis(20)).await;
                }
                if !cluster.wait_pools_full(&session, Duration::from_secs(15)).await {
                    return format!("e2e-skip pools-not-full-after-restart keys={} replica={} shard={}", total_keys, at_replica, at_shard);
                }
            }
            let keys = gen_keys(shape.seed.wrapping_add(phase as u64 * 7919), nkeys as usize);
            total_keys += keys.len();
        let start = cluster.mark("requests");
        let start_at = std::time::Instant::now();
        let marks = stmt_text.matches('?').count();
        for (i, k) in keys.iter().enumerate() {
            // (not what is judged here: the first frame of every request is)
            let ok = match (api_iter, marks) {
                (false, 2) => session.execute_unpaged(&ps, (k.clone(), i as i32)).await.is_ok(),
                (false, 1) => session.execute_unpaged(&ps, (k.clone(),)).await.is_ok(),
                (false, _) => session.execute_unpaged(&ps, ()).await.is_ok(),
                (true, 2) => session.execute_iter(ps.clone(), (k.clone(), i as i32)).await.is_ok(),
                (true, 1) => session.execute_iter(ps.clone(), (k.clone(),)).await.is_ok(),
                (true, _) => session.execute_iter(ps.clone(), ()).await.is_ok(),
            };
            if !ok {
                failed += 1;
            }
        }
        if marks == 0 || tab_known == 0 {
            // no partition key / a table the metadata does not know: not token-aware, nothing of the routing may be
            // judged - but every request must have been sent
            let sent = cluster.user_frames().into_iter().filter(|f| f.seq > start && matches!(&f.parsed, Parsed::Execute { .. })).count();
            if sent < keys.len() {
                ctx.fail(format!("e2e route: {} token-unaware requests, only {} EXECUTE frames arrived", keys.len(), sent));
            }
            continue;
        }
        let frames: Vec<Req> = cluster.user_frames().into_iter().filter(|f| f.seq > start).collect();
        let conns = cluster.conns();
        for (i, k) in keys.iter().enumerate() {
            let mine: Vec<&Req> = frames
                .iter()
                .filter(|f| matches!(&f.parsed, Parsed::Execute { params, .. } if params.values.first() == Some(&Some(k.clone()))))
                .collect();
            // the FIRST frame of the logical request (there is exactly one unless an attempt failed)
            let Some(f) = mine.first().copied() else { continue };
            let tok = token_of(k);
            let reps = replicas(&nodes, &shape.strat, tok);
            let want: Vec<usize> = if pref > 0 {
                let dc = Shape::dc_name(pref as usize - 1);
                let local: Vec<usize> = reps.iter().copied().filter(|r| nodes[*r].dc == dc).collect();
                if !local.is_empty() {
                    local
                } else if fo != 0 {
                    reps.clone()
                } else {
                    // no permitted replica: the request must at least stay in the preferred datacenter
                    if nodes[f.node].dc != dc {
                        ctx.fail(format!(
                            "e2e route: key #{} went to node {} outside the preferred datacenter {} although failover is not permitted",
                            i, f.node, dc
                        ));
                    }
                    continue;
                }
            } else {
                reps.clone()
            };
            if want.is_empty() {
                continue;
            }
            if lwt == 1 && matches!(shape.strat, Strat::Simple(_)) && reps.first() != Some(&f.node) {
                ctx.fail(format!(
                    "e2e route: key #{} (token {}) is routed as an LWT and must first go to the primary replica {:?}, it went to node {} (replicas in ring order {:?})",
                    i, tok, reps.first(), f.node, reps
                ));
                continue;
            }
            if !want.contains(&f.node) {
                ctx.fail(format!(
                    "e2e route: key #{} (token {}) first went to node {} which is not among the permitted replicas {:?} (all replicas {:?})",
                    i, tok, f.node, want, reps
                ));
                continue;
            }
            at_replica += 1;
            // the sharding parameters the node reported on the connection the frame arrived on (after a restart: the new
            // ones - every connection of the old incarnation is gone)
            if let Some((n, msb)) = f.sharding {
                let s = shard_of(tok, n, msb);
                if nat != 0 {
                    // the pools may be incomplete: the claim holds "whenever the pool has" a connection of that shard -
                    // judged only if the node had one that was READY well before the first request and still open
                    let settled = std::time::Duration::from_millis(100);
                    let had = conns.iter().any(|c| {
                        c.node == f.node
                            && !c.control
                            && c.shard == Some(s)
                            && c.ready_at.is_some_and(|r| r + settled <= start_at)
                            && c.closed_at.is_none_or(|x| x > f.at)
                    });
                    if !had {
                        unjudged += 1;
                        continue;
                    }
                }
                if f.shard != Some(s) {
                    ctx.fail(format!(
                        "e2e route: key #{} (token {}) arrived at node {} on a connection of shard {:?}, the owning shard is {} of {} (ignore_msb {}){}",
                        i, tok, f.node, f.shard, s, n, msb, if phase == 1 { " - after the node restarted with new sharding parameters" } else { "" }
                    ));
                    continue;
                }
            }
            at_shard += 1;
        }
        }
        format!("route keys={} replica={} shard={} noconn={} failed={} restarts={}", total_keys, at_replica, at_shard, unjudged, failed, restarts.len())
    })
}

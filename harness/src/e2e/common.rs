//! Shared pieces of the end-to-end families: case parameters, cluster shapes, the brute-force placement and shard
//! rules (written from the property statements C04 / C11 / C12, independent of the driver), standard handlers.
use crate::mockcluster::*;
use crate::mocknode::{Parsed, ShardMode, md5ish};
use crate::rng::Rng;
use std::collections::HashMap;

/// `k=v` words of a case line.
pub struct Params<'a>(HashMap<&'a str, &'a str>);

impl<'a> Params<'a> {
    pub fn parse(words: &[&'a str]) -> Option<Params<'a>> {
        let mut m = HashMap::new();
        for w in words {
            let (k, v) = w.split_once('=')?;
            if m.insert(k, v).is_some() {
                return None;
            }
        }
        Some(Params(m))
    }
    pub fn str(&self, k: &str) -> Option<&'a str> {
        self.0.get(k).copied()
    }
    pub fn num(&self, k: &str) -> Option<u64> {
        self.0.get(k)?.parse().ok()
    }
    pub fn num_or(&self, k: &str, d: u64) -> Option<u64> {
        match self.0.get(k) {
            None => Some(d),
            Some(v) => v.parse().ok(),
        }
    }
}

/// Keyspace strategy on the case line: `S<rf>` (SimpleStrategy) or `N<rf>` (NetworkTopologyStrategy, rf in every DC)
/// or `N<rf0>.<rf1>...` (per DC).
#[derive(Clone, Debug, PartialEq, Eq)]
pub enum Strat {
    Simple(usize),
    Nts(Vec<usize>),
}

impl Strat {
    pub fn parse(s: &str, dcs: usize) -> Option<Strat> {
        let (k, rest) = s.split_at(1.min(s.len()));
        match k {
            "S" => Some(Strat::Simple(rest.parse().ok()?)),
            "N" => {
                let v: Option<Vec<usize>> = rest.split('.').map(|x| x.parse().ok()).collect();
                let mut v = v?;
                if v.len() == 1 {
                    v = vec![v[0]; dcs];
                }
                if v.len() != dcs {
                    return None;
                }
                Some(Strat::Nts(v))
            }
            _ => None,
        }
    }
}

/// The shape of a mock cluster on the case line.
#[derive(Clone, Debug)]
pub struct Shape {
    pub nodes: usize,
    pub dcs: usize,
    /// racks per DC (nodes of a DC are dealt round-robin over them)
    pub racks: usize,
    /// 0 = unsharded (Cassandra-like) nodes
    pub shards: u16,
    pub msb: u8,
    pub vnodes: usize,
    pub strat: Strat,
    pub seed: u64,
}

impl Shape {
    pub fn parse(p: &Params) -> Option<Shape> {
        let nodes = p.num("n")? as usize;
        let dcs = p.num_or("dcs", 1)? as usize;
        if nodes == 0 || nodes > 16 || dcs == 0 || dcs > nodes {
            return None;
        }
        let shards = p.num_or("sh", 0)?;
        let msb = p.num_or("msb", 12)?;
        let vnodes = p.num_or("vn", 4)? as usize;
        if shards > 64 || msb > 63 || vnodes == 0 || vnodes > 64 {
            return None;
        }
        Some(Shape {
            nodes,
            dcs,
            racks: p.num_or("racks", 1)?.max(1) as usize,
            shards: shards as u16,
            msb: msb as u8,
            vnodes,
            strat: Strat::parse(p.str("st").unwrap_or("S1"), dcs)?,
            seed: p.num_or("seed", 1)?,
        })
    }

    pub fn dc_of(&self, node: usize) -> usize {
        node % self.dcs
    }

    pub fn dc_name(dc: usize) -> String {
        format!("dc{}", dc + 1)
    }

    pub fn topology(&self) -> Topology {
        let mut rng = Rng::new(self.seed ^ 0x7070_7070);
        let mut used: Vec<i64> = Vec::new();
        let mut nodes = Vec::new();
        for i in 0..self.nodes {
            let mut tokens = Vec::new();
            while tokens.len() < self.vnodes {
                let t = match rng.below(12) {
                    0 => *rng.pick(&[i64::MIN + 1, -1, 0, 1, i64::MAX, i64::MAX - 1]),
                    _ => rng.next() as i64,
                };
                if t != i64::MIN && !used.contains(&t) {
                    used.push(t);
                    tokens.push(t);
                }
            }
            let dc = self.dc_of(i);
            let rack = (i / self.dcs) % self.racks;
            nodes.push(NodeSpec {
                host_id: host_id_of(i),
                dc: Shape::dc_name(dc),
                rack: format!("r{}", rack + 1),
                tokens,
                shards: if self.shards == 0 { ShardMode::None } else { ShardMode::ByPort(self.shards, self.msb) },
            });
        }
        let replication = match &self.strat {
            Strat::Simple(rf) => simple_strategy(*rf),
            Strat::Nts(v) => nts(&v.iter().enumerate().map(|(d, rf)| (Shape::dc_name(d), *rf)).collect::<Vec<_>>()),
        };
        Topology { nodes, keyspaces: vec![KeyspaceSpec { name: "ks".into(), replication, tables: vec![std_table()], initial_tablets: None }], tablets_ext: false }
    }
}

/// `ks.t (pk blob PRIMARY KEY, v int)`
pub fn std_table() -> TableSpec {
    TableSpec {
        name: "t".into(),
        partition_key: vec![("pk".into(), "blob".into())],
        clustering: vec![],
        regular: vec![("v".into(), "int".into())],
    }
}

// ---------------------------------------------------------------------------------------------------------------
// placement and shard rules, from the property statements
// ---------------------------------------------------------------------------------------------------------------

fn ring_of(nodes: &[NodeSpec], only_dc: Option<&str>) -> Vec<(i64, usize)> {
    let mut r = Vec::new();
    for (i, n) in nodes.iter().enumerate() {
        if only_dc.is_none() || only_dc == Some(n.dc.as_str()) {
            for t in &n.tokens {
                r.push((*t, i));
            }
        }
    }
    r.sort();
    r
}

fn clockwise_distinct(ring: &[(i64, usize)], tok: i64) -> Vec<usize> {
    let mut out = Vec::new();
    for (_, n) in ring.iter().filter(|e| e.0 >= tok).chain(ring.iter().filter(|e| e.0 < tok)) {
        if !out.contains(n) {
            out.push(*n);
        }
    }
    out
}

/// Replica node indexes of `tok` (C04's statement): SimpleStrategy - first RF distinct nodes clockwise;
/// NetworkTopologyStrategy - per DC, walking that DC's nodes clockwise, a node is taken if its rack is new or rack
/// repeats are still allowed (RF minus rack count), until min(RF, nodes).
pub fn replicas(nodes: &[NodeSpec], strat: &Strat, tok: i64) -> Vec<usize> {
    match strat {
        Strat::Simple(rf) => clockwise_distinct(&ring_of(nodes, None), tok).into_iter().take(*rf).collect(),
        Strat::Nts(rfs) => {
            let mut out = Vec::new();
            for (d, rf) in rfs.iter().enumerate() {
                let dc = Shape::dc_name(d);
                let cand = clockwise_distinct(&ring_of(nodes, Some(&dc)), tok);
                let mut racks: Vec<&str> = cand.iter().map(|i| nodes[*i].rack.as_str()).collect();
                racks.sort();
                racks.dedup();
                let allowed = rf.saturating_sub(racks.len());
                let target = (*rf).min(cand.len());
                let mut taken: Vec<usize> = Vec::new();
                let mut repeats = 0;
                for n in cand {
                    if taken.len() == target {
                        break;
                    }
                    if !taken.iter().any(|t| nodes[*t].rack == nodes[n].rack) {
                        taken.push(n);
                    } else if repeats < allowed {
                        repeats += 1;
                        taken.push(n);
                    }
                }
                out.extend(taken);
            }
            out
        }
    }
}

/// ScyllaDB's shard of a token (C11's statement): bias by 2^63, shift left by the ignored bits, multiply by the
/// shard count, take the high 64 bits.
pub fn shard_of(tok: i64, nr_shards: u16, msb: u8) -> u16 {
    let biased = (tok as u64).wrapping_add(1u64 << 63);
    let shifted = if msb >= 64 { 0 } else { biased << msb };
    ((shifted as u128 * nr_shards as u128) >> 64) as u16
}

/// Token of a single-column partition key.
pub fn token_of(pk: &[u8]) -> i64 {
    crate::c03::reference_murmur3(pk)
}

// ---------------------------------------------------------------------------------------------------------------
// standard statements
// ---------------------------------------------------------------------------------------------------------------

pub const INSERT: &str = "INSERT INTO ks.t (pk, v) VALUES (?, ?)";
pub const SELECT: &str = "SELECT pk, v FROM ks.t WHERE pk = ?";
pub const SELECT_ALL: &str = "SELECT pk, v FROM ks.t";

pub fn stmt_id(text: &str) -> Vec<u8> {
    md5ish(text)
}

pub fn row_specs() -> Specs {
    Specs::new("ks", "t", &[("pk", CqlT::Native(T_BLOB)), ("v", CqlT::Native(T_INT))])
}

/// RESULT/Prepared for the standard statements (bind markers from the `?` count: pk, then v).
pub fn std_prepared(text: &str) -> Vec<u8> {
    let marks = text.matches('?').count();
    let mut bind: Vec<(&str, CqlT)> = Vec::new();
    if marks >= 1 {
        bind.push(("pk", CqlT::Native(T_BLOB)));
    }
    if marks >= 2 {
        bind.push(("v", CqlT::Native(T_INT)));
    }
    let pk: &[u16] = if marks >= 1 { &[0] } else { &[] };
    let is_select = text.trim_start().to_ascii_uppercase().starts_with("SELECT");
    let rs = row_specs();
    prepared_body(&stmt_id(text), &Specs::new("ks", "t", &bind), pk, if is_select { Some(&rs) } else { None })
}

/// A handler answering PREPARE with `std_prepared` and everything else with `other`.
pub fn with_std_prepare(mut other: impl FnMut(&Req) -> Vec<Act> + Send + 'static) -> ClusterHandler {
    Box::new(move |r: &Req| match &r.parsed {
        Parsed::Prepare { text } => vec![Act::Respond(crate::mocknode::RESP_RESULT, std_prepared(text))],
        _ => other(r),
    })
}

/// Builds the session (a few attempts) and waits for full pools. `Err(line)`: the case could not reach its
/// precondition - an environment problem (overloaded machine), never a property violation: the caller prints the line
/// (`e2e-skip ...`) and judges nothing.
pub async fn connect(
    cluster: &MockCluster,
    customise: impl Fn(scylla::client::session_builder::SessionBuilder) -> scylla::client::session_builder::SessionBuilder,
) -> Result<scylla::client::session::Session, String> {
    connect_with(cluster, true, customise).await
}

/// `full_pools == false`: only waits until every node is connected, then gives the pools 200 ms to do what they do
/// (for clusters on which the driver cannot fill its pools quickly, e.g. behind the port-shifting NAT).
pub async fn connect_with(
    cluster: &MockCluster,
    full_pools: bool,
    customise: impl Fn(scylla::client::session_builder::SessionBuilder) -> scylla::client::session_builder::SessionBuilder,
) -> Result<scylla::client::session::Session, String> {
    let mut last = String::new();
    for attempt in 0..3 {
        match customise(cluster.session_builder()).build().await {
            Ok(session) => {
                if full_pools {
                    if cluster.wait_pools_full(&session, std::time::Duration::from_secs(10)).await {
                        return Ok(session);
                    }
                } else if cluster.wait_connected(&session, std::time::Duration::from_secs(10)).await {
                    tokio::time::sleep(std::time::Duration::from_millis(200)).await;
                    return Ok(session);
                }
                last = "pools-not-full".to_owned();
            }
            Err(_) => last = "session-build-failed".to_owned(),
        }
        tokio::time::sleep(std::time::Duration::from_millis(100 << attempt)).await;
    }
    Err(format!("e2e-skip {}", last))
}

pub fn is_request(r: &Req) -> bool {
    matches!(r.parsed, Parsed::Query { .. } | Parsed::Execute { .. } | Parsed::Batch { .. })
}

/// Kind of a driver error, for canonical output lines (never messages).
pub fn err_kind(e: &scylla::errors::ExecutionError) -> String {
    use scylla::errors::*;
    match e {
        ExecutionError::LastAttemptError(RequestAttemptError::DbError(d, _)) => format!("db:{:x}", d.code(&scylla::frame::protocol_features::ProtocolFeatures::default())),
        ExecutionError::LastAttemptError(RequestAttemptError::BrokenConnectionError(_)) => "broken".into(),
        ExecutionError::LastAttemptError(_) => "attempt".into(),
        ExecutionError::EmptyPlan => "emptyplan".into(),
        ExecutionError::ConnectionPoolError(_) => "pool".into(),
        ExecutionError::RequestTimeout(_) => "timeout".into(),
        _ => "other".into(),
    }
}

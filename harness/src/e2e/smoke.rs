//! Developer smoke test of the mock cluster (never generated): `e2e smoke n=3 dcs=2 sh=2 st=N1`.
use super::common::*;
use crate::Ctx;
use crate::mockcluster::*;
use std::time::{Duration, Instant};

pub fn run(words: &[&str], ctx: &mut Ctx) -> String {
    let Some(p) = Params::parse(words) else { return "bad-case".into() };
    let Some(shape) = Shape::parse(&p) else { return "bad-case".into() };
    let rt = runtime(1);
    rt.block_on(async {
        let t0 = Instant::now();
        let cluster = MockCluster::start(shape.topology(), with_std_prepare(|_| vec![act_void()])).await;
        let session = match cluster.session_builder().build().await {
            Ok(s) => s,
            Err(e) => {
                ctx.fail(format!("session build failed: {e}"));
                for f in cluster.frames() {
                    eprintln!("{:?}", f.parsed);
                }
                return "build-failed".to_owned();
            }
        };
        let t_build = t0.elapsed();
        let full = cluster.wait_pools_full(&session, Duration::from_secs(3)).await;
        let t_full = t0.elapsed();
        let cs = session.get_cluster_state();
        let mut nodes: Vec<String> = cs
            .get_nodes_info()
            .iter()
            .map(|n| format!("{}/{:?}/{:?}/{}/{:?}", n.address.ip(), n.datacenter, n.rack, n.is_connected(), n.sharder().map(|s| s.nr_shards)))
            .collect();
        nodes.sort();
        let ks = cs.get_keyspace("ks").map(|k| format!("{:?} tables={:?}", k.strategy, k.tables.keys().collect::<Vec<_>>()));
        let prepared = session.prepare(INSERT).await;
        let mut res = String::new();
        if let Ok(ps) = &prepared {
            let r = session.execute_unpaged(ps, (vec![1u8, 2, 3], 5i32)).await;
            res = format!("{:?}", r.map(|_| ()));
        }
        let conns = cluster.conns().len();
        format!(
            "full={} build={:?} full_at={:?} nodes={:?} ks={:?} prep={:?} exec={} conns={} frames={}",
            full,
            t_build,
            t_full,
            nodes,
            ks,
            prepared.map(|p| p.get_table_spec().map(|t| format!("{}.{}", t.ks_name(), t.table_name()))),
            res,
            conns,
            cluster.frames().len()
        )
    })
}

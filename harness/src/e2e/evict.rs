//! C14 end-to-end: `e2e evict n=<nodes> sh=<shards> caching=<0|cache size> seed=<s> ops=<op.op...>`
//!
//! Every node keeps its own set of prepared ids: PREPARE adds, an EXECUTE / BATCH naming an id the node does not hold
//! is answered UNPREPARED. ops on one Session (or CachingSession of the given cache size, cycling over three texts):
//!   `e<k>`  k executions of `SELECT pk, v FROM ks.t WHERE pk = ?` with random keys (the node answers one row
//!           (pk, checksum(pk)));  `b<k>`  k one-statement batches of the prepared INSERT
//!   `v<i>`  node i forgets all prepared statements;  `V` all nodes do
//!   `x<i>`  node i answers its next PREPARE with a DIFFERENT id than the digest of the text (and holds only that one)
//!
//! ORACLE (C14's statement):
//!  * at the nodes: after an UNPREPARED answer on a connection, the next statement frames on that connection are a
//!    PREPARE of the text that id stands for and then a frame byte-identical to the refused one (same id, values and
//!    parameters) - unless the PREPARE was answered with another id than the refused one, in which case the request
//!    is NOT repeated under the new id;
//!  * at the caller: every execution returns the normal result - for the SELECT the row the node built from THIS
//!    request's key - except the ones whose re-preparation yielded a different id: those return an error (always).
use super::common::*;
use crate::mockcluster::*;
use crate::mocknode::{BatchStmt, OP_BATCH, OP_EXECUTE, OP_PREPARE, Parsed, RESP_ERROR, RESP_RESULT, body_unprepared};
use crate::rng::Rng;
use crate::{Ctx, Tier};
use std::collections::HashSet;
use std::sync::{Arc, Mutex};

pub fn generate(rng: &mut Rng, tier: Tier, emit: &mut dyn FnMut(String)) {
    let n_cases = if tier == Tier::Quick { 30 } else { 300 };
    for _ in 0..n_cases {
        let n = 1 + rng.below(3);
        let mut ops = Vec::new();
        let len = 4 + rng.below(8);
        for _ in 0..len {
            let op = match rng.below(10) {
                0..=3 => format!("e{}", 1 + rng.below(6)),
                4 | 5 => format!("b{}", 1 + rng.below(3)),
                6 | 7 => format!("v{}", rng.below(n)),
                8 => "V".to_owned(),
                _ => {
                    let i = rng.below(n);
                    format!("x{}.v{}", i, i)
                }
            };
            ops.push(op);
        }
        ops.push("V".into());
        ops.push(format!("e{}", 3 + rng.below(4)));
        emit(format!(
            "e2e evict n={} sh={} caching={} seed={} ops={}",
            n,
            *rng.pick(&[0u64, 0, 2]),
            *rng.pick(&[0u64, 0, 2, 8]),
            rng.below(1 << 32),
            ops.join(".")
        ));
    }
}

fn chk(pk: &[u8]) -> i32 {
    pk.iter().fold(17i32, |a, b| a.wrapping_mul(31).wrapping_add(*b as i32))
}

const TEXTS: [&str; 3] = [
    "SELECT pk, v FROM ks.t WHERE pk = ?",
    "SELECT pk, v FROM ks.t WHERE pk = ? LIMIT 1",
    "SELECT pk, v FROM ks.t WHERE pk = ? LIMIT 2",
];

struct NodeState {
    held: Vec<HashSet<Vec<u8>>>,
    change_id: Vec<bool>,
    /// ids handed out with a changed last byte
    changed_ids: Vec<Vec<u8>>,
    /// seq of every frame answered UNPREPARED
    unprepared_at: Vec<u64>,
    /// seq of every PREPARE that followed an UNPREPARED on its connection and returned another id than the refused one
    changed_at: Vec<u64>,
    /// (node, conn) -> id refused last on that connection, until the next statement frame
    last_refused: std::collections::HashMap<(usize, usize), Vec<u8>>,
    /// every id ever handed out -> its text
    id_text: std::collections::HashMap<Vec<u8>, String>,
}

pub fn run(words: &[&str], ctx: &mut Ctx) -> String {
    let Some(p) = Params::parse(words) else { return "bad-case".into() };
    let (Some(n), Some(sh), Some(caching), Some(seed)) = (p.num("n"), p.num_or("sh", 0), p.num_or("caching", 0), p.num_or("seed", 1)) else {
        return "bad-case".into();
    };
    let Some(ops_s) = p.str("ops") else { return "bad-case".into() };
    let ops: Vec<&str> = ops_s.split('.').filter(|o| !o.is_empty()).collect();
    if !(1..=8).contains(&n) || sh > 8 || caching > 64 || ops.len() > 200 {
        return "bad-case".into();
    }
    let n = n as usize;
    let shape = Shape { nodes: n, dcs: 1, racks: 1, shards: sh as u16, msb: 12, vnodes: 2, strat: Strat::Simple(n), seed };
    let state = Arc::new(Mutex::new(NodeState {
        held: vec![HashSet::new(); n],
        change_id: vec![false; n],
        changed_ids: Vec::new(),
        unprepared_at: Vec::new(),
        changed_at: Vec::new(),
        last_refused: Default::default(),
        id_text: Default::default(),
    }));
    let st_h = Arc::clone(&state);
    let handler: ClusterHandler = Box::new(move |r: &Req| {
        let mut st = st_h.lock().unwrap();
        match &r.parsed {
            Parsed::Prepare { text } => {
                let mut id = stmt_id(text);
                if st.change_id[r.node] {
                    st.change_id[r.node] = false;
                    let l = id.len() - 1;
                    id[l] ^= 0xFF;
                    st.changed_ids.push(id.clone());
                    st.held[r.node].clear();
                }
                if let Some(refused) = st.last_refused.remove(&(r.node, r.conn)) {
                    if refused != id {
                        st.changed_at.push(r.seq);
                    }
                }
                st.id_text.insert(id.clone(), text.clone());
                st.held[r.node].insert(id.clone());
                let mut body = std_prepared(text);
                // std_prepared wrote stmt_id(text) as the id: [int kind][short n][id]
                body[6..6 + id.len()].copy_from_slice(&id);
                vec![Act::Respond(RESP_RESULT, body)]
            }
            Parsed::Execute { id, params, .. } => {
                st.last_refused.remove(&(r.node, r.conn));
                if !st.held[r.node].contains(id) {
                    st.unprepared_at.push(r.seq);
                    st.last_refused.insert((r.node, r.conn), id.clone());
                    return vec![Act::Respond(RESP_ERROR, body_unprepared(id))];
                }
                if *id == stmt_id(INSERT) {
                    return vec![act_void()];
                }
                let pk = params.values.first().cloned().flatten().unwrap_or_default();
                let row = vec![Some(pk.clone()), c_int(chk(&pk))];
                vec![Act::Respond(RESP_RESULT, rows_body(&row_specs(), !params.skip_metadata, None, &[row]))]
            }
            Parsed::Batch { statements, .. } => {
                st.last_refused.remove(&(r.node, r.conn));
                for s in statements {
                    if let BatchStmt::Prepared(id, _) = s {
                        if !st.held[r.node].contains(id) {
                            st.unprepared_at.push(r.seq);
                            st.last_refused.insert((r.node, r.conn), id.clone());
                            return vec![Act::Respond(RESP_ERROR, body_unprepared(id))];
                        }
                    }
                }
                vec![act_void()]
            }
            _ => vec![act_void()],
        }
    });
    let rt = runtime(1);
    rt.block_on(async {
        use scylla::client::caching_session::CachingSession;
        use scylla::statement::batch::{Batch, BatchType};
        let cluster = MockCluster::start(shape.topology(), handler).await;
        let session = match connect(&cluster, |b| b).await {
            Ok(s) => s,
            Err(skip) => return skip,
        };
        let (sel, ins) = match (session.prepare(TEXTS[0]).await, session.prepare(INSERT).await) {
            (Ok(a), Ok(b)) => (a, b),
            _ => return "e2e-skip prepare-failed".to_owned(),
        };
        let caching_session: Option<CachingSession> = None;
        let (session, caching_session) = if caching > 0 { (None, Some(CachingSession::from(session, caching as usize))) } else { (Some(session), caching_session) };
        let mut rng = Rng::new(seed ^ 0x6576);
        // (ok, changed ids handed out before / after the call)
        let mut n_exec = 0;
        let mut n_ok = 0;
        let mut n_err = 0;
        let mut text_rr = 0usize;
        for op in &ops {
            let (head, arg) = {
                let split = op.find(|c: char| c.is_ascii_digit()).unwrap_or(op.len());
                (&op[..split], op[split..].parse::<usize>().ok())
            };
            match (head, arg) {
                ("e", Some(k)) | ("b", Some(k)) if k <= 64 => {
                    for _ in 0..k {
                        let len = 1 + rng.below(12) as usize;
                        let pk = rng.bytes(len);
                        let changed_before = state.lock().unwrap().changed_at.len();
                        n_exec += 1;
                        let res = if head == "e" {
                            match (&session, &caching_session) {
                                (Some(s), _) => s.execute_unpaged(&sel, (pk.clone(),)).await,
                                (_, Some(cs)) => {
                                    text_rr += 1;
                                    cs.execute_unpaged(TEXTS[text_rr % 3], (pk.clone(),)).await
                                }
                                _ => unreachable!(),
                            }
                        } else {
                            let mut b = Batch::new(BatchType::Unlogged);
                            b.append_statement(ins.clone());
                            match (&session, &caching_session) {
                                (Some(s), _) => s.batch(&b, ((pk.clone(), 1i32),)).await,
                                (_, Some(cs)) => cs.batch(&b, ((pk.clone(), 1i32),)).await,
                                _ => unreachable!(),
                            }
                        };
                        let id_changed = state.lock().unwrap().changed_at.len() > changed_before;
                        match res {
                            Ok(_) if id_changed => {
                                n_ok += 1;
                                ctx.fail(format!(
                                    "e2e evict: an execution ({}) returned Ok although its re-preparation had yielded a different id than the one the statement was prepared under (the caller must get an error)",
                                    op
                                ));
                            }
                            Ok(r) => {
                                n_ok += 1;
                                if head == "e" {
                                    let row = r.into_rows_result().ok().and_then(|rr| rr.single_row::<(Vec<u8>, i32)>().ok());
                                    if row != Some((pk.clone(), chk(&pk))) {
                                        ctx.fail(format!(
                                            "e2e evict: the execution with key {} returned {:?}; the node built the row ({}, {}) for it",
                                            crate::util::hex(&pk),
                                            row.map(|(a, b)| (crate::util::hex(&a), b)),
                                            crate::util::hex(&pk),
                                            chk(&pk)
                                        ));
                                    }
                                }
                            }
                            Err(e) => {
                                n_err += 1;
                                let kind = err_kind(&e);
                                // broken connections / pool / timeouts are the environment's doing, not an eviction's
                                if !id_changed && (kind.starts_with("db:") || kind == "attempt") {
                                    ctx.fail(format!(
                                        "e2e evict: an execution ({}) failed with `{}` although no re-preparation changed the id (evictions must be transparent)",
                                        op,
                                        err_kind(&e)
                                    ));
                                }
                            }
                        }
                    }
                }
                ("v", Some(i)) if i < n => state.lock().unwrap().held[i].clear(),
                ("V", None) => state.lock().unwrap().held.iter_mut().for_each(|h| h.clear()),
                ("x", Some(i)) if i < n => state.lock().unwrap().change_id[i] = true,
                _ => return "bad-case".to_owned(),
            }
        }
        // ------------------------------------------------------------------ oracle at the nodes
        let st = state.lock().unwrap();
        let frames: Vec<Req> = cluster.user_frames().into_iter().filter(|f| [OP_PREPARE, OP_EXECUTE, OP_BATCH].contains(&f.opcode)).collect();
        for seq in &st.unprepared_at {
            let Some(pos) = frames.iter().position(|f| f.seq == *seq) else { continue };
            let refused = &frames[pos];
            let refused_id: Vec<u8> = match &refused.parsed {
                Parsed::Execute { id, .. } => id.clone(),
                Parsed::Batch { statements, .. } => statements
                    .iter()
                    .find_map(|s| if let BatchStmt::Prepared(id, _) = s { Some(id.clone()) } else { None })
                    .unwrap_or_default(),
                _ => continue,
            };
            let mut later = frames[pos + 1..].iter().filter(|f| f.node == refused.node && f.conn == refused.conn);
            let what = format!("node {} connection {} refused a frame (clock {}) as UNPREPARED", refused.node, refused.conn, seq);
            match later.next() {
                Some(f) if matches!(&f.parsed, Parsed::Prepare { text } if st.id_text.get(&refused_id) == Some(text)) => {
                    if st.changed_at.contains(&f.seq) {
                        // the id changed: the request must not be repeated with the foreign id
                        if let Some(nx) = later.next() {
                            let uses_other = match &nx.parsed {
                                Parsed::Execute { id, .. } => *id != refused_id,
                                _ => false,
                            };
                            if uses_other && nx.body.len() > 2 + refused_id.len() && nx.body[2 + refused_id.len()..] == refused.body[2 + refused_id.len()..] {
                                ctx.fail(format!("e2e evict: {}; the re-preparation returned a different id and the request was then sent with that id", what));
                            }
                        }
                        continue;
                    }
                    match later.next() {
                        Some(nx) if nx.opcode == refused.opcode && nx.body == refused.body => {}
                        Some(nx) => ctx.fail(format!(
                            "e2e evict: {}; after the re-preparation the next frame is not byte-identical to the refused one (refused {} / repeated {})",
                            what,
                            crate::util::hex(&refused.body),
                            crate::util::hex(&nx.body)
                        )),
                        None => ctx.fail(format!("e2e evict: {}; it was re-prepared but the request was never repeated", what)),
                    }
                }
                Some(f) => ctx.fail(format!("e2e evict: {}; the next frame on that connection is {:?}, not a PREPARE of that statement", what, f.parsed)),
                None => ctx.fail(format!("e2e evict: {}; nothing followed on that connection", what)),
            }
        }
        format!("evict exec={} ok={} err={} unprepared={} idchanges={}", n_exec, n_ok, n_err, st.unprepared_at.len(), st.changed_at.len())
    })
}

//! C15 (learning combined with metadata refreshes on the real worker) end-to-end:
//! `e2e learnrf n=<nodes> seed=<s> rounds=<r>`
//!
//! A real `Session` on the mock cluster; `ks` is a tablet-based keyspace with the tables `t`, `u` and the MATERIALIZED
//! VIEW `mv` (of `t`; registered in the mock's `VIEWS`, so it lives in `Keyspace::views`, not in `tables`). One prepared
//! statement per table (the view is read through `SELECT .. FROM ks.mv WHERE pk = ?`, whose metadata names the view).
//! Each round:
//!   1. a few requests, each answered with a well-formed `tablets-routing-v1` payload (replicas among the hosts of the
//!      cluster, sometimes a host that joins only later in this round, sometimes a host that never exists);
//!   2. CHECK A: the published `ClusterState` is polled (at most 5 s) until it answers what the shadow says (a replica not yet known
//!      is left out of the answer, the tablet is served by the known ones);
//!   3. one event on the mock: nothing / a node changes its datacenter (its `Node` object is re-created) / a node is
//!      REPLACED (same address, new host id: the old host is removed) / a node joins / the view is dropped or re-created;
//!   4. `Session::refresh_metadata()` WHILE more requests teach more tablets (their replicas and tables are not touched
//!      by the event of this round, so the outcome does not depend on which of the two the worker handles first);
//!   5. CHECK B (polled): every table answers what the shadow says.
//!
//! ORACLE (the property's text, judged on the session's published state; independent of the Lean model, which echoes
//! `e2e` lines). After every refresh, per table and probe token:
//!   * the token is answered by the most recently learnt tablet covering it - also for the VIEW, also for tablets
//!     learnt while the refresh was in flight - unless a later tablet overlapped it, a replica's host left the cluster,
//!     a replica is still unknown after the refresh, or the table / view no longer exists: then by NOTHING;
//!   * every replica handed out is the `Node` object the state itself lists for that host (never a replaced object,
//!     never a host that left);
//!   * `get_endpoints(key)` of several keys = the same answer at the key's Murmur3 token (harness reference).
//! Environment problems (a request or the refresh itself failing on an overloaded machine) print `e2e-skip` and judge
//! nothing.
use super::common::*;
use crate::mockcluster::*;
use crate::mocknode::{Parsed, RESP_RESULT, ShardMode, body_void};
use crate::rng::Rng;
use crate::{Ctx, Tier};
use std::sync::Arc;
use std::time::Duration;

pub fn generate(rng: &mut Rng, tier: Tier, emit: &mut dyn FnMut(String)) {
    let n_cases = if tier == Tier::Quick { 24 } else { 120 };
    for _ in 0..n_cases {
        emit(format!("e2e learnrf n={} seed={} rounds={}", 2 + rng.below(2), rng.below(1 << 32), 3 + rng.below(if tier == Tier::Quick { 3 } else { 6 })));
    }
}

const TABLES: [&str; 3] = ["t", "u", "mv"];
const VIEW: usize = 2;
/// identity of a host that never exists
const GHOST: usize = 99;

fn stmt_text(table: usize) -> String {
    if table == VIEW { "SELECT pk, v FROM ks.mv WHERE pk = ?".to_owned() } else { format!("INSERT INTO ks.{} (pk, v) VALUES (?, ?)", TABLES[table]) }
}

fn ident_id(ident: usize) -> [u8; 16] {
    host_id_of(ident)
}

#[derive(Clone, Debug)]
struct Step {
    table: usize,
    /// (first exclusive, last]
    a: i64,
    b: i64,
    /// (host identity, shard)
    reps: Vec<(usize, i32)>,
}

#[derive(Clone, Debug, PartialEq)]
enum Event {
    Nothing,
    Dc(usize),
    Replace(usize, usize),
    Add(usize),
    ViewToggle,
}

struct Round {
    pre: Vec<Step>,
    event: Event,
    conc: Vec<Step>,
}

/// (first, last, raw replicas, resolved replicas, alive), newest last
#[derive(Default)]
struct Shadow(Vec<(i64, i64, Vec<(usize, i32)>, Vec<(usize, i32)>, bool)>);

impl Shadow {
    fn insert(&mut self, first: i64, last: i64, reps: &[(usize, i32)], known: &[usize]) {
        for e in self.0.iter_mut() {
            if e.4 && e.0 <= last && first <= e.1 {
                e.4 = false;
            }
        }
        let resolved = reps.iter().filter(|(h, _)| known.contains(h)).cloned().collect();
        self.0.push((first, last, reps.to_vec(), resolved, true));
    }
    /// a refresh: a tablet survives iff every replica it was learnt with is a host of the new cluster; then all of
    /// them are served
    fn refresh(&mut self, known: &[usize]) {
        for e in self.0.iter_mut() {
            if e.4 && !e.2.iter().all(|(h, _)| known.contains(h)) {
                e.4 = false;
            }
            if e.4 {
                e.3 = e.2.clone();
            }
        }
    }
    fn lookup(&self, tok: i64) -> Vec<(usize, i32)> {
        match self.0.iter().rev().find(|e| e.0 <= tok && tok <= e.1) {
            Some(e) if e.4 => e.3.clone(),
            _ => vec![],
        }
    }
}

/// resets the process-wide registries of the mock whatever way the case ends
struct Cleanup;
impl Drop for Cleanup {
    fn drop(&mut self) {
        *ROW_OVERRIDES.lock().unwrap() = None;
        VIEWS.lock().unwrap().retain(|(k, v, _)| !(k == "ks" && v.name == "mv"));
    }
}

fn set_view(present: bool) {
    let mut views = VIEWS.lock().unwrap();
    views.retain(|(k, v, _)| !(k == "ks" && v.name == "mv"));
    if present {
        views.push((
            "ks".to_owned(),
            TableSpec { name: "mv".into(), partition_key: vec![("pk".into(), "blob".into())], clustering: vec![("v".into(), "int".into())], regular: vec![] },
            "t".to_owned(),
        ));
    }
}

pub fn run(words: &[&str], ctx: &mut Ctx) -> String {
    let Some(p) = Params::parse(words) else { return "bad-case".into() };
    let (Some(n), Some(seed), Some(nrounds)) = (p.num("n"), p.num_or("seed", 1), p.num_or("rounds", 3)) else {
        return "bad-case".into();
    };
    if !(1..=5).contains(&n) || nrounds == 0 || nrounds > 12 {
        return "bad-case".into();
    }
    let n = n as usize;
    let shape = Shape { nodes: n, dcs: 1, racks: 1, shards: 0, msb: 12, vnodes: 2, strat: Strat::Nts(vec![1]), seed };
    let mut topo = shape.topology();
    topo.tablets_ext = true;
    topo.keyspaces[0].initial_tablets = Some(4);
    let base = std_table();
    topo.keyspaces[0].tables = TABLES[..2].iter().map(|t| TableSpec { name: (*t).into(), ..base.clone() }).collect();
    let _cleanup = Cleanup;
    *ROW_OVERRIDES.lock().unwrap() = None;
    set_view(true);

    // ---------------------------------------------------------------------------------------------- the script
    let mut rng = Rng::new(seed ^ 0x6c72_6673);
    let keys: Vec<Vec<u8>> = (0..6u8).map(|i| vec![0xa0 ^ i, i, (seed & 0xff) as u8]).collect();
    let mut pool: Vec<i64> = vec![i64::MIN + 1, -1, 0, 1, i64::MAX - 1];
    for k in &keys {
        let t = token_of(k);
        pool.extend([t.saturating_sub(1), t]);
    }
    for _ in 0..3 {
        let a = rng.range(-40, 40);
        pool.extend([a - 1, a, a + 1, a + 3]);
    }
    // slot -> host identity; the identities a replacement / a join brings are numbered from here
    let mut slots: Vec<usize> = (0..n).collect();
    let mut next_ident = n;
    let mut adds = 0;
    let mut view_present = true;
    let mut ranges: Vec<(i64, i64)> = Vec::new();
    let mut rounds: Vec<Round> = Vec::new();
    let gen_range = |rng: &mut Rng, ranges: &mut Vec<(i64, i64)>| -> (i64, i64) {
        let (a, b) = if !ranges.is_empty() && rng.chance(1, 3) {
            let r = ranges[rng.below(ranges.len() as u64) as usize];
            match rng.below(3) {
                0 => r,
                1 => (r.1, r.1.saturating_add(rng.range(1, 4))),
                _ => (r.0.saturating_add(rng.range(0, 2)), r.1.saturating_add(rng.range(0, 3))),
            }
        } else if rng.chance(1, 4) {
            // a wide tablet: keys fall into it
            *rng.pick(&[(i64::MIN, 0), (0, i64::MAX), (i64::MIN, i64::MAX), (i64::MIN / 2, i64::MAX / 2)])
        } else {
            let x = *rng.pick(&pool);
            let y = *rng.pick(&pool);
            (x.min(y), x.max(y))
        };
        let (a, b) = if a < b { (a, b) } else { (a.saturating_sub(1), a) };
        let (a, b) = if a < b { (a, b) } else { (0, 1) };
        ranges.push((a, b));
        (a, b)
    };
    for _ in 0..nrounds {
        let event = match rng.below(8) {
            0 | 1 => Event::Nothing,
            2 => Event::Dc(rng.below(slots.len() as u64) as usize),
            3 | 4 if slots.len() >= 2 => {
                let s = rng.below(slots.len() as u64) as usize;
                next_ident += 1;
                Event::Replace(s, next_ident - 1)
            }
            5 if adds < 2 => {
                adds += 1;
                next_ident += 1;
                Event::Add(next_ident - 1)
            }
            6 => Event::ViewToggle,
            _ => Event::Nothing,
        };
        // hosts the event touches (for the requests that run while the refresh is in flight)
        let touched: Vec<usize> = match &event {
            Event::Replace(s, new) => vec![slots[*s], *new],
            Event::Add(new) => vec![*new],
            _ => vec![],
        };
        let mut pre = Vec::new();
        for _ in 0..2 + rng.below(4) {
            let (a, b) = gen_range(&mut rng, &mut ranges);
            let k = 1 + rng.below(3) as usize;
            let mut reps: Vec<(usize, i32)> = (0..k).map(|_| (slots[rng.below(slots.len() as u64) as usize], rng.below(4) as i32)).collect();
            match (&event, rng.below(6)) {
                // a replica on the host that joins in this round: unknown now, resolved by the refresh
                (Event::Add(new), 0 | 1 | 2) => reps.push((*new, 1)),
                // a replica on a host that never exists: served by the others now, discarded by the refresh
                (_, 3) => reps.insert(0, (GHOST, 0)),
                _ => {}
            }
            pre.push(Step { table: rng.below(3) as usize, a, b, reps });
        }
        let view_after = if event == Event::ViewToggle { !view_present } else { view_present };
        let stable: Vec<usize> = slots.iter().cloned().filter(|h| !touched.contains(h)).collect();
        let mut conc = Vec::new();
        if !stable.is_empty() {
            for _ in 0..rng.below(4) {
                let (a, b) = gen_range(&mut rng, &mut ranges);
                let k = 1 + rng.below(2) as usize;
                let reps = (0..k).map(|_| (stable[rng.below(stable.len() as u64) as usize], rng.below(4) as i32)).collect();
                let table = if view_after { rng.below(3) as usize } else { rng.below(2) as usize };
                conc.push(Step { table, a, b, reps });
            }
        }
        match &event {
            Event::Replace(s, new) => slots[*s] = *new,
            Event::Add(new) => slots.push(*new),
            Event::ViewToggle => view_present = view_after,
            _ => {}
        }
        rounds.push(Round { pre, event, conc });
    }
    let all_steps: Vec<Step> = rounds.iter().flat_map(|r| r.pre.iter().chain(r.conc.iter()).cloned()).collect();
    let mut probes: Vec<i64> = keys.iter().map(|k| token_of(k)).collect();
    for s in &all_steps {
        probes.extend([s.a, s.a.saturating_add(1), s.b, s.b.saturating_add(1)]);
    }
    probes.sort();
    probes.dedup();

    let ids: Vec<Vec<u8>> = (0..3).map(|t| stmt_id(&stmt_text(t))).collect();
    let (steps_h, ids_h) = (all_steps.clone(), ids.clone());
    let handler: ClusterHandler = Box::new(move |r: &Req| match &r.parsed {
        Parsed::Prepare { text } => {
            let table = (0..3).find(|t| *text == stmt_text(*t)).unwrap_or(0);
            let bind = if table == VIEW {
                Specs::new("ks", "mv", &[("pk", CqlT::Native(T_BLOB))])
            } else {
                Specs::new("ks", TABLES[table], &[("pk", CqlT::Native(T_BLOB)), ("v", CqlT::Native(T_INT))])
            };
            vec![Act::Respond(RESP_RESULT, prepared_body(&stmt_id(text), &bind, &[0], None))]
        }
        Parsed::Execute { id, params, .. } => {
            // the step number travels in `pk`; the statement id must be the one of the step's table
            let Some(Some(v)) = params.values.first() else { return vec![act_void()] };
            let Ok(arr) = <[u8; 4]>::try_from(v.as_slice()) else { return vec![act_void()] };
            let i = u32::from_be_bytes(arr) as usize;
            let Some(step) = steps_h.get(i) else { return vec![act_void()] };
            if *id != ids_h[step.table] {
                return vec![act_void()];
            }
            let reps: Vec<([u8; 16], i32)> = step.reps.iter().map(|(h, s)| (ident_id(*h), *s)).collect();
            vec![Act::RespondFlags(0x04, RESP_RESULT, with_custom_payload(&[("tablets-routing-v1", tablet_payload(step.a, step.b, &reps))], &body_void()))]
        }
        _ => vec![act_void()],
    });

    let rt = runtime(2);
    rt.block_on(async {
        let cluster = MockCluster::start(topo, handler).await;
        // no refresh of the driver's own making while the case runs
        let session = match connect(&cluster, |b| b.cluster_metadata_refresh_interval(Duration::from_secs(3600))).await {
            Ok(s) => Arc::new(s),
            Err(skip) => return skip,
        };
        let mut prepared = Vec::new();
        for t in 0..3 {
            match session.prepare(stmt_text(t)).await {
                Ok(ps) => prepared.push(ps),
                Err(_) => return "e2e-skip prepare-failed".to_owned(),
            }
        }
        let prepared = Arc::new(prepared);
        async fn teach(session: &scylla::client::session::Session, prepared: &[scylla::statement::prepared::PreparedStatement], i: usize, table: usize) -> bool {
            let pk = (i as u32).to_be_bytes().to_vec();
            if table == VIEW { session.execute_unpaged(&prepared[table], (pk,)).await.is_ok() } else { session.execute_unpaged(&prepared[table], (pk, i as i32)).await.is_ok() }
        }
        // the state of the mock and of the shadow
        let mut slots: Vec<usize> = (0..n).collect();
        let mut dcs: Vec<String> = vec![Shape::dc_name(0); n];
        let mut view_present = true;
        let mut view_in_map = true;
        let mut shadows: Vec<Shadow> = (0..3).map(|_| Shadow::default()).collect();
        let mut overrides = RowOverrides::default();
        let mut step_no = 0usize;
        let (mut taught, mut judged_a, mut judged_b, mut wrong) = (0usize, 0usize, 0usize, 0usize);
        let mut events = String::new();

        // what the session's view says for a table and a token, as host identities; `Err`: a replica is not the object
        // the state lists for that host
        let view_at = |eps: Vec<(Arc<scylla::cluster::Node>, u32)>, state: &scylla::cluster::ClusterState, idents: &[usize]| -> Result<Vec<(usize, i32)>, String> {
            let mut out = Vec::new();
            for (nd, sh) in eps {
                match state.get_nodes_info().iter().find(|x| x.host_id == nd.host_id) {
                    None => return Err(format!("a replica on host {} which the state does not list (a host that left is still served)", nd.host_id)),
                    Some(cur) if !Arc::ptr_eq(cur, &nd) => return Err(format!("a replica on host {} through a replaced Node object", nd.host_id)),
                    _ => {}
                }
                let ident = idents.iter().cloned().find(|h| uuid::Uuid::from_bytes(ident_id(*h)) == nd.host_id).unwrap_or(usize::MAX);
                out.push((ident, sh as i32));
            }
            Ok(out)
        };
        let mismatches = |shadows: &[Shadow], slots: &[usize], skip_view: bool, with_keys: bool, first_only: bool| -> Vec<String> {
            let state = session.get_cluster_state();
            let mut out = Vec::new();
            for (ti, t) in TABLES.iter().enumerate() {
                // a dropped view nothing was learnt for since is not in the tablet map: the locator falls back to the
                // token ring (not this property)
                if ti == VIEW && skip_view {
                    continue;
                }
                for tok in &probes {
                    let norm = if *tok == i64::MIN { i64::MAX } else { *tok };
                    let want = shadows[ti].lookup(norm);
                    match view_at(state.get_token_endpoints("ks", t, scylla::routing::Token::new(*tok)), &state, slots) {
                        Ok(got) if got == want => {}
                        Ok(got) => out.push(format!("ks.{} token {}: the session answers {:?}, the tablets learnt for this table and still valid (latest wins) say {:?}", t, tok, got, want)),
                        Err(why) => out.push(format!("ks.{} token {}: {}", t, tok, why)),
                    }
                    if first_only && !out.is_empty() {
                        return out;
                    }
                }
                if with_keys && ti != VIEW {
                    for k in &keys {
                        let want = shadows[ti].lookup(token_of(k));
                        match state.get_endpoints("ks", t, &(k.clone(),)) {
                            Err(_) => out.push(format!("ks.{}: get_endpoints fails for a key of an existing table", t)),
                            Ok(eps) => match view_at(eps, &state, slots) {
                                Ok(got) if got == want => {}
                                Ok(got) => out.push(format!("ks.{} key {:02x?} (token {}): get_endpoints answers {:?}, the tablets learnt say {:?}", t, k, token_of(k), got, want)),
                                Err(why) => out.push(format!("ks.{} key {:02x?}: {}", t, k, why)),
                            },
                        }
                        if first_only && !out.is_empty() {
                            return out;
                        }
                    }
                }
            }
            out
        };

        for (ri, round) in rounds.iter().enumerate() {
            // 1. teach
            for s in &round.pre {
                if !teach(&session, &prepared, step_no, s.table).await {
                    return "e2e-skip request-failed".to_owned();
                }
                shadows[s.table].insert(s.a.saturating_add(1), s.b, &s.reps, &slots);
                view_in_map |= s.table == VIEW;
                step_no += 1;
                taught += 1;
            }
            // 2. CHECK A
            let t0 = std::time::Instant::now();
            while !mismatches(&shadows, &slots, !view_in_map, false, true).is_empty() && t0.elapsed() < Duration::from_secs(5) {
                tokio::time::sleep(Duration::from_millis(5)).await;
            }
            let bad = mismatches(&shadows, &slots, !view_in_map, false, false);
            judged_a += probes.len() * 3;
            wrong += bad.len();
            for m in bad.iter().take(2) {
                ctx.fail(format!("e2e learnrf: round {} before the refresh: {}", ri, m));
            }
            if !bad.is_empty() {
                break;
            }
            // 3. the event
            let cells = |cluster: &MockCluster, slot: usize, ident: usize, dc: &str| -> Vec<Cell> {
                let topo = cluster.topology();
                let ip = match cluster.addr(slot).ip() {
                    std::net::IpAddr::V4(ip) => ip,
                    _ => std::net::Ipv4Addr::LOCALHOST,
                };
                vec![
                    c_uuid(&ident_id(ident)),
                    c_inet(ip),
                    c_text(dc),
                    c_text(&topo.nodes[slot].rack),
                    c_text_seq(&topo.nodes[slot].tokens.iter().map(|t| t.to_string()).collect::<Vec<_>>()),
                ]
            };
            match &round.event {
                Event::Nothing => events.push('n'),
                Event::Dc(s) => {
                    events.push('d');
                    dcs[*s] = if dcs[*s] == Shape::dc_name(0) { "dcx".to_owned() } else { Shape::dc_name(0) };
                    cluster.set_node_dc(*s, &dcs[*s]);
                    if overrides.node_cells.contains_key(s) {
                        overrides.node_cells.insert(*s, cells(&cluster, *s, slots[*s], &dcs[*s]));
                        *ROW_OVERRIDES.lock().unwrap() = Some(overrides.clone());
                    }
                }
                Event::Replace(s, new) => {
                    events.push('r');
                    slots[*s] = *new;
                    overrides.node_cells.insert(*s, cells(&cluster, *s, *new, &dcs[*s]));
                    *ROW_OVERRIDES.lock().unwrap() = Some(overrides.clone());
                }
                Event::Add(new) => {
                    events.push('a');
                    let tokens: Vec<i64> = (0..2).map(|j| (*new as i64) * 7_000_003 + j * 13 + (seed as i64 % 1000)).collect();
                    cluster.add_node(NodeSpec { host_id: ident_id(*new), dc: Shape::dc_name(0), rack: "r1".into(), tokens, shards: ShardMode::None }).await;
                    slots.push(*new);
                    dcs.push(Shape::dc_name(0));
                }
                Event::ViewToggle => {
                    events.push(if view_present { 'v' } else { 'V' });
                    view_present = !view_present;
                    set_view(view_present);
                }
            }
            // 4. the refresh, while more tablets are taught
            let refresh = {
                let session = Arc::clone(&session);
                tokio::spawn(async move { session.refresh_metadata().await.is_ok() })
            };
            // the requests of this phase follow one another (their order among themselves is the shadow's), the whole
            // sequence runs beside the refresh
            let teaching = {
                let (session, prepared, first) = (Arc::clone(&session), Arc::clone(&prepared), step_no);
                let tables: Vec<usize> = round.conc.iter().map(|s| s.table).collect();
                let delay = (seed.wrapping_add(ri as u64 * 7) % 5) * 300;
                tokio::spawn(async move {
                    let mut ok = true;
                    for (j, table) in tables.into_iter().enumerate() {
                        tokio::time::sleep(Duration::from_micros(delay)).await;
                        ok &= teach(&session, &prepared, first + j, table).await;
                    }
                    ok
                })
            };
            let mut ok = matches!(tokio::time::timeout(Duration::from_secs(30), refresh).await, Ok(Ok(true)));
            ok &= matches!(tokio::time::timeout(Duration::from_secs(30), teaching).await, Ok(Ok(true)));
            if !ok {
                return "e2e-skip refresh-or-request-failed".to_owned();
            }
            // the shadow: the refresh, then the tablets taught meanwhile (their hosts and tables are not touched by the
            // event, so the other order gives the same)
            for (ti, sh) in shadows.iter_mut().enumerate() {
                if ti == VIEW && !view_present {
                    *sh = Shadow::default();
                } else {
                    sh.refresh(&slots);
                }
            }
            view_in_map = view_present;
            for s in &round.conc {
                shadows[s.table].insert(s.a.saturating_add(1), s.b, &s.reps, &slots);
                step_no += 1;
                taught += 1;
            }
            // 5. CHECK B
            let t0 = std::time::Instant::now();
            while !mismatches(&shadows, &slots, !view_in_map, true, true).is_empty() && t0.elapsed() < Duration::from_secs(5) {
                tokio::time::sleep(Duration::from_millis(5)).await;
            }
            let bad = mismatches(&shadows, &slots, !view_in_map, true, false);
            judged_b += probes.len() * 3 + keys.len() * 2;
            wrong += bad.len();
            for m in bad.iter().take(2) {
                ctx.fail(format!("e2e learnrf: round {} after the refresh (event {:?}, view {}): {}", ri, round.event, if view_present { "exists" } else { "dropped" }, m));
            }
            if !bad.is_empty() {
                break;
            }
        }
        let view_taught = all_steps.iter().filter(|s| s.table == VIEW).count();
        format!("learnrf rounds={} events={} taught={} view-steps={} judged-before={} judged-after={} wrong={}", rounds.len(), events, taught, view_taught, judged_a, judged_b, wrong)
    })
}

//! C10 end-to-end: `e2e samenode conns=<2..4> retries=<k> fault=<unsol|rst|fin> all=<0|1> seed=<s>`
//!
//! The clause "the session keeps working through other or re-established connections": one unsharded node, a pool of
//! `conns` connections (PoolSize::PerHost), a retry policy that answers RetrySameTarget on a broken connection (`k`
//! times). The scripted node does not answer the request's FIRST attempt: it breaks the connection that carried it
//!   unsol  a well-formed RESULT on a stream nobody waits on (the driver itself ends the connection)
//!   rst    the socket is reset            fin   the socket is closed
//! and nothing else (`all=0`), or every pool connection of the node (`all=1`). Later attempts are answered normally.
//!
//! ORACLE (from the property's statement):
//!  * all=0: the node has other healthy connections, the policy allows retrying on the same node: the request SUCCEEDS,
//!    and the attempt that was answered came in on a connection other than the broken one;
//!  * both: a request submitted afterwards succeeds within 10 s (all=1: through a re-established connection);
//!  * the request completes (Ok or Err) within 10 s.
use super::common::*;
use crate::mockcluster::*;
use crate::mocknode::{Parsed, RESP_RESULT, body_void, frame};
use crate::rng::Rng;
use crate::{Ctx, Tier};
use scylla::errors::RequestAttemptError;
use scylla::policies::retry::{RequestInfo, RetryDecision, RetryPolicy, RetrySession};
use std::sync::atomic::{AtomicUsize, Ordering};
use std::sync::{Arc, Mutex};
use std::time::Duration;

pub fn generate(rng: &mut Rng, tier: Tier, emit: &mut dyn FnMut(String)) {
    let n = if tier == Tier::Quick { 12 } else { 120 };
    for i in 0..n {
        emit(format!(
            "e2e samenode conns={} retries={} fault={} all={} seed={}",
            2 + rng.below(3),
            *rng.pick(&[40u64, 60, 100]),
            *rng.pick(&["unsol", "rst", "fin"]),
            if i % 4 == 3 { 1 } else { 0 },
            rng.below(1 << 32)
        ));
    }
}

/// RetrySameTarget on a broken connection, at most `k` times per request; everything else is not retried.
#[derive(Debug)]
struct SameTarget {
    k: usize,
    asked: Arc<AtomicUsize>,
}
struct SameTargetSession {
    left: usize,
    k: usize,
    asked: Arc<AtomicUsize>,
}
impl RetryPolicy for SameTarget {
    fn new_session(&self) -> Box<dyn RetrySession> {
        Box::new(SameTargetSession { left: self.k, k: self.k, asked: Arc::clone(&self.asked) })
    }
}
impl RetrySession for SameTargetSession {
    fn decide_should_retry(&mut self, info: RequestInfo) -> RetryDecision {
        self.asked.fetch_add(1, Ordering::SeqCst);
        match info.error {
            RequestAttemptError::BrokenConnectionError(_) if self.left > 0 => {
                self.left -= 1;
                RetryDecision::RetrySameTarget(None)
            }
            _ => RetryDecision::DontRetry,
        }
    }
    fn reset(&mut self) {
        self.left = self.k;
    }
}

fn key(id: u8) -> Vec<u8> {
    vec![0xC1, id, 0x07]
}
fn text(id: u8) -> String {
    format!("SELECT pk, v FROM ks.t WHERE pk = 0x{}", crate::util::hex(&key(id)))
}

#[derive(Default)]
struct NodeState {
    /// connections on which attempts of request 0 arrived, in order
    attempts: Vec<usize>,
    answered_on: Option<usize>,
}

pub fn run(words: &[&str], ctx: &mut Ctx) -> String {
    let Some(p) = Params::parse(words) else { return "bad-case".into() };
    let (Some(conns), Some(k), Some(all), Some(seed)) = (p.num("conns"), p.num("retries"), p.num_or("all", 0), p.num_or("seed", 1)) else {
        return "bad-case".into();
    };
    let fault = p.str("fault").unwrap_or("unsol").to_owned();
    if !(2..=4).contains(&conns) || !(1..=1000).contains(&k) || all > 1 || !["unsol", "rst", "fin"].contains(&fault.as_str()) {
        return "bad-case".into();
    }
    let (conns, k, all) = (conns as usize, k as usize, all == 1);
    let shape = Shape { nodes: 1, dcs: 1, racks: 1, shards: 0, msb: 12, vnodes: 2, strat: Strat::Simple(1), seed };
    let state: Arc<Mutex<NodeState>> = Arc::new(Mutex::new(NodeState::default()));
    let st_h = Arc::clone(&state);
    let fault_h = fault.clone();
    let handler = with_std_prepare(move |r: &Req| {
        let answer = |id: u8| vec![Act::Raw(frame(r.stream, RESP_RESULT, &rows_body(&row_specs(), true, None, &[vec![Some(key(id)), c_int(id as i32)]])))];
        match &r.parsed {
            Parsed::Query { text: t, .. } if *t == text(0) => {
                let mut st = st_h.lock().unwrap();
                st.attempts.push(r.conn);
                if st.attempts.len() == 1 {
                    // the first attempt: no answer, this connection breaks
                    return match fault_h.as_str() {
                        "rst" => vec![Act::Reset],
                        "fin" => vec![Act::Close],
                        _ => vec![Act::Raw(frame(31000, RESP_RESULT, &body_void()))],
                    };
                }
                st.answered_on = Some(r.conn);
                answer(0)
            }
            Parsed::Query { text: t, .. } if *t == text(1) => answer(1),
            _ => vec![act_void()],
        }
    });
    let rt = runtime(2);
    rt.block_on(async {
        use scylla::client::PoolSize;
        use scylla::client::execution_profile::ExecutionProfile;
        let cluster = Arc::new(MockCluster::start(shape.topology(), handler).await);
        let asked = Arc::new(AtomicUsize::new(0));
        let profile = ExecutionProfile::builder().retry_policy(Arc::new(SameTarget { k, asked: Arc::clone(&asked) })).build().into_handle();
        let session = match connect(&cluster, |b| {
            b.pool_size(PoolSize::PerHost(std::num::NonZeroUsize::new(conns).unwrap())).default_execution_profile_handle(profile.clone())
        })
        .await
        {
            Ok(s) => Arc::new(s),
            Err(skip) => return skip,
        };
        // precondition: the pool of the node is full (conns live non-control connections)
        let live = |c: &MockCluster| c.conns().iter().filter(|x| x.node == 0 && !x.control && x.ready.is_some() && x.closed.is_none()).count();
        let t0 = std::time::Instant::now();
        while live(&cluster) < conns {
            if t0.elapsed() > Duration::from_secs(10) {
                return format!("e2e-skip pool-not-full {}/{}", live(&cluster), conns);
            }
            tokio::time::sleep(Duration::from_millis(5)).await;
        }
        tokio::time::sleep(Duration::from_millis(20)).await;
        if all {
            // every pool connection of the node dies together with the one that carries the first attempt
            let (c2, st2) = (Arc::clone(&cluster), Arc::clone(&state));
            tokio::spawn(async move {
                loop {
                    if !st2.lock().unwrap().attempts.is_empty() {
                        c2.kill_connections(0, false);
                        return;
                    }
                    tokio::time::sleep(Duration::from_millis(1)).await;
                }
            });
        }
        let limit = Duration::from_secs(10);
        let res = tokio::time::timeout(limit, session.query_unpaged(text(0), ())).await;
        let (attempts, answered_on) = {
            let st = state.lock().unwrap();
            (st.attempts.clone(), st.answered_on)
        };
        let outcome = match &res {
            Err(_) => {
                ctx.fail(format!("e2e samenode: the request did not complete within {:?} after its connection broke ({})", limit, fault));
                "hang"
            }
            Ok(Ok(_)) => "ok",
            Ok(Err(_)) => "err",
        };
        if attempts.is_empty() {
            return format!("samenode not-fired outcome={}", outcome);
        }
        if !all {
            match &res {
                Ok(Err(e)) => ctx.fail(format!(
                    "e2e samenode: the connection that carried the first attempt broke ({}); the node has {} other healthy connections and the retry policy answered RetrySameTarget (asked {} times, allows {}), but the request FAILED: {} (attempts seen by the node on connections {:?}): the session does not keep working through the node's other connections",
                    fault, conns - 1, asked.load(Ordering::SeqCst), k, format!("{:?}", e).chars().take(160).collect::<String>(), attempts
                )),
                Ok(Ok(_)) => {
                    if answered_on.is_none() || answered_on == Some(attempts[0]) {
                        ctx.fail(format!("e2e samenode: the request succeeded although the node answered no attempt on another connection (attempts {:?})", attempts));
                    }
                }
                Err(_) => {}
            }
        }
        // the session keeps working (all=1: through a re-established connection)
        let follow = tokio::time::timeout(Duration::from_secs(10), async {
            loop {
                match session.query_unpaged(text(1), ()).await {
                    Ok(_) => return true,
                    Err(_) => tokio::time::sleep(Duration::from_millis(20)).await,
                }
            }
        })
        .await
        .unwrap_or(false);
        if !follow {
            ctx.fail(format!("e2e samenode: no request succeeded within 10 s after the fault `{}` (all={})", fault, all));
        }
        // the line is deterministic for all=0 only in its oracle-relevant part; attempts are reported as a count class
        format!("samenode outcome={} retried={} follow={}", outcome, attempts.len() > 1, follow)
    })
}

//! C04 end-to-end: `e2e ring n=<mock nodes> seed=<s>`
//!
//! A real `Session` against the mock cluster whose `system.local` / `system.peers` / `system_schema.keyspaces` rows are
//! awkward: rows with a null datacenter, a null rack, a null or empty `tokens` column, a peers row with a null host id
//! (skipped by the driver), a peers row it cannot deserialise (null `rpc_address`: skipped), phantom peers that own
//! tokens but never answer - several of them sharing ONE rpc_address (told apart by host id only); keyspace rows with the short and the fully qualified strategy class names and an unknown
//! class; in every fourth case also a malformed replication map (no `class`, a non-numeric factor), which makes
//! `query_keyspaces` fail the WHOLE fetch - then nothing of it may be published.
//! This drives, unmodified, what no hook reaches: the `NodeInfoRow` column mapping (`rpc_address`, `data_center`,
//! `rack`, `tokens`), the invalid-row skip and the local + peers fold of `query_peers`, `query_keyspaces`,
//! `ClusterState::new` on the result.
//!
//! ORACLE (the property, on what the rows say): for every keyspace and a sample of tokens,
//! `ClusterState::get_token_endpoints(ks, _, token)` names exactly the nodes the placement rule gives for the ring
//! of the rows' tokens (a row without tokens owns nothing, a row without host id or an undeserialisable row is no
//! node) under the strategy the keyspace row states (an unreadable keyspace row = unknown keyspace = the
//! LocalStrategy fallback); and the known nodes carry the rows' datacenter and rack.
use super::common::*;
use crate::c04::expected;
use crate::c04_fetch::oracle_strategy;
use crate::mockcluster::*;
use crate::mocknode::ShardMode;
use crate::rng::Rng;
use crate::topology::{PeerSpec, Strat};
use crate::{Ctx, Tier};
use scylla::routing::Token;
use std::collections::HashMap;
use std::net::Ipv4Addr;

pub fn generate(rng: &mut Rng, tier: Tier, emit: &mut dyn FnMut(String)) {
    let n = if tier == Tier::Quick { 12 } else { 120 };
    for _ in 0..n {
        emit(format!("e2e ring n={} seed={}", 1 + rng.below(3), rng.below(1 << 32)));
    }
}

struct RowSay {
    host: Option<[u8; 16]>,
    addr: Option<Ipv4Addr>,
    dc: Option<u32>,
    rack: Option<u32>,
    tokens: Option<Vec<i64>>,
}

fn cells(r: &RowSay) -> Vec<Cell> {
    vec![
        r.host.map(|h| h.to_vec()),
        r.addr.map(|a| a.octets().to_vec()),
        r.dc.map(|d| format!("dc{}", d).into_bytes()),
        r.rack.map(|k| format!("r{}", k).into_bytes()),
        r.tokens.as_ref().and_then(|t| c_text_seq(&t.iter().map(|x| x.to_string()).collect::<Vec<_>>())),
    ]
}

pub fn run(words: &[&str], ctx: &mut Ctx) -> String {
    let Some(p) = Params::parse(words) else { return "bad-case".into() };
    let (Some(n), Some(seed)) = (p.num_or("n", 2), p.num_or("seed", 1)) else { return "bad-case".into() };
    if n == 0 || n > 6 {
        return "bad-case".into();
    }
    let n = n as usize;
    let mut rng = Rng::new(seed ^ 0xC04);
    let mut used: Vec<i64> = Vec::new();
    let mut fresh = |rng: &mut Rng| loop {
        let t = if rng.chance(1, 6) { *rng.pick(&[i64::MIN + 1, -1, 0, 1, i64::MAX - 1, i64::MAX]) } else { rng.next() as i64 };
        if t != i64::MIN && !used.contains(&t) {
            used.push(t);
            return t;
        }
    };
    // what the rows say about the mock nodes (node 0 is the contact point; it always owns tokens so that the fetch is usable)
    let mut says: Vec<RowSay> = Vec::new();
    let mut nodes: Vec<NodeSpec> = Vec::new();
    for i in 0..n {
        let tokens: Vec<i64> = (0..rng.range(1, 3)).map(|_| fresh(&mut rng)).collect();
        let dc = rng.below(2) as u32;
        let rack = 5 + rng.below(3) as u32; // rack numbers never coincide with datacenter numbers
        nodes.push(NodeSpec { host_id: host_id_of(i), dc: format!("dc{}", dc), rack: format!("r{}", rack), tokens: tokens.clone(), shards: ShardMode::None });
        says.push(RowSay {
            host: Some(host_id_of(i)),
            addr: None, // filled in below (the mock's address)
            dc: if rng.chance(1, 5) { None } else { Some(dc) },
            rack: if rng.chance(1, 5) { None } else { Some(rack) },
            tokens: if i > 0 && rng.chance(1, 4) { if rng.bool() { None } else { Some(vec![]) } } else { Some(tokens) },
        });
    }
    // rows of nodes that do not exist
    let mut extra: Vec<RowSay> = Vec::new();
    for k in 0..rng.range(2, 5) as usize {
        let tokens: Vec<i64> = (0..rng.range(1, 2)).map(|_| fresh(&mut rng)).collect();
        let kind = rng.below(5);
        extra.push(RowSay {
            host: if kind == 0 { None } else { Some(host_id_of(40 + k)) },
            // nodes behind one NAT / proxy address are told apart by host id only: about half of the phantom rows share
            // ONE rpc_address (node identity must be the host id, never the address)
            addr: if kind == 1 { None } else if rng.chance(1, 2) { Some(Ipv4Addr::new(127, 77, (seed % 200) as u8, 250)) } else { Some(Ipv4Addr::new(127, 77, (seed % 200) as u8, k as u8 + 1)) },
            dc: if rng.chance(1, 4) { None } else { Some(rng.below(2) as u32) },
            rack: if rng.chance(1, 4) { None } else { Some(5 + rng.below(3) as u32) },
            tokens: if kind == 2 { None } else { Some(tokens) },
        });
    }
    // keyspace rows
    let q = |long: bool, s: &str| if long { format!("org.apache.cassandra.locator.{}", s) } else { s.to_owned() };
    let kv = |v: &[(&str, String)]| v.iter().map(|(k, x)| (k.to_string(), x.clone())).collect::<Vec<(String, String)>>();
    // one unreadable replication map makes `query_keyspaces` fail the whole metadata fetch: such rows only in every
    // fourth case, which then judges that nothing of the half-read metadata is published
    let malformed = seed % 4 == 0;
    let mut replications: Vec<Vec<(String, String)>> = vec![
        kv(&[("class", q(rng.bool(), "SimpleStrategy")), ("replication_factor", rng.range(1, 3).to_string())]),
        kv(&[("class", q(false, "NetworkTopologyStrategy")), ("dc0", rng.range(0, 2).to_string()), ("dc1", rng.range(1, 2).to_string())]),
        kv(&[("class", q(true, "NetworkTopologyStrategy")), ("dc1", rng.range(1, 3).to_string()), ("dc7", "2".to_string())]),
        kv(&[("class", "com.example.EverywhereStrategy".to_string()), ("replication_factor", "3".to_string())]),
        kv(&[("class", q(rng.bool(), "LocalStrategy"))]),
    ];
    if malformed {
        replications.push(if rng.bool() { kv(&[("class", q(rng.bool(), "NetworkTopologyStrategy")), ("dc0", "two".to_string())]) } else { kv(&[("replication_factor", "2".to_string())]) });
    }
    let keyspaces: Vec<KeyspaceSpec> = replications
        .iter()
        .enumerate()
        .map(|(i, r)| KeyspaceSpec { name: format!("ks{}", i), replication: r.clone(), tables: vec![], initial_tablets: None })
        .collect();

    let rt = runtime(2);
    rt.block_on(async {
        let cluster = MockCluster::start(Topology { nodes, keyspaces, tablets_ext: false }, with_std_prepare(|_| vec![act_void()])).await;
        for (i, s) in says.iter_mut().enumerate() {
            s.addr = match cluster.addr(i).ip() {
                std::net::IpAddr::V4(a) => Some(a),
                _ => None,
            };
        }
        let overrides = RowOverrides {
            node_cells: says.iter().enumerate().map(|(i, s)| (i, cells(s))).collect::<HashMap<_, _>>(),
            extra_peers: extra.iter().map(cells).collect(),
        };
        *ROW_OVERRIDES.lock().unwrap() = Some(overrides);
        let built = cluster.session_builder().build().await;
        *ROW_OVERRIDES.lock().unwrap() = None;
        let session = match built {
            Ok(s) => s,
            Err(_) => return "e2e-skip session-build-failed".to_owned(),
        };
        let cs = session.get_cluster_state();
        if malformed {
            // the fetch is refused as a whole: no keyspace of it may be known
            let known: Vec<String> = cs.keyspaces_iter().map(|(k, _)| k.to_owned()).collect();
            if !known.is_empty() {
                ctx.fail(format!("e2e ring: a keyspace row has an unreadable replication map, yet keyspaces {:?} were published", known));
            }
            return format!("ring refused keyspaces={}", known.len());
        }
        // the oracle's reading of the rows: ids = position in (mock nodes ++ extra rows)
        let mut reading: Vec<PeerSpec> = Vec::new();
        let mut id_of: HashMap<[u8; 16], u64> = HashMap::new();
        for (i, r) in says.iter().chain(extra.iter()).enumerate() {
            if let (Some(h), Some(_)) = (r.host, r.addr) {
                id_of.insert(h, i as u64);
                reading.push(PeerSpec { id: i as u64, dc: r.dc, rack: r.rack, tokens: r.tokens.clone().unwrap_or_default(), flags: String::new() });
            }
        }
        // the driver must know exactly these nodes, with the rows' datacenter and rack
        let mut known: Vec<(u64, Option<String>, Option<String>)> = Vec::new();
        for nd in cs.get_nodes_info() {
            match id_of.get(nd.host_id.as_bytes()) {
                Some(id) => known.push((*id, nd.datacenter.clone(), nd.rack.clone())),
                None => ctx.fail(format!("e2e ring: the driver knows a node {} that no usable row describes", nd.host_id)),
            }
        }
        known.sort();
        let mut want: Vec<(u64, Option<String>, Option<String>)> =
            reading.iter().map(|p| (p.id, p.dc.map(|d| format!("dc{}", d)), p.rack.map(|r| format!("r{}", r)))).collect();
        want.sort();
        if known != want {
            ctx.fail(format!("e2e ring: known nodes (id, datacenter, rack) {:?}, the rows say {:?}", known, want));
        }
        // replicas per keyspace and token
        let mut toks: Vec<i64> = reading.iter().flat_map(|p| p.tokens.iter().flat_map(|t| [*t, t.wrapping_sub(1), t.wrapping_add(1)])).collect();
        toks.extend([i64::MIN, i64::MAX, 0]);
        let mut judged = 0usize;
        for (i, rep) in replications.iter().enumerate().chain(std::iter::once((99usize, &Vec::new()))) {
            let ks = format!("ks{}", i);
            let stated: Strat = if i == 99 { Strat::Local } else { oracle_strategy(rep).unwrap_or(Strat::Local) };
            if i != 99 && (cs.get_keyspace(&ks).is_some() != oracle_strategy(rep).is_some()) {
                ctx.fail(format!("e2e ring: keyspace {} with replication {:?} is {} to the driver", ks, rep, if cs.get_keyspace(&ks).is_some() { "known" } else { "unknown" }));
            }
            for _ in 0..6 {
                let tok = *rng.pick(&toks);
                let got: Vec<u64> = cs
                    .get_token_endpoints(&ks, "t", Token::new(tok))
                    .iter()
                    .map(|(nd, _)| id_of.get(nd.host_id.as_bytes()).copied().unwrap_or(u64::MAX))
                    .collect();
                let want = expected(&reading, &stated, None, crate::topology::norm_token(tok));
                judged += 1;
                if got != want {
                    ctx.fail(format!(
                        "e2e ring: get_token_endpoints({}, token {}) = {:?}; the rows (nodes {:?}) and the keyspace row {:?} place it on {:?}",
                        ks, tok, got, reading.iter().map(|p| (p.id, p.dc, p.rack, p.tokens.clone())).collect::<Vec<_>>(), rep, want
                    ));
                    break;
                }
            }
        }
        format!("ring nodes={} rows={} judged={}", reading.len(), says.len() + extra.len(), judged)
    })
}

//! C15 (learning glue) end-to-end: `e2e learn n=<nodes> seed=<s> steps=<k>`
//!
//! A real `Session` on the mock cluster; `ks` is a tablet-based keyspace with the tables `t`, `u`, `w`. One prepared
//! INSERT per table. Each step executes one of them; the server's answer to that EXECUTE carries, as the step says,
//!   * a well-formed `tablets-routing-v1` payload (a small token range, replicas among the nodes),
//!   * a MALFORMED one (cell cut short / range with last <= first / negative shard / garbage / empty cell) inside a
//!     well-formed custom-payload map,
//!   * a custom payload without the tablets key, or no custom payload at all.
//! A fifth of the steps are first answered UNPREPARED, so that the teaching response is the one of the re-execution after
//! the transparent re-prepare (the second call site, connection.rs:1136-1140). One more request is an UNPREPARED query (no bind values, so a plain QUERY frame) answered with a well-formed tablet
//! payload for a range nothing else teaches. Then the published `ClusterState` is polled (at most 2 s) until it shows
//! what the shadow expects.
//!
//! ORACLE (what `Connection::update_tablets_from_response` + the cluster worker must make of it; independent of the
//! Lean model, which echoes `e2e` lines):
//!   * every request succeeds whatever the tablet cell looks like (a parse error is a warning, never a failed request);
//!   * per TABLE and probe token the session's view answers exactly what the history shadow says after applying the
//!     well-formed tablets, in the order the requests were made, each under the table of the prepared STATEMENT that
//!     was executed (never under another table; latest wins; an overlapped tablet answers nothing);
//!   * malformed payloads, payloads without the key and the payload of the unprepared query teach nothing.
//! Not covered: a full tablet channel (capacity 8192; `send().await` vs `try_send` cannot be told apart below that).
use super::common::*;
use crate::mockcluster::*;
use crate::mocknode::{Parsed, RESP_ERROR, RESP_RESULT, body_unprepared, body_void};
use crate::rng::Rng;
use crate::{Ctx, Tier};
use std::sync::Arc;
use std::time::Duration;

pub fn generate(rng: &mut Rng, tier: Tier, emit: &mut dyn FnMut(String)) {
    let n_cases = if tier == Tier::Quick { 40 } else { 160 };
    for _ in 0..n_cases {
        emit(format!("e2e learn n={} seed={} steps={}", 1 + rng.below(3), rng.below(1 << 32), 8 + rng.below(if tier == Tier::Quick { 17 } else { 33 })));
    }
}

const TABLES: [&str; 3] = ["t", "u", "w"];

#[derive(Clone, Debug)]
enum Teach {
    /// (first exclusive, last, replicas (node, shard))
    Valid(i64, i64, Vec<(usize, i32)>),
    /// bytes of the tablets cell
    Malformed(Vec<u8>),
    OtherKeyOnly,
    NoPayload,
}

#[derive(Clone, Debug)]
struct Step {
    table: usize,
    teach: Teach,
    /// the first EXECUTE of this step is answered UNPREPARED: the driver re-prepares and executes again, and it is the
    /// SECOND response (the other call site of `update_tablets_from_response`, connection.rs:1136-1140) that teaches
    reprepare: bool,
}

fn insert_text(table: &str) -> String {
    format!("INSERT INTO ks.{} (pk, v) VALUES (?, ?)", table)
}

/// (first, last, replicas, alive), newest last - the history shadow of one table
#[derive(Default)]
struct Shadow(Vec<(i64, i64, Vec<(usize, i32)>, bool)>);

impl Shadow {
    fn insert(&mut self, first: i64, last: i64, reps: &[(usize, i32)]) {
        for e in self.0.iter_mut() {
            if e.3 && e.0 <= last && first <= e.1 {
                e.3 = false;
            }
        }
        self.0.push((first, last, reps.to_vec(), true));
    }
    fn lookup(&self, tok: i64) -> Vec<(usize, i32)> {
        match self.0.iter().rev().find(|e| e.0 <= tok && tok <= e.1) {
            Some(e) if e.3 => e.2.clone(),
            _ => vec![],
        }
    }
}

pub fn run(words: &[&str], ctx: &mut Ctx) -> String {
    let Some(p) = Params::parse(words) else { return "bad-case".into() };
    let (Some(n), Some(seed), Some(nsteps)) = (p.num("n"), p.num_or("seed", 1), p.num_or("steps", 12)) else {
        return "bad-case".into();
    };
    if !(1..=6).contains(&n) || nsteps > 200 {
        return "bad-case".into();
    }
    let n = n as usize;
    let shape = Shape { nodes: n, dcs: 1, racks: 1, shards: 0, msb: 12, vnodes: 2, strat: Strat::Nts(vec![1]), seed };
    let mut topo = shape.topology();
    topo.tablets_ext = true;
    topo.keyspaces[0].initial_tablets = Some(4);
    let base = std_table();
    topo.keyspaces[0].tables = TABLES.iter().map(|t| TableSpec { name: (*t).into(), ..base.clone() }).collect();
    let nodes = topo.nodes.clone();

    // the script
    let mut rng = Rng::new(seed ^ 0x6c65_6172);
    let mut pool: Vec<i64> = vec![i64::MIN + 1, -1, 0, 1, i64::MAX - 1, i64::MAX];
    for _ in 0..3 {
        let a = rng.range(-40, 40);
        pool.extend([a - 1, a, a + 1, a + 3]);
    }
    let mut steps: Vec<Step> = Vec::new();
    let mut ranges: Vec<(i64, i64)> = Vec::new();
    for _ in 0..nsteps {
        let table = rng.below(TABLES.len() as u64) as usize;
        let valid = |rng: &mut Rng, ranges: &mut Vec<(i64, i64)>| -> (i64, i64, Vec<(usize, i32)>) {
            // often a range already taught (to this or another table), or one touching / overlapping it
            let (a, b) = if !ranges.is_empty() && rng.chance(1, 2) {
                let r = ranges[rng.below(ranges.len() as u64) as usize];
                match rng.below(3) {
                    0 => r,
                    1 => (r.1, r.1.saturating_add(rng.range(1, 4))),
                    _ => (r.0.saturating_add(rng.range(0, 2)), r.1.saturating_add(rng.range(0, 3))),
                }
            } else {
                let x = *rng.pick(&pool);
                let y = *rng.pick(&pool);
                (x.min(y), x.max(y))
            };
            let (a, b) = if a < b { (a, b) } else { (a.saturating_sub(1).max(i64::MIN), a) };
            let (a, b) = if a < b { (a, b) } else { (0, 1) };
            let k = 1 + rng.below(3) as usize;
            let reps = (0..k).map(|_| (rng.below(n as u64) as usize, rng.below(4) as i32)).collect();
            ranges.push((a, b));
            (a, b, reps)
        };
        let teach = match rng.below(10) {
            0..=5 => {
                let (a, b, r) = valid(&mut rng, &mut ranges);
                Teach::Valid(a, b, r)
            }
            6 | 7 => {
                // a malformed cell, derived from a well-formed one for a range that would matter
                let (a, b, r) = valid(&mut rng, &mut ranges);
                ranges.pop();
                let reps: Vec<([u8; 16], i32)> = r.iter().map(|(nd, s)| (nodes[*nd].host_id, *s)).collect();
                let good = tablet_payload(a, b, &reps);
                Teach::Malformed(match rng.below(5) {
                    0 => {
                        // cut short - but not right after the two bounds: a cell of exactly 24 bytes reads as a tablet with
                        // a null (= empty) replica list (short tuples are padded with nulls) and IS accepted
                        let mut k = rng.below(good.len() as u64) as usize;
                        if k == 24 {
                            k = 23;
                        }
                        good[..k].to_vec()
                    }
                    1 => tablet_payload(b, a, &reps),
                    2 => tablet_payload(a, b, &[(nodes[0].host_id, -1 - rng.below(3) as i32)]),
                    3 => {
                        let k = 1 + rng.below(40) as usize;
                        rng.bytes(k)
                    }
                    _ => vec![],
                })
            }
            8 => Teach::OtherKeyOnly,
            _ => Teach::NoPayload,
        };
        let reprepare = rng.chance(1, 5);
        steps.push(Step { table, teach, reprepare });
    }

    // what the shadow expects, per table
    let mut shadows: Vec<Shadow> = (0..TABLES.len()).map(|_| Shadow::default()).collect();
    for s in &steps {
        if let Teach::Valid(a, b, r) = &s.teach {
            shadows[s.table].insert(a + 1, *b, r);
        }
    }
    // the unprepared query's payload: a range nothing else touches
    let (qa, qb) = (1000i64, 1010i64);
    let mut probes: Vec<i64> = vec![qa + 1, qb];
    for s in &steps {
        if let Teach::Valid(a, b, _) = &s.teach {
            probes.extend([*a, a + 1, *b, b.saturating_add(1)]);
        }
    }
    probes.sort();
    probes.dedup();

    let ids: Vec<Vec<u8>> = TABLES.iter().map(|t| stmt_id(&insert_text(t))).collect();
    let (steps_h, nodes_h, ids_h) = (steps.clone(), nodes.clone(), ids.clone());
    let mut refused: std::collections::HashSet<usize> = std::collections::HashSet::new();
    let handler: ClusterHandler = Box::new(move |r: &Req| match &r.parsed {
        Parsed::Prepare { text } => {
            // `INSERT INTO ks.<table> (pk, v) VALUES (?, ?)`: the metadata names THAT table
            let table = TABLES.iter().find(|t| *text == insert_text(t)).copied().unwrap_or("t");
            let bind = Specs::new("ks", table, &[("pk", CqlT::Native(T_BLOB)), ("v", CqlT::Native(T_INT))]);
            vec![Act::Respond(RESP_RESULT, prepared_body(&stmt_id(text), &bind, &[0], None))]
        }
        Parsed::Execute { id, params, .. } => {
            // the step number travels in `v`; the statement id must be the one of the step's table
            let Some(Some(v)) = params.values.get(1) else { return vec![act_void()] };
            let Ok(arr) = <[u8; 4]>::try_from(v.as_slice()) else { return vec![act_void()] };
            let i = i32::from_be_bytes(arr) as usize;
            let Some(step) = steps_h.get(i) else { return vec![act_void()] };
            if *id != ids_h[step.table] {
                return vec![act_void()];
            }
            if step.reprepare && refused.insert(i) {
                return vec![Act::Respond(RESP_ERROR, body_unprepared(id))];
            }
            match &step.teach {
                Teach::Valid(a, b, r) => {
                    let reps: Vec<([u8; 16], i32)> = r.iter().map(|(nd, s)| (nodes_h[*nd].host_id, *s)).collect();
                    vec![Act::RespondFlags(0x04, RESP_RESULT, with_custom_payload(&[("tablets-routing-v1", tablet_payload(*a, *b, &reps))], &body_void()))]
                }
                Teach::Malformed(cell) => {
                    vec![Act::RespondFlags(0x04, RESP_RESULT, with_custom_payload(&[("tablets-routing-v1", cell.clone())], &body_void()))]
                }
                Teach::OtherKeyOnly => vec![Act::RespondFlags(0x04, RESP_RESULT, with_custom_payload(&[("something-else", vec![1, 2, 3])], &body_void()))],
                Teach::NoPayload => vec![act_void()],
            }
        }
        Parsed::Query { .. } => {
            // an unprepared request: whatever tablet it is told about has no table to be filed under
            let reps = [(nodes_h[0].host_id, 1)];
            vec![Act::RespondFlags(0x04, RESP_RESULT, with_custom_payload(&[("tablets-routing-v1", tablet_payload(qa, qb, &reps))], &body_void()))]
        }
        _ => vec![act_void()],
    });

    let rt = runtime(1);
    rt.block_on(async {
        let cluster = MockCluster::start(topo, handler).await;
        let session = match connect(&cluster, |b| b).await {
            Ok(s) => s,
            Err(skip) => return skip,
        };
        let mut prepared = Vec::new();
        for t in TABLES {
            match session.prepare(insert_text(t)).await {
                Ok(ps) => prepared.push(ps),
                Err(_) => return "e2e-skip prepare-failed".to_owned(),
            }
        }
        let mut failed = 0;
        for (i, s) in steps.iter().enumerate() {
            if let Err(e) = session.execute_unpaged(&prepared[s.table], (vec![i as u8, 7u8], i as i32)).await {
                failed += 1;
                ctx.fail(format!(
                    "e2e learn: request #{} on ks.{} failed ({}) although only its tablet payload was {:?}",
                    i,
                    TABLES[s.table],
                    err_kind(&e),
                    match &s.teach {
                        Teach::Valid(..) => "well-formed",
                        Teach::Malformed(_) => "malformed",
                        Teach::OtherKeyOnly => "without the tablets key",
                        Teach::NoPayload => "absent",
                    }
                ));
            }
        }
        if let Err(e) = session.query_unpaged("INSERT INTO ks.t (pk, v) VALUES (0x01, 1)", ()).await {
            failed += 1;
            ctx.fail(format!("e2e learn: the unprepared request failed ({})", err_kind(&e)));
        }
        // what the session's view says for a table and a token, as node indexes
        let view = |table: &str, tok: i64| -> Vec<(usize, i32)> {
            session
                .get_cluster_state()
                .get_token_endpoints("ks", table, scylla::routing::Token::new(tok))
                .iter()
                .map(|(nd, sh)| (nodes.iter().position(|x| uuid::Uuid::from_bytes(x.host_id) == nd.host_id).unwrap_or(usize::MAX), *sh as i32))
                .collect()
        };
        let mismatches = |first_only: bool| -> Vec<String> {
            let mut out = Vec::new();
            for (ti, t) in TABLES.iter().enumerate() {
                for tok in &probes {
                    // `Token::new` normalises i64::MIN to i64::MAX
                    let norm = if *tok == i64::MIN { i64::MAX } else { *tok };
                    let (got, want) = (view(t, *tok), shadows[ti].lookup(norm));
                    if got != want {
                        out.push(format!("ks.{} token {}: the session answers {:?}, the tablets taught for THIS table (latest wins) say {:?}", t, tok, got, want));
                        if first_only {
                            return out;
                        }
                    }
                }
            }
            out
        };
        let t0 = std::time::Instant::now();
        while !mismatches(true).is_empty() && t0.elapsed() < Duration::from_secs(2) {
            tokio::time::sleep(Duration::from_millis(10)).await;
        }
        // a little longer: nothing that should NOT be learnt (malformed, unprepared) trickles in afterwards
        tokio::time::sleep(Duration::from_millis(30)).await;
        let bad = mismatches(false);
        for m in bad.iter().take(3) {
            ctx.fail(format!("e2e learn: {}", m));
        }
        let taught = steps.iter().filter(|s| matches!(s.teach, Teach::Valid(..))).count();
        let malformed = steps.iter().filter(|s| matches!(s.teach, Teach::Malformed(_))).count();
        let _ = Arc::new(());
        let reprepared = steps.iter().filter(|s| s.reprepare).count();
        let taught_after_reprepare = steps.iter().filter(|s| s.reprepare && matches!(s.teach, Teach::Valid(..))).count();
        format!(
            "learn steps={} taught={} malformed={} reprepared={} taught-after-reprepare={} failed={} probes={} wrong={}",
            steps.len(),
            taught,
            malformed,
            reprepared,
            taught_after_reprepare,
            failed,
            probes.len() * TABLES.len(),
            bad.len()
        )
    })
}

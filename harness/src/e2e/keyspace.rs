//! C20 end-to-end: `e2e keyspace n=<nodes> sh=<shards> cs=<0|1> udelay=<ms> seed=<s> ops=<op.op...>`
//!
//! ops, executed in order on one Session (keyspaces `ka`, `kb`; requests are `SELECT pk, v FROM t WHERE pk = 0x<id>`,
//! i.e. they NEED the connection's keyspace):
//!   `ua` / `ub`   session.use_keyspace("ka" / "kb", cs)
//!   `q<k>`        k requests, one after another
//!   `c<k>`        k requests concurrently
//!   `xa<k>`/`xb<k>` use_keyspace CONCURRENTLY with k requests
//!   `k<i>`        node i closes all its pool connections;  `K` every node does
//!   `add`         a node joins (topology change + session.refresh_metadata())
//!   `w`           wait until all pools are full again;  `s<ms>` sleep
//! `udelay`: every second connection answers `USE` only after that many milliseconds (widens the window in which a
//! connection exists but has no keyspace yet).
//!
//! ORACLE at the nodes (C20's statement): each request frame records the keyspace its connection had ACKNOWLEDGED when
//! the frame arrived. For a request submitted after `use_keyspace(k)` returned Ok and while no other use_keyspace call
//! was running, that keyspace must be k. (For a request submitted while a later use_keyspace(k') was still running,
//! k or k' are both accepted.) Requests submitted before the first successful use_keyspace are unconstrained.
use super::common::*;
use crate::mockcluster::*;
use crate::mocknode::{Parsed, RESP_RESULT, ShardMode, body_set_keyspace};
use crate::rng::Rng;
use crate::{Ctx, Tier};
use std::time::Duration;

pub fn generate(rng: &mut Rng, tier: Tier, emit: &mut dyn FnMut(String)) {
    let n_cases = if tier == Tier::Quick { 40 } else { 400 };
    for _ in 0..n_cases {
        let n = 1 + rng.below(3);
        let mut nodes = n;
        let mut ops: Vec<String> = Vec::new();
        if rng.chance(1, 3) {
            ops.push(format!("q{}", 1 + rng.below(3)));
        }
        ops.push(if rng.chance(1, 4) { format!("xa{}", 2 + rng.below(4)) } else { "ua".into() });
        let len = 3 + rng.below(6);
        for _ in 0..len {
            let op = match rng.below(12) {
                0 | 1 => format!("q{}", 1 + rng.below(4)),
                2 | 3 => format!("c{}", 2 + rng.below(6)),
                4 | 5 => format!("k{}", rng.below(nodes)),
                6 => "K".to_owned(),
                7 if nodes < 5 => {
                    nodes += 1;
                    "add".to_owned()
                }
                8 => "w".to_owned(),
                9 => format!("s{}", 1 + rng.below(30)),
                10 => (*rng.pick(&["ua", "ub"])).to_owned(),
                _ => format!("x{}{}", rng.pick(&["a", "b"]), 2 + rng.below(4)),
            };
            let is_fault = op.starts_with('k') || op == "K" || op == "add";
            ops.push(op);
            if is_fault {
                // requests right after the disturbance are the interesting ones
                ops.push(format!("{}{}", rng.pick(&["q", "c"]), 2 + rng.below(5)));
            }
        }
        ops.push("w".into());
        ops.push("c6".into());
        emit(format!(
            "e2e keyspace n={} sh={} cs={} udelay={} seed={} ops={}",
            n,
            *rng.pick(&[0u64, 0, 2, 3]),
            rng.below(2),
            *rng.pick(&[0u64, 0, 5, 20]),
            rng.below(1 << 32),
            ops.join(".")
        ));
    }
}

#[derive(Clone, Debug)]
struct Submitted {
    /// keyspaces the request may legitimately run in; empty = unconstrained
    allowed: Vec<String>,
    op: usize,
}

fn req_text(id: usize) -> String {
    format!("SELECT pk, v FROM t WHERE pk = 0x{:08x}", id)
}

fn req_id(text: &str) -> Option<usize> {
    usize::from_str_radix(text.strip_prefix("SELECT pk, v FROM t WHERE pk = 0x")?, 16).ok()
}

pub fn run(words: &[&str], ctx: &mut Ctx) -> String {
    let Some(p) = Params::parse(words) else { return "bad-case".into() };
    let (Some(n), Some(sh), Some(cs), Some(udelay), Some(seed)) =
        (p.num("n"), p.num_or("sh", 0), p.num_or("cs", 0), p.num_or("udelay", 0), p.num_or("seed", 1))
    else {
        return "bad-case".into();
    };
    let Some(ops_s) = p.str("ops") else { return "bad-case".into() };
    let ops: Vec<&str> = ops_s.split('.').filter(|o| !o.is_empty()).collect();
    if !(1..=8).contains(&n) || sh > 8 || udelay > 500 || ops.len() > 200 {
        return "bad-case".into();
    }
    let n = n as usize;
    let shape = Shape { nodes: n, dcs: 1, racks: 1, shards: sh as u16, msb: 12, vnodes: 2, strat: Strat::Simple(1), seed };
    let mut topo = shape.topology();
    for k in ["ka", "kb"] {
        topo.keyspaces.push(KeyspaceSpec { name: k.into(), replication: simple_strategy(1), tables: vec![std_table()], initial_tablets: None });
    }
    let handler = with_std_prepare(move |r: &Req| match &r.parsed {
        Parsed::Query { text, .. } if parse_use(text).is_some() => {
            let k = parse_use(text).unwrap();
            let mut acts = Vec::new();
            if udelay > 0 && (r.conn + r.node) % 2 == 1 {
                acts.push(Act::Delay(Duration::from_millis(udelay)));
            }
            acts.push(Act::Respond(RESP_RESULT, body_set_keyspace(&k)));
            acts.push(Act::AckKeyspace(k));
            acts
        }
        Parsed::Query { .. } => vec![Act::Respond(RESP_RESULT, rows_body(&row_specs(), true, None, &[]))],
        _ => vec![act_void()],
    });
    let rt = runtime(1);
    rt.block_on(async {
        let cluster = MockCluster::start(topo, handler).await;
        cluster.set_auto_use(false);
        let session = match connect(&cluster, |b| b).await {
            Ok(s) => s,
            Err(skip) => return skip,
        };
        let mut submitted: Vec<Submitted> = Vec::new();
        let mut results: Vec<bool> = Vec::new();
        let mut confirmed: Option<String> = None;
        let mut uses_ok = 0;
        let mut uses_err = 0;
        let mut rng = Rng::new(seed ^ 0x6b73);
        for (oi, op) in ops.iter().enumerate() {
            let (head, arg) = {
                let split = op.find(|c: char| c.is_ascii_digit()).unwrap_or(op.len());
                (&op[..split], op[split..].parse::<usize>().ok())
            };
            // submits k requests (concurrently or not) whose allowed keyspaces are `allowed`
            macro_rules! requests {
                ($k:expr, $allowed:expr, $concurrent:expr) => {{
                    let k: usize = $k;
                    let first = submitted.len();
                    for _ in 0..k {
                        submitted.push(Submitted { allowed: $allowed, op: oi });
                    }
                    let session = &session;
                    async move {
                        let mut res = Vec::new();
                        if $concurrent {
                            let futs = (first..first + k).map(|id| async move { session.query_unpaged(req_text(id), ()).await.is_ok() });
                            res = futures::future::join_all(futs).await;
                        } else {
                            for id in first..first + k {
                                res.push(session.query_unpaged(req_text(id), ()).await.is_ok());
                            }
                        }
                        res
                    }
                }};
            }
            let allowed_now: Vec<String> = confirmed.iter().cloned().collect();
            match (head, arg) {
                ("ua", None) | ("ub", None) => {
                    let k = if head == "ua" { "ka" } else { "kb" };
                    match session.use_keyspace(k, cs != 0).await {
                        Ok(()) => {
                            confirmed = Some(k.to_owned());
                            uses_ok += 1;
                        }
                        Err(_) => {
                            // the session keyspace is now undetermined (some connections may have switched)
                            confirmed = None;
                            uses_err += 1;
                        }
                    }
                }
                ("q", Some(k)) if k <= 64 => results.extend(requests!(k, allowed_now.clone(), false).await),
                ("c", Some(k)) if k <= 64 => results.extend(requests!(k, allowed_now.clone(), true).await),
                ("xa", Some(k)) | ("xb", Some(k)) if k <= 64 => {
                    let target = if head == "xa" { "ka" } else { "kb" };
                    // concurrent with the switch: the old or the new keyspace; nothing is promised before the first use
                    let allowed: Vec<String> = match &confirmed {
                        None => vec![],
                        Some(c) => vec![c.clone(), target.to_owned()],
                    };
                    let reqs = requests!(k, allowed.clone(), true);
                    let (u, r) = tokio::join!(session.use_keyspace(target, cs != 0), reqs);
                    results.extend(r);
                    match u {
                        Ok(()) => {
                            confirmed = Some(target.to_owned());
                            uses_ok += 1;
                        }
                        Err(_) => {
                            confirmed = None;
                            uses_err += 1;
                        }
                    }
                }
                ("k", Some(i)) => {
                    if i < cluster.n_nodes() {
                        cluster.kill_connections(i, false);
                    }
                }
                ("K", None) => {
                    for i in 0..cluster.n_nodes() {
                        cluster.kill_connections(i, false);
                    }
                }
                ("add", None) => {
                    if cluster.n_nodes() < 12 {
                        let i = cluster.n_nodes();
                        let tokens: Vec<i64> = (0..2).map(|_| rng.next() as i64).collect();
                        cluster
                            .add_node(NodeSpec {
                                host_id: host_id_of(i),
                                dc: Shape::dc_name(0),
                                rack: "r1".into(),
                                tokens,
                                shards: if sh == 0 { ShardMode::None } else { ShardMode::ByPort(sh as u16, 12) },
                            })
                            .await;
                        let _ = session.refresh_metadata().await;
                    }
                }
                ("w", None) => {
                    cluster.wait_pools_full(&session, Duration::from_secs(3)).await;
                }
                ("s", Some(ms)) if ms <= 1000 => tokio::time::sleep(Duration::from_millis(ms as u64)).await,
                _ => return "bad-case".to_owned(),
            }
        }
        // ------------------------------------------------------------------ oracle
        let mut checked = 0;
        let mut frames_seen = 0;
        for f in cluster.user_frames() {
            let Parsed::Query { text, .. } = &f.parsed else { continue };
            let Some(id) = req_id(text) else { continue };
            let Some(sub) = submitted.get(id) else { continue };
            frames_seen += 1;
            if sub.allowed.is_empty() {
                continue;
            }
            checked += 1;
            let ok = f.keyspace.as_ref().is_some_and(|k| sub.allowed.contains(k));
            if !ok {
                ctx.fail(format!(
                    "e2e keyspace: request {} (op #{} `{}`), submitted after use_keyspace({}) had returned Ok, arrived at node {} on connection {} which had acknowledged keyspace {:?} (accepted: {:?}); the connection was opened at clock {} and acknowledged {:?}",
                    id,
                    sub.op,
                    ops[sub.op],
                    sub.allowed[0],
                    f.node,
                    f.conn,
                    f.keyspace,
                    sub.allowed,
                    cluster.conn(f.node, f.conn).opened,
                    cluster.conn(f.node, f.conn).keyspace_acks
                ));
            }
        }
        let ok_results = results.iter().filter(|r| **r).count();
        format!(
            "keyspace requests={} ok={} frames={} checked={} uses={}/{} nodes={}",
            submitted.len(),
            ok_results,
            frames_seen,
            checked,
            uses_ok,
            uses_ok + uses_err,
            cluster.n_nodes()
        )
    })
}
